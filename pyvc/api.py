"""names available to sidecar contract files."""
from .types import *
from .values import Box, SV, Obj, wrap, to_z3, type_of, PArr, EngineError
from .interp import LoopSpec, BlockSpec, Builtin
from .builtins import OneShot
from .verify import FunctionContract, Lemma
import z3

"""
pyvc.runner -- runs one property check: deductive layer (contracts + lemmas, in a process pool), the bounded
stand-in, triage of failed obligations (replay on the real code), known findings, evidence, exit code.

exit 0: every obligation discharged and nothing found by the bounded layer (known findings aside)
exit 1: violation (line `VIOLATION property=<id> replay=<path>[ no-failing-input-found]`)
exit 2: undecided (function out of the engine's reach / anchor not found) and nothing found -- never a VIOLATION
exit 3: checker crash
"""
import importlib
import json
import multiprocessing as mp
import os
import sys
import time
import traceback

ROOT = os.path.dirname(os.path.dirname(os.path.abspath(__file__)))
# VERIF_SCRATCH redirects evidence and replay files (used when a check is pointed at a scratch copy of the repository
# with VERIF_REPO, e.g. to try a seeded change without touching /repo or the committed evidence)
_OUT = os.environ.get('VERIF_SCRATCH')
EVID = os.path.join(_OUT, 'evidence') if _OUT else os.path.join(ROOT, 'evidence')
REPLAYS = os.path.join(_OUT, 'replays') if _OUT else os.path.join(ROOT, 'out', 'replays')

PY_SEMANTICS = [
    "python int is mathematical (true); float is treated as a real, NaN/inf only where a contract models them",
    "dict iterates in insertion order; set iteration order is arbitrary (universally quantified enumeration)",
    "block contracts: where a contract lists `block_contracts`, the statements of those regions are replaced by the region's own "
    "contract (precondition obliged, frame forgotten, postcondition assumed; the region is proved separately in the same run, "
    "including its frame)",
    "== on modelled values is structural; `is None` is a tag test; tuples are products; `is` between two values of an "
    "abstract sort is equality only where the contract declares the sort to stand for objects (identity_sorts), "
    "out of reach otherwise",
    "exceptions are explicit paths: KeyError/IndexError/TypeError/ValueError/ZeroDivisionError/AssertionError from "
    "subscripts, arithmetic on None, int(), unpacking, assert; an exception the contract does not list fails a "
    "safety obligation",
    "builtins and container methods used by the verified code are assumed contracts (pyvc/builtins.py), exercised "
    "against CPython by the differential part of pyvc/selftest/run.py",
    "nested mutable containers obtained by d[k] are modelled as views that write back to the parent; two "
    "different keys never alias the same inner container (no sharing of inner lists/dicts)",
    "iterating a container snapshots it at loop entry (the verified loops do not mutate what they iterate)",
    "the element of a list comprehension over a symbolic sequence is evaluated once as code at an arbitrary position, so an "
    "exception it may raise (a KeyError of d[k], say) is a path; the element and filter expressions of generator, set and dict "
    "comprehensions and the filters of list comprehensions are evaluated as total expressions (an exception there is not explored)",
    "iter(x) is a position in the traversal of x, next() advances it, a traversal takes what is left; an iterator used "
    "again after a traversal is out of reach",
    "a recursive function verified through its own contract is verified for partial correctness (termination is not shown)",
    "values of an abstract sort are compared with literals only through an injection that the contract declares; "
    "attributes that a contract did not give to an object it built are out of reach, not AttributeErrors",
    "numpy element-wise code is verified pointwise at an arbitrary index (pair); z3 may hang or crash outside its "
    "timeouts - such a job is undecided",
    "len(set) is an uninterpreted cardinality tied to the length of the set's enumerations; set truthiness in code is a fresh "
    "boolean equivalent to the existence of a member (Skolem witness); set().union(*seq) is a fresh set with exactly the members of "
    "the elements (Skolem witness); set.pop() returns an arbitrary member",
    "{k: v for x in S if p} is a fresh map: every key with p present, a key maps to the value of its last occurrence with p, every "
    "key comes from an element with p; insertion order not described",
    "str.split() without arguments is under-specified: non-empty blank-free substrings, at least one when the string starts with "
    "a non-blank character, the whole string when it has no blank (blank = space); str.replace / strip / lower ... are "
    "uninterpreted functions",
    "a container that a loop body mutates must be listed in the loop specification's `modifies` (frame obligation, else undecided); "
    "[x] * n with symbolic n is an immutable view of n references to x",
    "in a region contract the kinds (list / dict / set) of the live-in variables are assumptions about the code before the region",
]

DROPPED = ["docstrings and comments", "LOGGER.debug/info calls (no effect on any property)",
           "message formatting (str.format / % / f-strings are abstracted to fresh strings; arguments still evaluated)"]


def _verify_one(args):
    modname, kind, idx, timeout_ms = args
    try:
        from pyvc.verify import verify, verify_lemma
        mod = importlib.import_module(modname)
        if kind == 'lemma':
            r = verify_lemma(mod.LEMMAS[idx], timeout_ms=timeout_ms)
        else:
            r = verify(mod.CONTRACTS[idx], mod.CONTRACTS, timeout_ms=timeout_ms)
        d = r.as_dict()
        d['obligation_list'] = r.obligations
        d['kind'] = kind
        d['idx'] = idx
        return d
    except Exception as ex:   # pragma: no cover
        return dict(function='%s[%s %d]' % (modname, kind, idx), error='engine-crash: %s\n%s' % (ex, traceback.format_exc()),
                    obligation_list=[], obligations=0, discharged=0, failed=[], undecided=[], kind=kind, idx=idx,
                    wall_s=0, solver_ms=0, paths=0)


def _canary_one(args):
    modname, idx, k, timeout_ms = args
    from pyvc.verify import verify
    mod = importlib.import_module(modname)
    c = mod.CONTRACTS[idx]
    old, new = c.canary[k][0], c.canary[k][1]
    r = verify(c, mod.CONTRACTS, timeout_ms=timeout_ms, mutate=(old, new))
    bad = [o['name'] for o in r.obligations if o['status'] != 'unsat']
    return dict(function=c.name, mutation='%s -> %s' % (old, new), caught=bool(bad) or bool(r.error),
                by=bad[:3] or ([r.error[:80]] if r.error else []))


def _child(fn, arg, conn):
    try:
        conn.send(fn(arg))
    except BaseException as ex:      # pragma: no cover
        try:
            conn.send(dict(__error__='%s: %s' % (type(ex).__name__, ex)))
        except Exception:
            pass
    finally:
        conn.close()


def _run_jobs(fn, jobs, nproc, limit_s, lost):
    """run fn(job) for every job, each in its own forked process, at most nproc at a time; results in job order"""
    ctx = mp.get_context('fork')
    out = [None] * len(jobs)
    pending = list(range(len(jobs)))
    running = {}                      # index -> (process, parent connection, start time)
    while pending or running:
        while pending and len(running) < nproc:
            k = pending.pop(0)
            pc, cc = ctx.Pipe(duplex=False)
            p = ctx.Process(target=_child, args=(fn, jobs[k], cc))
            p.start()
            cc.close()
            running[k] = (p, pc, time.time())
        time.sleep(0.05)
        for k in list(running):
            p, pc, t0 = running[k]
            if pc.poll():
                try:
                    r = pc.recv()
                except EOFError:
                    r = None
                p.join(5)
                if isinstance(r, dict) and '__error__' in r:
                    r = lost(jobs[k], 'the engine process failed: ' + r['__error__'])
                out[k] = r if r is not None else lost(jobs[k], 'the engine process died (exit code %s)' % p.exitcode)
                del running[k]
            elif not p.is_alive():
                p.join(1)
                out[k] = lost(jobs[k], 'the engine process died (exit code %s): a crash of the solver, not a verdict' % p.exitcode)
                del running[k]
            elif time.time() - t0 > limit_s:
                p.terminate()
                p.join(5)
                out[k] = lost(jobs[k], 'the engine did not return within %d s' % limit_s)
                del running[k]
    return out


def load_known():
    path = os.path.join(ROOT, 'known_findings.jsonl')
    out = []
    if os.path.exists(path):
        for line in open(path):
            line = line.strip()
            if line:
                out.append(json.loads(line))
    return out


def match_known(known, prop, key):
    for k in known:
        if k.get('kind') == 'finding' and k.get('property') == prop and (k.get('key') == key or key in k.get('keys', [])):
            return k
    return None


def write_replay(prop, n, payload):
    os.makedirs(REPLAYS, exist_ok=True)
    path = os.path.join(REPLAYS, '%s-%d.json' % (prop, n))
    with open(path, 'w') as f:
        json.dump(payload, f, indent=1, default=str)
    return path


def run_check(modname, tier='quick', seed=0):
    """modname: checks.<cXX> module with PROP, CONTRACTS, LEMMAS, bounded(tier, seed), replay_model(function, model),
    optional extra_obligations(tier) -> list of dict(name, status, backend, detail)."""
    t0 = time.time()
    mod = importlib.import_module(modname)
    prop = mod.PROP
    if os.path.isdir(REPLAYS):
        for fn in os.listdir(REPLAYS):
            if fn.startswith(prop + '-'):
                os.remove(os.path.join(REPLAYS, fn))
    timeout_ms = int(os.environ.get('PYVC_TIMEOUT_MS', '10000'))
    jobs = [(modname, 'lemma', i, timeout_ms) for i in range(len(getattr(mod, 'LEMMAS', [])))] + \
           [(modname, 'fn', i, timeout_ms) for i in range(len(mod.CONTRACTS))]
    canary_jobs = []
    if tier == 'thorough' or os.environ.get('PYVC_CANARIES'):
        for i, c in enumerate(mod.CONTRACTS):
            for k in range(len(c.canary)):
                canary_jobs.append((modname, i, k, 4000))
    nproc = min(16, max(1, len(jobs) + len(canary_jobs)))
    results, canaries = [], []
    if jobs or canary_jobs:
        # every job runs in a process of its own with a wall-clock limit: z3 can hang outside its timeouts (seen in
        # Z3_solver_push on quantified string formulas) and can crash (segmentation fault seen in check); a job that does not
        # come back is undecided, never a verdict
        job_limit = int(os.environ.get('PYVC_JOB_LIMIT_S', '1500'))

        def lost(j, why):
            return dict(function='%s[%s %d]' % (j[0], j[1], j[2]), error='out-of-reach: %s' % why,
                        obligation_list=[], obligations=0, discharged=0, failed=[], undecided=[], kind=j[1], idx=j[2],
                        wall_s=0, solver_ms=0, paths=0)

        def lost_canary(j, why):
            mod_ = importlib.import_module(j[0])
            c_ = mod_.CONTRACTS[j[1]]
            return dict(function=c_.name, mutation='%s -> %s' % tuple(c_.canary[j[2]][:2]), caught=False, by=['(%s)' % why])
        results = _run_jobs(_verify_one, jobs, nproc, job_limit, lost)
        canaries = _run_jobs(_canary_one, canary_jobs, nproc, job_limit, lost_canary)
    # an obligation that timed out while the pool was busy is tried again alone with four times the budget: verdicts must
    # not depend on machine load (a real failure stays unknown/sat and is then reported)
    for k, r in enumerate(results):
        if any(o['status'] == 'unknown' for o in r['obligation_list']) and not any(o['status'] == 'sat' for o in r['obligation_list']):
            r2 = _run_jobs(_verify_one, [(modname, r['kind'], r['idx'], timeout_ms * 4)], 1, 2 * job_limit, lost)[0]
            r2['retried_alone'] = True
            if sum(o['status'] != 'unsat' for o in r2['obligation_list']) <= sum(o['status'] != 'unsat' for o in r['obligation_list']) \
                    and not r2.get('error'):
                results[k] = r2
    # a canary is caught when at least one variant (typed case) of the function catches it
    cg = {}
    for c in canaries:
        k = (c['function'], c['mutation'])
        g = cg.setdefault(k, dict(function=c['function'], mutation=c['mutation'], caught=False, by=[]))
        if c['caught']:
            g['caught'] = True
            g['by'] = g['by'] or c['by']
    canaries = list(cg.values())
    extra = []
    if hasattr(mod, 'extra_obligations'):
        extra = mod.extra_obligations(tier)
    # ---- engine self-test (known verdicts + differential test against CPython): a failing engine decides nothing
    selftest = None
    if os.environ.get('PYVC_SELFTEST', '1') != '0' and (jobs or tier == 'thorough'):
        import subprocess
        p = subprocess.run([sys.executable, '-W', 'ignore', '-m', 'pyvc.selftest.run'], cwd=ROOT, capture_output=True, text=True,
                           env=dict(os.environ, SELFTEST_N='10' if tier != 'thorough' else '60'))
        selftest = dict(rc=p.returncode, summary=(p.stdout.strip().splitlines() or ['(no output)'])[0],
                        problems=[l.strip() for l in p.stdout.splitlines() if 'SELFTEST-PROBLEM' in l][:10])
        if p.returncode != 0:
            print('ENGINE SELF-TEST FAILED: the checker is broken, nothing it reports is meaningful')
            print(p.stdout[-2000:] + p.stderr[-1000:])
            return 3
    # ---- bounded stand-in
    bres = None
    if hasattr(mod, 'bounded'):
        bres = mod.bounded(tier, seed)
    known = load_known()
    violations = []     # dict(key, text, replay payload, concrete: bool)
    undecided = []
    crash = []
    n_ob = n_dis = 0
    for r in results:
        if r.get('error'):
            if r['error'].startswith('engine-crash'):
                crash.append((r['function'], r['error']))
            undecided.append(dict(function=r['function'], reason=r['error'].split('\n')[0]))
        for o in r['obligation_list']:
            n_ob += 1
            if o['status'] == 'unsat':
                n_dis += 1
                continue
            if o['name'].startswith('frame:'):
                # the loop specification does not describe a container the (changed) body mutates: the function is no longer
                # covered by its contract - undecided, not evidence against the property
                undecided.append(dict(function=r['function'], reason='%s: the %s specification does not cover this container' % (o['name'], 'block' if o['name'].startswith('frame:block:') else 'loop')))
                continue
            # failed obligation (sat with model, or not dischargeable within the budget)
            concrete = None
            if o.get('model') is not None and hasattr(mod, 'replay_model'):
                try:
                    concrete = mod.replay_model(r['function'], o['model'])
                except Exception as ex:
                    concrete = None
                    o['replay_error'] = '%s: %s' % (type(ex).__name__, ex)
            violations.append(dict(
                key='%s/%s' % (r['function'].split('::')[-1], o['name'].split('@')[0]),
                function=r['function'], obligation=o['name'], solver_status=o['status'], solver_detail=o.get('detail'),
                model=o.get('model'), concrete=concrete, line=o.get('line')))
    for o in extra:
        n_ob += 1
        if o['status'] == 'unsat':
            n_dis += 1
        elif o['status'] == 'unknown':
            # the scan does not recognise the (restructured) code: undecided, never an alarm
            undecided.append(dict(function=o.get('function', '') or o['name'], reason='%s: %s' % (o['name'], o.get('detail', ''))))
        else:
            violations.append(dict(key=o.get('key', o['name']), function=o.get('function', ''), obligation=o['name'],
                                   solver_status=o['status'], solver_detail=o.get('detail'), model=None,
                                   concrete=o.get('concrete'), line=o.get('line')))
    if bres is not None:
        for v in bres.get('violations', []):
            violations.append(dict(key=v['key'], function=v.get('function', ''), obligation='bounded:' + v['key'],
                                   solver_status='bounded', solver_detail=None, model=None, concrete=v, line=None))
    # obligations that failed without a concrete input: look for one in the bounded layer's findings
    printed = []
    nviol = 0
    kf_lines = []
    seen_keys = set()
    for v in violations:
        if v['concrete'] is None and bres is not None:
            for bv in bres.get('violations', []):
                if bv.get('function') and bv['function'] in v['function']:
                    v['concrete'] = bv
                    break
        # known findings are identified by the concrete finding's key when there is one, else by the obligation key
        keys = [v['key']]
        if v['concrete'] and v['concrete'].get('key'):
            keys.insert(0, v['concrete']['key'])
        kf = None
        for k_ in keys:
            kf = match_known(known, prop, k_)
            if kf:
                break
        if kf:
            line = 'KNOWN-FINDING: property=%s %s' % (prop, kf['text'])
            if line not in kf_lines:
                kf_lines.append(line)
            continue
        if keys[0] in seen_keys:
            continue
        seen_keys.add(keys[0])
        nviol += 1
        payload = dict(property=prop, obligation=v['obligation'], function=v['function'], key=keys[0],
                       solver_status=v['solver_status'], solver_output=v['solver_detail'], counter_model=v['model'],
                       failing_input=v['concrete'], line=v['line'],
                       how_to_rerun='cd /verif && ./check %s --tier %s' % (prop, tier))
        path = write_replay(prop, nviol, payload)
        suffix = '' if v['concrete'] else ' no-failing-input-found'
        printed.append('VIOLATION property=%s replay=%s%s' % (prop, path, suffix))
    fixed_notes = ['fixed: property=%s %s %s' % (k['property'], k.get('commit', '?'), k['text'])
                   for k in known if k.get('kind') == 'fixed' and k.get('property') == prop]
    # ---- evidence
    wall = time.time() - t0
    level = getattr(mod, 'LEVEL', 'proof')
    fn_rows = [{k: r.get(k) for k in ('function', 'src_sha256', 'lines', 'paths', 'paths_reaching_post', 'obligations',
                                      'discharged', 'failed', 'undecided', 'wall_s', 'solver_ms', 'pre_sat', 'error',
                                      'query_instances', 'contract')} for r in results]
    samples = []
    for r in results[:6]:
        for o in r['obligation_list'][:3]:
            samples.append('%s :: %s -> %s (%s, %.1f ms)' % (r['function'], o['name'], o['status'], o.get('backend', 'z3'),
                                                             o.get('ms', 0)))
    for o in extra[:4]:
        samples.append('%s -> %s (%s)' % (o['name'], o['status'], o.get('backend', 'ast-scan')))
    backends = {}
    for r in results:
        for o in r['obligation_list']:
            b = 'z3' if o.get('backend', 'z3') == 'z3' else o['backend']
            backends[b] = backends.get(b, 0) + 1
    for o in extra:
        backends[o.get('backend', 'ast-scan')] = backends.get(o.get('backend', 'ast-scan'), 0) + 1
    cov = dict(
        obligations=n_ob, discharged=n_dis,
        checker_cmd='./check %s --tier %s  (pyvc: ast -> VCs from /repo working tree, z3 %s)' % (prop, tier, _z3ver()),
        trusted_base=list(getattr(mod, 'TRUSTED', [])) + ['pyvc engine (symbolic executor, pyvc/*.py)', 'z3-solver 5.1'],
        functions_under_contract=fn_rows,
        obligations_by_backend=backends,
        solver_ms_total=round(sum(r.get('solver_ms') or 0 for r in results), 1),
        undecided=undecided,
        vacuity=dict(pre_sat=[(r['function'], r.get('pre_sat')) for r in results],
                     paths_reaching_post=sum(r.get('paths_reaching_post') or 0 for r in results),
                     canaries=canaries, engine_selftest=selftest),
        dropped_by_extraction=DROPPED + list(getattr(mod, 'DROPPED', [])),
        python_semantics_assumed=PY_SEMANTICS,
        not_proved=list(getattr(mod, 'NOT_PROVED', [])),
        samples=samples or ['(no obligations)'],
        explanation=getattr(mod, 'EXPLANATION', ''),
        known_findings=kf_lines, fixed=fixed_notes,
    )
    if bres is not None:
        cov['bounded'] = {k: bres[k] for k in bres if k != 'violations'}
        cov['bounded']['label'] = 'bounded stand-in: decides nothing beyond the stated bound; never counted as proved'
        cov['evaluations'] = bres.get('evaluations', 0)
        cov['distinct_nontrivial'] = bres.get('distinct_nontrivial', 0)
        cov['rule'] = bres.get('rule', '')
        if bres.get('samples'):
            cov['samples'] = cov['samples'] + [{'bounded_case': s} for s in bres['samples'][:3]]
        cov['exhaustive'] = bool(bres.get('exhaustive', False))
    ev = dict(property_id=prop, tier=tier, seed=seed, level=level, coverage=cov,
              assumptions=list(getattr(mod, 'ASSUMPTIONS', [])) + ['see coverage.trusted_base and '
                                                                   'coverage.python_semantics_assumed'],
              wall_s=round(wall, 2), violations=nviol)
    os.makedirs(EVID, exist_ok=True)
    with open(os.path.join(EVID, '%s.json' % prop), 'w') as f:
        json.dump(ev, f, indent=1, default=str)
    # ---- output
    for ln in kf_lines:
        print(ln)
    for ln in printed:
        print(ln)
    print('%s tier=%s: %d/%d obligations discharged over %d functions/lemmas in %.1fs; bounded: %s; '
          'violations=%d undecided=%d' % (prop, tier, n_dis, n_ob, len(results),
                                          wall, ('%d cases' % bres['evaluations']) if bres else 'none',
                                          nviol, len(undecided)))
    for u in undecided:
        print('  UNDECIDED %s: %s' % (u['function'], u['reason']))
    if nviol:
        return 1
    if crash:
        for fn, err in crash:
            print('  CRASH %s\n%s' % (fn, err))
        return 3
    if n_ob == 0 and bres is None:
        print('  no obligations generated: harness broken')
        return 3
    if undecided:
        return 2
    return 0


def _z3ver():
    try:
        import z3
        return z3.get_version_string()
    except Exception:
        return '?'

"""
pyvc.types -- type descriptors and their z3 sorts.

Every symbolic value of the engine is a pair (type descriptor, z3 expression).  Container
types are encoded as z3 datatypes so that they nest:

  Seq[T]    = mk(len: Int, arr: Array Int T)            (garbage beyond len; never compared with ==)
  Map[K,V]  = mk(n: Int, keys: Array Int K, dom: Array K Bool, val: Array K V, pos: Array K Int)
              keys[0..n) is the insertion order (duplicate free), pos its inverse on dom
  Set[T]    = Array T Bool
  Opt[T]    = none | some(v: T)
  Tuple[..] = mk(f0, f1, ...)
"""
import z3

_DT_CACHE = {}


class Ty:
    name = '?'

    def sort(self):
        raise NotImplementedError

    def __repr__(self):
        return self.name

    def __eq__(self, other):
        return isinstance(other, Ty) and self.name == other.name

    def __hash__(self):
        return hash(self.name)

    # type invariant of a z3 expression of this type (a z3 BoolRef or None)
    def inv(self, e):
        return None


class _Int(Ty):
    name = 'Int'

    def sort(self):
        return z3.IntSort()


class _Bool(Ty):
    name = 'Bool'

    def sort(self):
        return z3.BoolSort()


class _Real(Ty):
    name = 'Real'

    def sort(self):
        return z3.RealSort()


class _Str(Ty):
    name = 'Str'

    def sort(self):
        return z3.StringSort()


class _Char(Ty):
    """one character, represented by its code point."""
    name = 'Char'

    def sort(self):
        return z3.IntSort()


TInt, TBool, TReal, TStr, TChar = _Int(), _Bool(), _Real(), _Str(), _Char()


class TKey(Ty):
    """Uninterpreted hashable (only equality)."""

    def __init__(self, name='Key'):
        self.name = name

    def sort(self):
        return z3.DeclareSort(self.name)


class TOpt(Ty):
    def __init__(self, t):
        self.t = t
        self.name = 'Opt_%s' % t.name

    def sort(self):
        if self.name not in _DT_CACHE:
            d = z3.Datatype(self.name)
            d.declare('none')
            d.declare('some', ('v', self.t.sort()))
            _DT_CACHE[self.name] = d.create()
        return _DT_CACHE[self.name]

    def none(self):
        return self.sort().none

    def some(self, e):
        return self.sort().some(e)

    def is_none(self, e):
        return self.sort().is_none(e)

    def get(self, e):
        return self.sort().v(e)

    def inv(self, e):
        i = self.t.inv(self.get(e))
        if i is None:
            return None
        return z3.Implies(z3.Not(self.is_none(e)), i)


class TTuple(Ty):
    def __init__(self, *ts, names=None):
        self.ts = list(ts)
        self.names = list(names) if names else None
        self.name = 'Tup_' + '_'.join(t.name for t in ts)

    def sort(self):
        if self.name not in _DT_CACHE:
            d = z3.Datatype(self.name)
            d.declare('mk', *[('f%d' % i, t.sort()) for i, t in enumerate(self.ts)])
            _DT_CACHE[self.name] = d.create()
        return _DT_CACHE[self.name]

    def mk(self, *es):
        return self.sort().mk(*es)

    def get(self, e, i):
        return getattr(self.sort(), 'f%d' % i)(e)

    def inv(self, e):
        parts = [t.inv(self.get(e, i)) for i, t in enumerate(self.ts)]
        parts = [p for p in parts if p is not None]
        return z3.And(*parts) if parts else None


class TSeq(Ty):
    def __init__(self, t):
        self.t = t
        self.name = 'Seq_%s' % t.name

    def sort(self):
        if self.name not in _DT_CACHE:
            d = z3.Datatype(self.name)
            d.declare('mk', ('len', z3.IntSort()), ('arr', z3.ArraySort(z3.IntSort(), self.t.sort())))
            _DT_CACHE[self.name] = d.create()
        return _DT_CACHE[self.name]

    def mk(self, n, arr):
        return self.sort().mk(n, arr)

    def len(self, e):
        return z3.simplify(self.sort().len(e)) if False else self.sort().len(e)

    def arr(self, e):
        return self.sort().arr(e)

    def at(self, e, i):
        return z3.Select(self.arr(e), i)

    def empty(self):
        return self.mk(z3.IntVal(0), z3.K(z3.IntSort(), default_of(self.t)))

    def inv(self, e):
        parts = [self.len(e) >= 0]
        i = z3.FreshInt('ti')
        ei = self.t.inv(self.at(e, i))
        if ei is not None:
            parts.append(z3.ForAll([i], z3.Implies(z3.And(0 <= i, i < self.len(e)), ei)))
        return z3.And(*parts)


class _CStr(TSeq):
    """a string that the verified code takes apart: a sequence of code points (len, Array Int Int)."""

    def __init__(self):
        TSeq.__init__(self, TChar)
        self.name = 'CStr'

    def lit(self, s):
        arr = z3.K(z3.IntSort(), z3.IntVal(0))
        for i, ch in enumerate(s):
            arr = z3.Store(arr, i, ord(ch))
        return self.mk(z3.IntVal(len(s)), arr)


TCStr = _CStr()


class TSet(Ty):
    def __init__(self, t):
        self.t = t
        self.name = 'Set_%s' % t.name

    def sort(self):
        return z3.ArraySort(self.t.sort(), z3.BoolSort())

    def empty(self):
        return z3.K(self.t.sort(), z3.BoolVal(False))


class TMap(Ty):
    def __init__(self, k, v):
        self.k, self.v = k, v
        self.name = 'Map_%s_%s' % (k.name, v.name)

    def sort(self):
        if self.name not in _DT_CACHE:
            d = z3.Datatype(self.name)
            ks, vs = self.k.sort(), self.v.sort()
            d.declare('mk', ('n', z3.IntSort()), ('keys', z3.ArraySort(z3.IntSort(), ks)),
                      ('dom', z3.ArraySort(ks, z3.BoolSort())), ('val', z3.ArraySort(ks, vs)),
                      ('pos', z3.ArraySort(ks, z3.IntSort())))
            _DT_CACHE[self.name] = d.create()
        return _DT_CACHE[self.name]

    def mk(self, n, keys, dom, val, pos):
        return self.sort().mk(n, keys, dom, val, pos)

    def n(self, e):
        return self.sort().n(e)

    def keys(self, e):
        return self.sort().keys(e)

    def dom(self, e):
        return self.sort().dom(e)

    def val(self, e):
        return self.sort().val(e)

    def pos(self, e):
        return self.sort().pos(e)

    def has(self, e, k):
        return z3.Select(self.dom(e), k)

    def at(self, e, k):
        return z3.Select(self.val(e), k)

    def key_at(self, e, i):
        return z3.Select(self.keys(e), i)

    def empty(self):
        ks = self.k.sort()
        return self.mk(z3.IntVal(0), z3.K(z3.IntSort(), default_of(self.k)), z3.K(ks, z3.BoolVal(False)),
                       z3.K(ks, default_of(self.v)), z3.K(ks, z3.IntVal(0)))

    def inv(self, e):
        k = z3.FreshConst(self.k.sort(), 'tk')
        i = z3.FreshInt('ti')
        n = self.n(e)
        parts = [n >= 0,
                 z3.ForAll([k], z3.Implies(self.has(e, k),
                                           z3.And(0 <= z3.Select(self.pos(e), k), z3.Select(self.pos(e), k) < n,
                                                  self.key_at(e, z3.Select(self.pos(e), k)) == k)),
                           patterns=[self.has(e, k)]),
                 z3.ForAll([i], z3.Implies(z3.And(0 <= i, i < n),
                                           z3.And(self.has(e, self.key_at(e, i)),
                                                  z3.Select(self.pos(e), self.key_at(e, i)) == i)),
                           patterns=[self.key_at(e, i)])]
        vi = self.v.inv(self.at(e, k))
        if vi is not None:
            parts.append(z3.ForAll([k], z3.Implies(self.has(e, k), vi)))
        ki = self.k.inv(k)
        if ki is not None:
            parts.append(z3.ForAll([k], z3.Implies(self.has(e, k), ki)))
        return z3.And(*parts)

    def insert(self, e, k, v):
        """value of the map after d[k] = v (append to the order if new)."""
        has = self.has(e, k)
        n = self.n(e)
        return self.mk(z3.If(has, n, n + 1),
                       z3.If(has, self.keys(e), z3.Store(self.keys(e), n, k)),
                       z3.Store(self.dom(e), k, z3.BoolVal(True)),
                       z3.Store(self.val(e), k, v),
                       z3.If(has, self.pos(e), z3.Store(self.pos(e), k, n)))


def default_of(t):
    """an arbitrary but fixed element of the sort (used as filler of constant arrays)."""
    s = t.sort()
    if isinstance(t, (_Int, _Char)):
        return z3.IntVal(0)
    if isinstance(t, _Bool):
        return z3.BoolVal(False)
    if isinstance(t, _Real):
        return z3.RealVal(0)
    if isinstance(t, _Str):
        return z3.StringVal('')
    if isinstance(t, TOpt):
        return t.none()
    if isinstance(t, TTuple):
        return t.mk(*[default_of(x) for x in t.ts])
    if isinstance(t, TSeq):
        return t.empty()
    if isinstance(t, TMap):
        return t.empty()
    if isinstance(t, TSet):
        return t.empty()
    return z3.Const('dflt_' + t.name, s)

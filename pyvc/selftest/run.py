"""engine self-test: (1) contracts with known verdicts -- every `good` postcondition must be proved and every `bad` one
must fail; (2) differential test of the interpreter against CPython on random concrete inputs.
usage: python -m pyvc.selftest.run    exit 0 = engine behaves as expected"""
import os
import random
import sys
import time

HERE = os.path.dirname(os.path.abspath(__file__))
sys.path.insert(0, os.path.dirname(os.path.dirname(HERE)))
from pyvc.api import *                                    # noqa
from pyvc.verify import verify, FunctionContract          # noqa
from pyvc.interp import Engine, Env, PyExc, _Return, Closure   # noqa
from pyvc.verify import LazyModuleEnv, find_function, strip_docstring
from pyvc import builtins as B
import ast
import z3

SRC = os.path.join(HERE, 'src.py')
IS = TSeq(TInt)


def C(name, setup, good, bad, loops=None, raises=None, locals=None, requires=()):
    return dict(name=name, setup=setup, good=good, bad=bad, loops=loops or {}, raises=raises or {}, locals=locals or {}, requires=list(requires))


CASES = [
    C('floordiv_mod', lambda cx: dict(a=cx.val('a', TInt), b=cx.val('b', TInt)),
      good=["result[0] * b + result[1] == a", "implies(b > 0, 0 <= result[1] and result[1] < b)", "implies(b < 0, b < result[1] and result[1] <= 0)"],
      bad=["result[1] >= 0"], raises={'ZeroDivisionError': ["b == 0"]}),
    C('last_loop_value', lambda cx: dict(xs=cx.val('xs', IS)),
      good=["result == (xs[len(xs) - 1] if len(xs) > 0 else -1)"], bad=["result == -1", "len(xs) <= 1"],
      loops={'L1': LoopSpec(inv=["True"])}),
    C('first_negative', lambda cx: dict(xs=cx.val('xs', IS)),
      good=["implies(result >= 0, xs[result] < 0 and forall(lambda j: implies(0 <= j and j < result, xs[j] >= 0)))",
            "implies(result < 0, result == -1 and forall(lambda j: implies(0 <= j and j < len(xs), xs[j] >= 0)))"],
      bad=["result >= 0", "result == -1"],
      loops={'L1': LoopSpec(inv=["forall(lambda j: implies(0 <= j and j < _i, xs[j] >= 0))"])}),
    C('count_up', lambda cx: dict(n=cx.val('n', TInt)),
      good=["implies(n >= 0, 2 * result == n * (n - 1))", "implies(n < 0, result == 0)"], bad=["result == n"],
      loops={'L1': LoopSpec(inv=["0 <= i", "implies(n >= 0, i <= n)", "implies(n < 0, i == 0)", "2 * total == i * (i - 1)"], decreases="n - i")}),
    C('tally', lambda cx: dict(keys=cx.val('keys', TSeq(TStr))),
      good=["forall(lambda j: implies(0 <= j and j < len(keys), keys[j] in result and result[keys[j]] >= 1))"],
      bad=["forall(lambda j: implies(0 <= j and j < len(keys), result[keys[j]] == 1))"],
      loops={'L1': LoopSpec(inv=["forall(lambda j: implies(0 <= j and j < _i, keys[j] in d and d[keys[j]] >= 1))",
                                 "forall(lambda k: implies(k in d, d[k] >= 1), TStr)"], modifies=['d'])},
      locals=dict(d=TMap(TStr, TInt))),
    C('pop_middle', lambda cx: dict(xs=cx.val('xs', IS), i=cx.val('i', TInt)),
      good=["len(result[1]) == len(xs) - 1", "implies(i >= 0, result[0] == xs[i])", "implies(i < 0, result[0] == xs[len(xs) + i])",
            "forall(lambda j: implies(0 <= j and j < (i if i >= 0 else len(xs) + i), result[1][j] == xs[j]))"],
      bad=["result[0] == xs[0]", "len(result[1]) == len(xs)"], raises={'IndexError': ["i >= len(xs) or i < -len(xs)"]}),
    C('neg_slice', lambda cx: dict(xs=cx.val('xs', IS), k=cx.val('k', TInt)), requires=["0 < k and k <= len(xs)"],
      good=["len(result[0]) == k and len(result[1]) == len(xs) - k", "forall(lambda j: implies(0 <= j and j < k, result[0][j] == xs[len(xs) - k + j]))"],
      bad=["len(result[0]) == len(result[1])"]),
    C('safe_get', lambda cx: dict(d=cx.val('d', TMap(TStr, TInt)), k=cx.val('k', TStr)),
      good=["(result is None) == (not (k in d))", "implies(k in d, result == d[k])"], bad=["result is None", "result is not None"]),
    C('opt_arith', lambda cx: dict(x=cx.val('x', TOpt(TInt))),
      good=["result == (0 if x is None else x + 1)"], bad=["result > 0"]),
    C('suffix_digits', lambda cx: dict(s=cx.val('s', TCStr)),
      good=["0 <= result and result <= len(s)", "forall(lambda p: implies(len(s) - result <= p and p < len(s), s[p].isdigit()))",
            "result == len(s) or not s[len(s) - result - 1].isdigit()"],
      bad=["result == len(s)", "result == 0"],
      loops={'L1': LoopSpec(inv=["n == _i", "forall(lambda p: implies(len(s) - _i <= p and p < len(s), s[p].isdigit()))"])}),
    C('zipped_sum', lambda cx: dict(xs=cx.val('xs', IS), ys=cx.val('ys', IS)),
      good=["len(result) == (len(xs) if len(xs) < len(ys) else len(ys))", "forall(lambda j: implies(0 <= j and j < len(result), result[j] == xs[j] + ys[j]))"],
      bad=["len(result) == len(xs)"],
      loops={'L1': LoopSpec(inv=["len(out) == _i", "forall(lambda j: implies(0 <= j and j < _i, out[j] == xs[j] + ys[j]))"], modifies=['out'])},
      locals=dict(out=IS)),
    C('clamp', lambda cx: dict(x=cx.val('x', TInt), lo=cx.val('lo', TInt), hi=cx.val('hi', TInt)), requires=["lo <= hi"],
      good=["lo <= result and result <= hi", "implies(lo <= x and x <= hi, result == x)"], bad=["result == x"]),
    C('tuple_order', lambda cx: dict(a=cx.val('a', TInt), b=cx.val('b', TInt)),
      good=["result == (a < b)"], bad=["result == (a <= b)"]),
    C('aug_alias', lambda cx: dict(xs=cx.box('xs', IS)),
      good=["result == len(old(xs)) + 1", "len(xs) == len(old(xs)) + 1"], bad=["result == len(old(xs))"]),
    C('raise_in_loop', lambda cx: dict(xs=cx.val('xs', IS)),
      good=["forall(lambda j: implies(0 <= j and j < len(xs), xs[j] != 0))", "result == True"], bad=["len(xs) == 0"],
      raises={'ValueError': ["exists(lambda j: 0 <= j and j < len(xs) and xs[j] == 0)"]},
      loops={'L1': LoopSpec(inv=["forall(lambda j: implies(0 <= j and j < _i, xs[j] != 0))"])}),
    C('first_then_rest', lambda cx: dict(xs=cx.val('xs', IS)),
      good=["result[1] == forall(lambda k: implies(0 <= k and k < len(xs), xs[k] == xs[0]))",
            "implies(len(xs) > 0, result[0] == xs[0])"],
      bad=["result[1] == True", "result[1] == forall(lambda k: implies(1 <= k and k < len(xs), xs[k] == xs[1]))"]),
    C('skipped_loop', lambda cx: dict(xs=cx.val('xs', IS), flag=cx.val('flag', TBool)),
      good=["result[0] == (len(xs) if flag else 0)", "0 <= result[1] and result[1] <= len(xs)"],
      bad=["result[0] == len(xs)", "result[1] == len(xs)"],
      loops={'L1': LoopSpec(inv=["total == _i"]), 'L2': LoopSpec(inv=["0 <= count and count <= _i"])}),
    C('inverse_map', lambda cx: dict(pairs=cx.val('pairs', TSeq(TTuple(TInt, TStr)))),
      requires=["forall(lambda i, j: implies(0 <= i and i < j and j < len(pairs), pairs[i][1] != pairs[j][1]))"],
      good=["forall(lambda i: implies(0 <= i and i < len(pairs), pairs[i][1] in result and result[pairs[i][1]] == pairs[i][0]))"],
      bad=["forall(lambda i: implies(0 <= i and i < len(pairs), result[pairs[i][1]] == 0))", "len(result) == 0"]),
    C('positives', lambda cx: dict(xs=cx.val('xs', IS)),
      good=["forall(lambda i: implies(0 <= i and i < len(xs) and xs[i] > 0, xs[i] in result))", "forall(lambda v: implies(v in result, v > 0))"],
      bad=["forall(lambda i: implies(0 <= i and i < len(xs), xs[i] in result))"]),
    C('keys_minus', lambda cx: dict(d=cx.val('d', TMap(TInt, TInt)), s=cx.val('s', TSet(TInt))),
      good=["forall(lambda k: (k in result) == (k in d and not (k in s)))"], bad=["forall(lambda k: (k in result) == (k in d))"]),
    C('count_seps', lambda cx: dict(tokens=cx.val('tokens', TSeq(TStr))),
      good=["result <= 1", "(result == 0) == forall(lambda i: implies(0 <= i and i < len(tokens), tokens[i] != '--'))"],
      bad=["result == 0", "result == 1"],
      raises={'ValueError': ["exists(lambda i, j: 0 <= i and i < j and j < len(tokens) and tokens[i] == '--' and tokens[j] == '--')"]}),
    C('mod_pos', lambda cx: dict(a=cx.val('a', TInt), b=cx.val('b', TInt)),
      good=["implies(b > 0, result == a)"], bad=["result == a", "implies(b > 0, result == 0)"]),
    C('for_else_search', lambda cx: dict(xs=cx.val('xs', IS), t=cx.val('t', TInt)),
      good=["(result == 1) == exists(lambda i: 0 <= i and i < len(xs) and xs[i] == t)"], bad=["result == 1", "result == -1"],
      loops={'L1': LoopSpec(inv=["forall(lambda i: implies(0 <= i and i < _i, xs[i] != t))"]), 'L2': LoopSpec(inv=["found == 0"])}),
    C('empty_set_truth', lambda cx: dict(xs=cx.val('xs', IS)),
      good=["(result == 0) == (len(xs) == 0)"], bad=["result == 1", "result == 0"]),
    C('lookup_all', lambda cx: dict(d=cx.val('d', TMap(TInt, TInt)), xs=cx.val('xs', IS)),
      good=["len(result) == len(xs)", "forall(lambda j: implies(0 <= j and j < len(xs), result[j] == d[xs[j]]))"], bad=["len(result) == 0"],
      raises={'KeyError': ["exists(lambda j: 0 <= j and j < len(xs) and not (xs[j] in d))"]}),
    C('positive_items', lambda cx: dict(d=cx.val('d', TMap(TInt, TInt))),
      good=["forall(lambda k: (k in result) == (k in d and d[k] > 0))", "forall(lambda k: implies(k in result, result[k] == d[k] + 1))"],
      bad=["forall(lambda k: (k in result) == (k in d))", "forall(lambda k: implies(k in result, result[k] == d[k]))"]),
    C('union_all', lambda cx: dict(xs=cx.val('xs', TSeq(TSet(TInt)))),
      good=["forall(lambda v: (v in result) == exists(lambda i: 0 <= i and i < len(xs) and v in xs[i]))"],
      bad=["forall(lambda v: (v in result) == (len(xs) > 0 and v in xs[0]))", "forall(lambda v: not (v in result))"]),
    # a list changed while it is iterated: Python skips the element after a removed one ([2, 2, 3] -> [2, 3]), so "no even number
    # is left" is false although it holds when the loop runs over a snapshot
    C('drop_evens_live', lambda cx: dict(xs=cx.box('xs', IS)),
      good=["len(result) <= len(old(xs))"], bad=["forall(lambda j: implies(0 <= j and j < len(result), result[j] % 2 == 1))"],
      loops={'L1': LoopSpec(inv=["len(xs) <= len(old(xs))", "0 <= _i"], modifies=['xs'], live=True, decreases="len(xs) - _i")}),
    # range with a literal step: ceil((n - lo) / 3) values
    C('every_third', lambda cx: dict(lo=cx.val('lo', TInt), n=cx.val('n', TInt)),
      good=["len(result) == ((n - lo + 2) // 3 if n > lo else 0)", "forall(lambda j: implies(0 <= j and j < len(result), result[j] == lo + 3 * j and result[j] < n))"],
      bad=["len(result) == ((n - lo) // 3 if n > lo else 0)", "forall(lambda j: implies(0 <= j and j < len(result), result[j] == lo + j))"],
      loops={'L1': LoopSpec(inv=["len(out) == _i", "forall(lambda j: implies(0 <= j and j < _i, out[j] == lo + 3 * j and out[j] < n))"], modifies=['out'])},
      locals=dict(out=IS)),
]
# exceptions that must be seen: (case, exception) - without the raises clause the safety obligation has to fail
MUST_RAISE = [('lookup_all', 'KeyError'), ('pop_middle', 'IndexError')]


def contract_of(case, ensures):
    return FunctionContract(SRC, case['name'], 'SELFTEST', setup=case['setup'], ensures=ensures, raises=case['raises'],
                            loops=case['loops'], locals=case['locals'], requires=case['requires'])


# ------------------------------------------------------------------ differential test against CPython
def concrete_run(name, args):
    """run the real AST of src.py:name in the interpreter on concrete python arguments; returns ('ok', value) or ('exc', name)"""
    eng = Engine(timeout_ms=2000)
    tree = ast.parse(open(SRC).read())
    menv = LazyModuleEnv(eng, tree, SRC)
    node = find_function(tree, name)
    eng.new_path()
    eng.loop_ctr, eng.loop_specs = [0], {}
    eng.local_types = {}
    eng.inline_specs = {}
    env = Env(menv, dict(args))
    try:
        try:
            eng.exec_block(strip_docstring(node), env)
            res = None
        except _Return as r:
            res = r.value
        eng.solver.check()
        m = eng.solver.model()
        return 'ok', B.concretize(eng, res, m, cap=50)
    except PyExc as ex:
        return 'exc', ex.name


def to_engine(v):
    from pyvc.builtins import new_list, new_dict
    return v


def norm(v):
    if isinstance(v, (list, tuple)):
        return [norm(x) for x in v]
    if isinstance(v, dict):
        if '__map__' in v:
            return {'map': sorted([norm(k), norm(x)] for k, x in v['__map__'])}
        return {'map': sorted([norm(k), norm(x)] for k, x in v.items())}
    return v


def differential(rng, n):
    import importlib.util
    spec = importlib.util.spec_from_file_location('selftest_src', SRC)
    mod = importlib.util.module_from_spec(spec)
    spec.loader.exec_module(mod)
    gens = {
        'floordiv_mod': lambda: dict(a=rng.randint(-20, 20), b=rng.randint(-5, 5)),
        'clamp': lambda: dict(x=rng.randint(-9, 9), lo=rng.randint(-5, 0), hi=rng.randint(0, 5)),
        'tuple_order': lambda: dict(a=rng.randint(-2, 2), b=rng.randint(-2, 2)),
        'opt_arith': lambda: dict(x=rng.choice([None, rng.randint(-5, 5)])),
        'last_loop_value': lambda: dict(xs=tuple(rng.randint(-3, 3) for _ in range(rng.randint(0, 4)))),
        'first_negative': lambda: dict(xs=tuple(rng.randint(-1, 3) for _ in range(rng.randint(0, 5)))),
        'count_up': lambda: dict(n=rng.randint(-2, 8)),
        'raise_in_loop': lambda: dict(xs=tuple(rng.randint(0, 3) for _ in range(rng.randint(0, 4)))),
        'insertion_order': lambda: dict(pairs=tuple((rng.choice('abc'), rng.randint(0, 3)) for _ in range(rng.randint(0, 5)))),
        'zipped_sum': lambda: dict(xs=tuple(rng.randint(0, 5) for _ in range(rng.randint(0, 4))), ys=tuple(rng.randint(0, 5) for _ in range(rng.randint(0, 4)))),
        'evens': lambda: dict(xs=tuple(rng.randint(-4, 6) for _ in range(rng.randint(0, 6)))),
        'split_once': lambda: dict(s=''.join(rng.choice('ab-') for _ in range(rng.randint(0, 5)))),
        'tally': lambda: dict(keys=tuple(rng.choice('abc') for _ in range(rng.randint(0, 6)))),
        'nested_default': lambda: dict(pairs=tuple((rng.randint(0, 2), rng.randint(0, 2)) for _ in range(rng.randint(0, 5)))),
        'pop_middle': lambda: dict(xs=tuple(rng.randint(0, 9) for _ in range(rng.randint(0, 4))), i=rng.randint(-5, 5)),
        'remove_first': lambda: dict(xs=tuple(rng.randint(0, 3) for _ in range(rng.randint(0, 5))), x=rng.randint(0, 3)),
        'neg_slice': lambda: dict(xs=tuple(rng.randint(0, 9) for _ in range(rng.randint(0, 5))), k=rng.randint(1, 5)),
        'first_then_rest': lambda: dict(xs=tuple(rng.randint(0, 1) for _ in range(rng.randint(0, 4)))),
        'skipped_loop': lambda: dict(xs=tuple(rng.randint(-2, 2) for _ in range(rng.randint(0, 4))), flag=rng.choice([True, False])),
        'mod_pos': lambda: dict(a=rng.randint(-20, 20), b=rng.randint(-2, 6)),
        'every_third': lambda: dict(lo=rng.randint(-3, 8), n=rng.randint(-3, 14)),
        'for_else_search': lambda: dict(xs=tuple(rng.randint(0, 3) for _ in range(rng.randint(0, 4))), t=rng.randint(0, 3)),
    }
    bad = []
    runs = 0
    for name, gen in gens.items():
        for _ in range(n):
            args = gen()
            try:
                want = ('ok', norm(getattr(mod, name)(**{k: (list(v) if isinstance(v, tuple) and name not in ('tuple_order',) else v)
                                                        for k, v in args.items()})))
                if isinstance(want[1], dict) and 'map' not in want[1]:
                    want = ('ok', norm(dict(want[1])))
            except Exception as ex:
                want = ('exc', type(ex).__name__)
            try:
                got = concrete_run(name, args)
                got = (got[0], norm(got[1])) if got[0] == 'ok' else got
            except Exception as ex:
                got = ('engine-error', '%s: %s' % (type(ex).__name__, ex))
            runs += 1
            if got[0] == 'engine-error':
                bad.append((name, args, want, got))
            elif got != want:
                bad.append((name, args, want, got))
    return runs, bad


def main():
    t0 = time.time()
    failures = []
    n_ob = 0
    for case in CASES:
        r = verify(contract_of(case, case['good']), [], timeout_ms=8000)
        n_ob += len(r.obligations)
        if not r.ok:
            failures.append('%s: a true contract was not proved: %s %s' % (case['name'], [o['name'] for o in r.obligations if o['status'] != 'unsat'], r.error))
        for k, b in enumerate(case['bad']):
            r = verify(contract_of(case, [b]), [], timeout_ms=800)
            if r.error or all(o['status'] == 'unsat' for o in r.obligations if o['name'].startswith('post')):
                failures.append('%s: the false postcondition %r was %s' % (case['name'], b, 'proved (UNSOUND)' if not r.error else 'not decided: ' + r.error))
    for cname, exc in MUST_RAISE:
        case = dict([c for c in CASES if c['name'] == cname][0])
        case['raises'] = {}
        r = verify(contract_of(case, case['good']), [], timeout_ms=800)
        if r.error or not any(o['name'].startswith('safety:no-' + exc) and o['status'] != 'unsat' for o in r.obligations):
            failures.append('%s: a possible %s was not seen (UNSOUND): %s' % (cname, exc, r.error))
    # a loop that mutates a container its specification does not list in `modifies` must fail the frame obligation
    case = dict([c for c in CASES if c['name'] == 'tally'][0])
    case['loops'] = {'L1': LoopSpec(inv=["True"], modifies=[])}
    r = verify(contract_of(case, ["True"]), [], timeout_ms=800)
    if r.error or not any(o['name'].startswith('frame:L1:d') and o['status'] != 'unsat' for o in r.obligations):
        failures.append('tally: a container mutated outside `modifies` was not reported (UNSOUND): %s %s'
                        % (r.error, [o['name'] for o in r.obligations]))
    # ... and without live=True such a loop is out of reach (never verified against a snapshot)
    case = dict([c for c in CASES if c['name'] == 'drop_evens_live'][0])
    case['loops'] = {'L1': LoopSpec(inv=["len(xs) <= len(old(xs))"], modifies=['xs'])}
    r = verify(contract_of(case, case['good']), [], timeout_ms=800)
    if not (r.error and 'live=True' in r.error):
        failures.append('drop_evens_live: a loop that changes the list it iterates was verified against a snapshot (UNSOUND): %s' % r.error)
    # ... and a wrong termination measure of such a loop is refused (the list alone does not shrink when nothing is removed)
    case['loops'] = {'L1': LoopSpec(inv=["len(xs) <= len(old(xs))", "0 <= _i"], modifies=['xs'], live=True, decreases="len(xs)")}
    r = verify(contract_of(case, case['good']), [], timeout_ms=800)
    if not any(o['name'] == 'decreases:L1' and o['status'] != 'unsat' for o in r.obligations):
        failures.append('drop_evens_live: a wrong termination measure of a live loop was accepted (UNSOUND)')
    # block contracts: the statements of a block are replaced by its contract in the enclosing proof
    from pyvc.interp import BlockSpec
    ints = lambda *names: (lambda cx: {n: cx.val(n, TInt) for n in names})
    blk_c = FunctionContract(SRC, 'clamp_then_double', 'SELFTEST', short='clamp[block]', setup=ints('x', 'lo', 'hi'),
                             region=dict(start="if x < lo:", end="z = y * 2"), locals=dict(y=TInt),
                             requires=["lo <= hi"], ensures=["lo <= y and y <= hi", "implies(lo <= x and x <= hi, y == x)"])
    blk = BlockSpec.of(blk_c)
    outer = lambda req, ens: FunctionContract(SRC, 'clamp_then_double', 'SELFTEST', setup=ints('x', 'lo', 'hi'), requires=req, ensures=ens, blocks=[blk])
    r0 = verify(blk_c, [blk_c], timeout_ms=8000)
    r1 = verify(outer(["lo <= hi"], ["2 * lo <= result and result <= 2 * hi", "implies(lo <= x and x <= hi, result == 2 * x)"]), [blk_c], timeout_ms=8000)
    n_ob += len(r0.obligations) + len(r1.obligations)
    if not (r0.ok and r1.ok and any(o['name'].startswith('block-pre:') for o in r1.obligations)):
        failures.append('block contract: a true composition was not proved: %s %s' % (r0.error or [o['name'] for o in r0.obligations if o['status'] != 'unsat'],
                                                                                     r1.error or [o['name'] for o in r1.obligations if o['status'] != 'unsat']))
    r2 = verify(outer([], ["2 * lo <= result"]), [blk_c], timeout_ms=2000)         # the block's precondition does not hold at its place
    if not any(o['name'].startswith('block-pre:') and o['status'] != 'unsat' for o in r2.obligations):
        failures.append('block contract: an unestablished block precondition was accepted (UNSOUND)')
    r3 = verify(outer(["lo <= hi"], ["implies(x < lo, result == 2 * lo)"]), [blk_c], timeout_ms=2000)    # true of the code, not of the block contract
    if r3.ok:
        failures.append('block contract: the enclosing proof saw more than the block contract states (not modular)')
    r4 = verify(outer(["lo <= hi"], ["2 * lo <= result"]), [], timeout_ms=2000)     # a block nobody proves
    if not (r4.error and 'not proved by' in r4.error):
        failures.append('block contract: a block without its own proof was used: %s' % r4.error)
    div_c = FunctionContract(SRC, 'checked_div', 'SELFTEST', short='div[block]', setup=ints('a', 'b'), region=dict(start="if b == 0:", end="r = q + 1"),
                             locals=dict(q=TInt), ensures=["b != 0 and q == a // b"], raises={'ValueError': ["b == 0"]})
    dblk = BlockSpec.of(div_c)
    d_out = lambda ens, rs: FunctionContract(SRC, 'checked_div', 'SELFTEST', setup=ints('a', 'b'), ensures=ens, raises=rs, blocks=[dblk])
    r5, r6 = verify(div_c, [div_c], timeout_ms=8000), verify(d_out(["result == a // b + 1"], {'ValueError': ["b == 0"]}), [div_c], timeout_ms=8000)
    n_ob += len(r5.obligations) + len(r6.obligations)
    if not (r5.ok and r6.ok):
        failures.append('block contract with an exceptional exit: not proved: %s %s' % (r5.error or r5.failed, r6.error or r6.failed))
    r7 = verify(d_out(["result == a // b + 1"], {}), [div_c], timeout_ms=2000)      # the block may raise: the enclosing contract has to say so
    if r7.ok:
        failures.append('block contract: the exceptional exit of a block was lost (UNSOUND)')
    # a local that a block assigns but its contract does not describe cannot be used afterwards (never its stale value)
    leak_c = FunctionContract(SRC, 'block_leaks_local', 'SELFTEST', short='leak[block]', setup=ints('x'), region=dict(start="t = x + 1", end="return u + t"),
                              locals=dict(u=TInt), ensures=["u == 2 * x + 2"])
    r8 = verify(FunctionContract(SRC, 'block_leaks_local', 'SELFTEST', setup=ints('x'), ensures=["result >= 0 or result < 0"],
                                 blocks=[BlockSpec.of(leak_c)]), [leak_c], timeout_ms=2000)
    if not (r8.error and 'does not describe' in r8.error):
        failures.append('block contract: a local assigned inside a block and not described by it was readable afterwards (UNSOUND): %s' % r8.error)
    # ... and a block that changes a container its contract does not list in `modifies` fails its own frame obligation
    lists = lambda cx: dict(xs=cx.box('xs', IS), ys=cx.box('ys', IS))
    fr_c = FunctionContract(SRC, 'block_touches_more', 'SELFTEST', short='frame[block]', setup=lists, region=dict(start="xs.append(1)", end="return len(xs) + len(ys)"),
                            ensures=["len(xs) == len(old(xs)) + 1"], modifies=['xs'])
    BlockSpec.of(fr_c)
    r9 = verify(fr_c, [fr_c], timeout_ms=2000)
    if not any(o['name'] == 'frame:block:ys' and o['status'] != 'unsat' for o in r9.obligations):
        failures.append('block contract: a change outside the block frame was not reported (UNSOUND): %s %s' % (r9.error, [o['name'] for o in r9.obligations]))
    fr_ok = FunctionContract(SRC, 'block_touches_more', 'SELFTEST', short='frame-ok[block]', setup=lists, region=dict(start="xs.append(1)", end="return len(xs) + len(ys)"),
                             ensures=["len(xs) == len(old(xs)) + 1 and len(ys) == len(old(ys)) + 1"], modifies=['xs', 'ys'])
    r10 = verify(FunctionContract(SRC, 'block_touches_more', 'SELFTEST', setup=lists, ensures=["result == len(old(xs)) + len(old(ys)) + 2"],
                                  blocks=[BlockSpec.of(fr_ok)], modifies=['xs', 'ys']), [fr_ok], timeout_ms=8000)
    r11 = verify(fr_ok, [fr_ok], timeout_ms=8000)
    n_ob += len(r10.obligations) + len(r11.obligations)
    if not (r10.ok and r11.ok):
        failures.append('block contract over containers: not proved: %s %s' % (r10.error or r10.failed, r11.error or r11.failed))
    runs, bad = differential(random.Random(int(os.environ.get('VERIF_SEED', '0') or 0)), int(os.environ.get('SELFTEST_N', '25')))
    for name, args, want, got in bad[:10]:
        failures.append('differential %s%r: CPython %r, interpreter %r' % (name, args, want, got))
    print('engine self-test: %d contracts (%d obligations), %d false postconditions, %d differential runs, %d problems, %.1fs'
          % (len(CASES), n_ob, sum(len(c['bad']) for c in CASES), runs, len(failures), time.time() - t0))
    for f in failures:
        print('  SELFTEST-PROBLEM', f)
    return 1 if failures else 0


if __name__ == '__main__':
    sys.exit(main())

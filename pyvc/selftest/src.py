"""small functions exercising the python semantics that the engine models; verified by pyvc AND run natively."""
from collections import defaultdict


def floordiv_mod(a, b):
    return a // b, a % b


def last_loop_value(xs):
    y = -1
    for y in xs:
        pass
    return y


def first_negative(xs):
    for i, x in enumerate(xs):
        if x < 0:
            break
    else:
        i = -1
    return i


def count_up(n):
    i = 0
    total = 0
    while i < n:
        total += i
        i += 1
    return total


def tally(keys):
    d = defaultdict(int)
    for k in keys:
        d[k] += 1
    return d


def insertion_order(pairs):
    d = {}
    for k, v in pairs:
        d[k] = v
    return list(d)


def pop_middle(xs, i):
    ys = list(xs)
    v = ys.pop(i)
    return v, ys


def remove_first(xs, x):
    ys = list(xs)
    ys.remove(x)
    return ys


def neg_slice(xs, k):
    return xs[-k:], xs[:-k]


def safe_get(d, k):
    try:
        return d[k]
    except KeyError:
        return None


def opt_arith(x):
    if x is None:
        return 0
    return x + 1


def split_once(s):
    head, *rest = s.split('-', 1)
    return head, rest


def suffix_digits(s):
    n = 0
    for ch in reversed(s):
        if not ch.isdigit():
            break
        n += 1
    return n


def zipped_sum(xs, ys):
    out = []
    for a, b in zip(xs, ys):
        out.append(a + b)
    return out


def evens(xs):
    return [x for x in xs if x % 2 == 0]


def nested_default(pairs):
    d = defaultdict(dict)
    for a, b in pairs:
        d[a][b] = a + b
    return d


def clamp(x, lo, hi):
    return max(lo, min(x, hi))


def tuple_order(a, b):
    return (a, 1) < (b, 0)


def aug_alias(xs):
    ys = xs
    ys += [1]
    return len(xs)


def raise_in_loop(xs):
    for x in xs:
        if x == 0:
            raise ValueError('zero')
    return True


def first_then_rest(xs):
    it = iter(xs)
    first = next(it, None)
    return first, all(x == first for x in it)


def skipped_loop(xs, flag):
    total = 0
    if flag:
        for x in xs:
            total += 1
    count = 0
    for x in xs:
        if x > 0:
            count += 1
    return total, count


def inverse_map(pairs):
    return {v: k for k, v in pairs}


def positives(xs):
    return {x for x in xs if x > 0}


def keys_minus(d, s):
    return d.keys() - s


def count_seps(tokens):
    n = tokens.count('--')
    if n > 1:
        raise ValueError('too many')
    return n


def mod_pos(a, b):
    if b <= 0:
        return -1
    return (a % b) + (a // b) * b


def for_else_search(xs, t):
    for x in xs:
        if x == t:
            break
    else:
        found = 0
        for x in xs:
            found += 0
        return -1
    return 1


def empty_set_truth(xs):
    s = set(xs)
    if not s:
        return 0
    return 1


def lookup_all(d, xs):
    return [d[x] for x in xs]


def positive_items(d):
    return {k: v + 1 for k, v in d.items() if v > 0}


def union_all(xs):
    return set().union(*(x for x in xs))


def drop_evens_live(xs):
    for x in xs:
        if x % 2 == 0:
            xs.remove(x)
    return xs


def every_third(lo, n):
    out = []
    for k in range(lo, n, 3):
        out.append(k)
    return out


def clamp_then_double(x, lo, hi):
    if x < lo:
        y = lo
    elif x > hi:
        y = hi
    else:
        y = x
    z = y * 2
    return z


def checked_div(a, b):
    if b == 0:
        raise ValueError('zero')
    q = a // b
    r = q + 1
    return r


def block_leaks_local(x):
    t = x + 1
    u = t * 2
    return u + t


def block_touches_more(xs, ys):
    xs.append(1)
    ys.append(2)
    return len(xs) + len(ys)

"""
pyvc.verify -- contracts on real functions of /repo and the driver that discharges them.

The verified text is read from the repository's working tree on every run (ast.parse of the real
file); the function is located by qualified name.  Nothing from /repo is imported at proof time.
"""
import ast
import hashlib
import os
import time
import traceback
import z3
from .types import *
from .values import *
from .interp import (Engine, Env, Closure, ClassV, ModuleV, Builtin, ExcClass, LoopSpec, PyExc, PathEnd, EngineError,
                     _Return, _Continue, _Break, Ob, assigned_names)
from . import builtins as B

REPO = os.environ.get('VERIF_REPO', '/repo')


class FunctionContract:
    def __init__(self, file, qualname, prop, setup=None, requires=(), ensures=(), raises=None, loops=None,
                 modifies=(), result_ty=None, spec_env=None, locals=None, axioms=None, note='', short=None,
                 inline_loops=None, canary=None, params=None, allow_exc=(), region=None, spec_defs=None, spec_recs=(), ghost_at=None, lemmas=(), modular=True, methods=None, attr_hooks=None, filters=None, attr_types=None, blocks=()):
        self.file, self.qualname, self.prop = file, qualname, prop
        self.blocks = list(blocks)      # block contracts (BlockSpec) that stand for their statements in this proof
        self.setup = setup
        self.requires, self.ensures = list(requires), list(ensures)
        self.raises = {k: ([v] if isinstance(v, str) else list(v)) for k, v in (raises or {}).items()}
        self.loops = loops or {}
        self.modifies = list(modifies)
        self.result_ty = result_ty
        self.spec_env = spec_env or {}
        self.locals = locals or {}
        self.axioms = axioms
        self.note = note
        self.short = short or qualname.split('.')[-1]
        self.inline_loops = inline_loops or {}
        self.canary = canary or []
        self.allow_exc = set(allow_exc)
        self.region = region
        self.spec_defs = spec_defs or {}
        self.spec_recs = list(spec_recs)
        self.ghost_at = ghost_at or {}
        self.lemmas = list(lemmas)
        self.methods = methods or {}
        self.attr_hooks = attr_hooks or {}
        self.filters = filters or {}
        self.modular = modular     # False: callers inline the body instead of using this contract
        self.attr_types = attr_types or {}      # 'obj.attr' -> declared (Optional) type: postconditions see one value of that type

    @property
    def name(self):
        return '%s::%s' % (self.file, self.qualname)


class LazyModuleEnv(Env):
    """module globals, evaluated on demand from the module AST."""

    def __init__(self, eng, tree, modname):
        Env.__init__(self, None, {})
        self.eng, self.tree, self.modname = eng, tree, modname
        self.defs = {}
        self.busy = set()
        for st in tree.body:
            self._index(st)

    def _index(self, st):
        if isinstance(st, (ast.FunctionDef, ast.ClassDef)):
            self.defs[st.name] = st
        elif isinstance(st, ast.Assign):
            for t in st.targets:
                for n in ast.walk(t):
                    if isinstance(n, ast.Name):
                        self.defs[n.id] = st
        elif isinstance(st, ast.AnnAssign) and isinstance(st.target, ast.Name) and st.value is not None:
            self.defs[st.target.id] = st
        elif isinstance(st, (ast.Import, ast.ImportFrom)):
            for a in st.names:
                self.defs[(a.asname or a.name).split('.')[0]] = st
        elif isinstance(st, (ast.If, ast.Try)):
            for s in st.body:
                self._index(s)

    def lazy_has(self, name):
        if name in getattr(self, 'overrides', {}):
            return True
        return name in self.defs and name not in self.busy

    def lazy_get(self, name):
        # the contract's assumed externals replace the module-level names also inside inlined callees
        if name in getattr(self, 'overrides', {}):
            return self.overrides[name]
        if name in self.vars:
            return self.vars[name]
        if name in self.defs and name not in self.busy:
            self.busy.add(name)
            try:
                st = self.defs[name]
                if isinstance(st, ast.ClassDef):
                    self.vars[name] = make_class(self.eng, st, self)
                else:
                    self.eng.spec += 0
                    self.eng.exec(st, self)
            finally:
                self.busy.discard(name)
            if name in self.vars:
                return self.vars[name]
        raise KeyError(name)


def make_class(eng, node, env):
    methods, attrs = {}, {}
    for st in node.body:
        if isinstance(st, ast.FunctionDef):
            def _default(d):
                # a default value the engine cannot evaluate (an external name without assumed contract) is a placeholder: using it
                # is out of reach, not having it is not
                try:
                    return eng.eval(d, env)
                except EngineError:
                    return Obj('unevaluated-default')
            clo = Closure(st, env, node.name + '.' + st.name,
                          defaults=[_default(d) for d in st.args.defaults],
                          kwdefaults={a.arg: _default(d) for a, d in zip(st.args.kwonlyargs, st.args.kw_defaults)
                                      if d is not None})
            for d in st.decorator_list:
                if isinstance(d, ast.Name) and d.id == 'property':
                    clo.is_property = True
                if isinstance(d, ast.Name) and d.id == 'staticmethod':
                    clo.is_static = True
            methods[st.name] = clo
        elif isinstance(st, ast.Assign) and len(st.targets) == 1 and isinstance(st.targets[0], ast.Name):
            try:
                attrs[st.targets[0].id] = eng.eval(st.value, env)
            except EngineError:
                pass
    bases = []
    for b in node.bases:
        try:
            bases.append(eng.eval(b, env))
        except EngineError:
            bases.append(None)
    return ClassV(node.name, methods, attrs, tuple(bases))


_SRC_CACHE = {}


def load_source(file):
    path = os.path.join(REPO, file)
    with open(path, 'rb') as f:
        raw = f.read()
    return raw.decode('utf8'), path


def find_function(tree, qualname):
    parts = qualname.split('.')
    body = tree.body
    node = None
    for p in parts:
        node = None
        for st in body:
            if isinstance(st, (ast.FunctionDef, ast.ClassDef)) and st.name == p:
                node = st
                break
            if isinstance(st, (ast.If, ast.Try)):
                for s2 in st.body:
                    if isinstance(s2, (ast.FunctionDef, ast.ClassDef)) and s2.name == p:
                        node = s2
        if node is None:
            return None
        body = node.body
    return node


def _norm(src):
    return ' '.join(src.split())


def _module_defines(menv, name):
    """is `name` a module-level name of the file under verification (a def, class, import or assignment)?"""
    tree = getattr(menv, 'tree', None)
    if tree is None:
        return False
    for st in tree.body:
        if isinstance(st, (ast.FunctionDef, ast.ClassDef)) and st.name == name:
            return True
        if isinstance(st, (ast.Import, ast.ImportFrom)) and any((a.asname or a.name.split('.')[0]) == name for a in st.names):
            return True
        if isinstance(st, ast.Assign) and any(isinstance(t, ast.Name) and t.id == name for t in st.targets):
            return True
    return False


def _normalise_attrs(contract, env):
    """attributes the contract declares an Optional type for: None / a bare value become one value of that type"""
    for path, ty in contract.attr_types.items():
        base, attr = path.split('.')
        try:
            o = env.lookup(base)
        except KeyError:
            continue
        if not isinstance(o, Obj) or attr not in o.attrs or not isinstance(ty, TOpt):
            continue
        v = o.attrs[attr]
        if v is None:
            o.attrs[attr] = SV(ty, ty.none())
        elif not (isinstance(v, SV) and isinstance(v.ty, TOpt)):
            o.attrs[attr] = SV(ty, ty.some(to_z3(v, ty.t)))


def select_region(body, region):
    """contiguous top-level statements of the function body, located by the source text of the first statement
    (and optionally of the first statement after the region) -- never by line number."""
    start, end = region.get('start'), region.get('end')
    # within: header texts of the enclosing compound statements, outermost first; the region is then taken from the body of
    # the innermost one (the first statement, in source order, whose text starts with the anchor)
    for w in region.get('within', ()):
        hit = None
        todo = list(body)
        use_else = w.startswith('else of ')        # 'else of <header>': the else branch of that compound statement
        if use_else:
            w = w[len('else of '):]
        while todo and hit is None:
            st = todo.pop(0)
            if _norm(ast.unparse(st)).startswith(_norm(w)) and hasattr(st, 'body'):
                hit = st
                break
            sub = []
            for fld in ('body', 'orelse', 'finalbody'):
                sub.extend(getattr(st, fld, []) or [])
            for h in getattr(st, 'handlers', []) or []:
                sub.extend(h.body)
            todo = sub + todo
        if hit is None:
            raise EngineError('region anchor not found: %r' % w)
        body = hit.orelse if use_else else hit.body
    i0 = None
    nth = region.get('nth', 1)            # the nth top-level statement that starts with the anchor text
    for i, st in enumerate(body):
        if _norm(ast.unparse(st)).startswith(_norm(start)):
            nth -= 1
            if nth == 0:
                i0 = i
                break
    if i0 is None:
        raise EngineError('region anchor not found: %r' % start)
    i1 = len(body)
    if end:
        end_nth = region.get('end_nth', 1)     # the region ends before the n-th later statement that starts with the end anchor
        for j in range(i0 + 1, len(body)):
            if _norm(ast.unparse(body[j])).startswith(_norm(end)):
                end_nth -= 1
                if end_nth == 0:
                    i1 = j
                    break
        else:
            raise EngineError('region end anchor not found: %r' % end)
    return body[i0:i1]


def strip_docstring(fn):
    body = fn.body
    if body and isinstance(body[0], ast.Expr) and isinstance(body[0].value, ast.Constant) and \
            isinstance(body[0].value.value, str):
        return body[1:]
    return body


def is_generator(fn):
    for n in ast.walk(fn):
        if isinstance(n, (ast.Yield, ast.YieldFrom)):
            return True
    return False


class Result:
    def __init__(self, contract):
        self.contract = contract
        self.obligations = []     # aggregated: dict(name, status, instances, ms, line, model)
        self.instances = 0
        self.paths = 0
        self.reached_post = 0
        self.error = None         # engine error string => out of reach / undecided
        self.wall_s = 0.0
        self.solver_ms = 0.0
        self.src_sha = None
        self.lines = None
        self.pre_sat = None
        self.assumptions = []

    @property
    def ok(self):
        return self.error is None and self.obligations and all(o['status'] == 'unsat' for o in self.obligations)

    @property
    def failed(self):
        return [o for o in self.obligations if o['status'] == 'sat']

    @property
    def undecided(self):
        return [o for o in self.obligations if o['status'] == 'unknown']

    def as_dict(self):
        return dict(function=self.contract.name, property=self.contract.prop, src_sha256=self.src_sha,
                    lines=self.lines, paths=self.paths, paths_reaching_post=self.reached_post,
                    obligations=len(self.obligations), discharged=sum(o['status'] == 'unsat' for o in self.obligations),
                    failed=[o['name'] for o in self.failed], undecided=[o['name'] for o in self.undecided],
                    query_instances=self.instances, wall_s=round(self.wall_s, 2), solver_ms=round(self.solver_ms, 1),
                    pre_sat=self.pre_sat, error=self.error,
                    # what is assumed at the entry of this function / region and not checked here (a caller under contract
                    # is checked against it; otherwise it is an assumption of the claim), and what the contract promises
                    contract=dict(case=getattr(self.contract, 'short', None),
                                  region=getattr(self.contract, 'region', None),
                                  assumed_preconditions=list(getattr(self.contract, 'requires', []) or []),
                                  has_world_axioms=bool(getattr(self.contract, 'axioms', None)),
                                  postconditions=len(getattr(self.contract, 'ensures', []) or []),
                                  exceptional_postconditions={k: len(v) for k, v in (getattr(self.contract, 'raises', {}) or {}).items()},
                                  may_raise_without_condition=sorted(getattr(self.contract, 'allow_exc', []) or []),
                                  loop_invariants={k: len(v.inv) for k, v in (getattr(self.contract, 'loops', {}) or {}).items()},
                                  callees='through their contracts where one exists (same file), otherwise inlined',
                                  recursive_through_own_contract=bool(getattr(self.contract, 'recursive', False)),
                                  # expressions taken as arbitrary values (their elements are not evaluated) and names of the
                                  # module / builtins the contract replaces by an assumed contract
                                  opaque_expressions=sorted(getattr(self, 'opaque', []) or []),
                                  replaced_names=sorted(getattr(self, 'replaced', []) or []),
                                  # statements replaced by their block contract (each proved separately as the named region contract)
                                  block_contracts={b.name: getattr(b.proved_by, 'short', None) for b in (getattr(self.contract, 'blocks', []) or [])}))


def build_engine(contract, all_contracts, timeout_ms=10000, mutate=None):
    """engine + module env + closure of the function under contract (from the real source)."""
    eng = Engine(timeout_ms=timeout_ms)
    COERCIONS.clear()
    src, path = load_source(contract.file)
    if mutate is not None:
        old, new = mutate[0], mutate[1]
        if src.count(old) < 1:
            raise EngineError('canary anchor %r not found' % old)
        node0 = find_function(ast.parse(src), contract.qualname)
        seg = ast.get_source_segment(src, node0)
        if seg is None or old not in seg:
            if src.count(old) != 1:
                raise EngineError('canary anchor %r not inside %s' % (old, contract.qualname))
            src = src.replace(old, new, 1)        # callees are inlined: the mutation may sit in one of them
        else:
            src = src.replace(seg, seg.replace(old, new, 1), 1)
    tree = ast.parse(src)
    menv = LazyModuleEnv(eng, tree, contract.file)
    node = find_function(tree, contract.qualname)
    if node is None:
        raise EngineError('anchor not found: %s in %s' % (contract.qualname, contract.file))
    for c in all_contracts:
        # a recursive function's own calls go through its own contract (partial correctness: termination is not shown)
        if (c is not contract or getattr(contract, 'recursive', False)) and c.file == contract.file and c.modular:
            eng.contracts[c.qualname] = c
    return eng, menv, node, src


def verify(contract, all_contracts=(), timeout_ms=10000, mutate=None, negate_post=None):
    """discharge every obligation of one function contract. returns Result."""
    res = Result(contract)
    t0 = time.time()
    try:
        eng, menv, node, src = build_engine(contract, all_contracts, timeout_ms, mutate)
        seg = ast.get_source_segment(src, node) or ''
        res.src_sha = hashlib.sha256(seg.encode()).hexdigest()
        res.lines = [node.lineno, node.end_lineno]
        eng.local_types = dict(contract.locals)
        eng.methods.update(contract.methods)
        eng.attr_hooks.update(contract.attr_hooks)
        eng.filters = dict(contract.filters)
        eng.inline_specs = dict(contract.inline_loops)
        body = strip_docstring(node)
        eng.block_nodes = {}
        for blk in contract.blocks:
            if blk.proved_by is None or all(blk.proved_by is not c for c in all_contracts):
                raise EngineError('block contract %r is not proved by a region contract of this module' % blk.name)
            bst = select_region(body, blk.region)
            if not bst:
                raise EngineError('block contract %r: empty region' % blk.name)
            eng.block_nodes[id(bst[0])] = (blk, len(bst))
        if contract.region:
            body = select_region(body, contract.region)
        gen = is_generator(node)
        owner = None
        parts = contract.qualname.split('.')
        if len(parts) > 1:
            owner = menv.lookup(parts[0])

        def contract_env(c):
            # a callee's contract is read in the caller's specification world (uninterpreted functions and constants that
            # both setups declare under the same name are the same symbols)
            g = Env(getattr(eng, 'spec_fallback', None) or menv, dict(c.spec_env))
            for sn, ssrc in c.spec_defs.items():
                g.vars[sn] = eng.eval_spec(ssrc, g)
            define_recs(eng, c.spec_recs, g)
            return g
        eng.contract_env = contract_env

        def run():
            eng.loop_ctr, eng.loop_specs = [0], contract.loops
            eng.ghost_at = contract.ghost_at
            eng.stmt_ghosts = any(':stmt:' in k for k in contract.ghost_at)
            eng.lemmas = {l.name: l for l in contract.lemmas}
            eng.cur_fn = contract.qualname
            cx = Cx(eng, menv, owner)
            try:
                args = contract.setup(cx) if contract.setup else {}
            except (EngineError, PathEnd):
                raise
            except Exception as ex:
                # the contract's own extraction of constants / anchors from the source did not find the expected shape
                raise EngineError('contract setup: %s: %s' % (type(ex).__name__, ex))
            eng.inputs = dict(args)
            eng.inputs.update(cx.extra_inputs)
            spec_globals = Env(menv, dict(contract.spec_env))
            spec_globals.vars.update(cx.spec_env)
            eng.assumed_kinds = bool(contract.region)
            res.opaque = list(eng.opaque_exprs)
            res.replaced = [k for k, v in cx.spec_env.items() if isinstance(v, (Builtin, Obj)) and getattr(v, 'name', k) is not None
                            and (_module_defines(menv, k) or k in ('sorted', 'set', 'len', 'sum', 'min', 'max', 'list', 'dict', 'tuple'))]
            if isinstance(menv, LazyModuleEnv):
                menv.overrides = dict(spec_globals.vars)
            for sn, ssrc in contract.spec_defs.items():
                spec_globals.vars[sn] = eng.eval_spec(ssrc, spec_globals)
            define_recs(eng, contract.spec_recs, spec_globals)
            env = Env(spec_globals, dict(args))
            eng.spec_fallback = spec_globals
            eng.param_env = env
            eng.caller_env = env
            eng.ghost_before_call = getattr(contract, 'ghost_before_call', {})
            env.vars['__locals__'] = assigned_names(body)
            from .interp import number_loops
            number_loops(body)
            old_vals = {k: eng.snapshot(v) for k, v in args.items()}
            old_vals.update({k: eng.snapshot(v) for k, v in eng.heap.items()})
            eng.inputs.update(eng.heap)
            old_env = Env(spec_globals, old_vals)
            env.vars['__old_env__'] = old_env
            eng.cur_old_env = old_env
            if contract.axioms:
                for a in contract.axioms(cx, env):
                    eng.assume(a)
            for r in contract.requires:
                eng.assume(eng._b(eng.spec_truth(r, env)))
            if res.pre_sat is None:
                r_, _ = eng.check(timeout=3000)
                res.pre_sat = str(r_)
                if r_ == z3.unsat:
                    raise EngineError('precondition (with type invariants and axioms) is unsatisfiable: vacuous')
            frame0 = None
            if getattr(contract, 'is_block', False):
                # a region used as a block contract elsewhere: containers it does not list in `modifies` (and that are not its own
                # locals) have to come out as they went in, on every exit
                mod_ids = eng.box_ids_of(contract.modifies, env)
                frame0 = {i: (nm, b, b._e, b.ty, repr(sorted(b.cd)) if b.cd is not None else None)
                          for i, (nm, b) in eng.frame_boxes(env).items()
                          if i not in mod_ids and nm.split('.')[0].split('[')[0] not in contract.locals}

            def check_frame():
                for i_, (nm, b, e0, ty0, cd0) in sorted((frame0 or {}).items(), key=lambda kv: kv[1][0]):
                    cd1 = repr(sorted(b.cd)) if b.cd is not None else None
                    if b.ty is ty0 and cd1 == cd0 and (ty0 is None or e0 is b._e or z3.eq(e0, b._e)):
                        continue
                    if ty0 is not None and b.ty == ty0 and cd1 == cd0:
                        eng.oblige(b._e == e0, 'frame:block:%s' % nm)
                    else:
                        eng.oblige(False, 'frame:block:%s' % nm)
            eng.ghost_hook('entry', env)
            if gen:
                env.vars['__yielded__'] = Box(contract.result_ty) if contract.result_ty else Box(None, kind='list')
            try:
                env.vars['region_exit'] = 'end'
                try:
                    eng.exec_block(body, env)
                    result = None
                except _Return as r:
                    result = r.value
                    env.vars['region_exit'] = 'return'
                except (_Continue, _Break) as lc:
                    # a region taken from a loop body may leave through continue / break: postconditions see which
                    if not contract.region:
                        raise EngineError('continue / break outside a loop')
                    result = None
                    env.vars['region_exit'] = 'continue' if isinstance(lc, _Continue) else 'break'
                if gen:
                    result = env.vars['__yielded__']
            except PyExc as ex:
                _normalise_attrs(contract, env)
                check_frame()
                conds = None
                for k, v in contract.raises.items():
                    from .interp import exc_isinstance
                    if exc_isinstance(ex.name, k):
                        conds = v
                        name = k
                if conds is None:
                    if ex.name in contract.allow_exc:
                        return
                    eng.oblige(False, 'safety:no-%s@%d' % (ex.name, ex.line), ex.line)
                    return
                for k, c in enumerate(conds):
                    eng.oblige(eng._b(eng.spec_truth(c, env)), 'raises:%s:%d' % (name, k), ex.line)
                return
            res.reached_post += 1
            _normalise_attrs(contract, env)
            check_frame()
            if contract.result_ty is not None and isinstance(result, Box) and result.ty is None and result.cd is None:
                # an empty literal returned where the contract declares the type (inside an Optional: the payload type)
                rt = contract.result_ty
                result.set_type(rt.t if isinstance(rt, TOpt) else rt)
            if isinstance(contract.result_ty, TOpt) and (result is None or isinstance(result, (SV, Box))) and \
                    not (isinstance(result, SV) and isinstance(result.ty, TOpt)):
                # the contract declares an Optional result: postconditions see one value of that type on every path
                rt = contract.result_ty
                result = SV(rt, rt.none() if result is None else rt.some(to_z3(result, rt.t)))
            # a function that may raise E only under cond: normal return implies not cond is NOT implied;
            # contracts state that separately in ensures when wanted.
            if negate_post is not None:
                k = negate_post
                eng.oblige(eng.Not(eng.spec_truth(contract.ensures[k], Env(env, {'result': result}))),
                           'canary:negated-post:%d' % k)
                return
            penv = Env(env, {'result': result})
            for k, e in enumerate(contract.ensures):
                eng.oblige(eng._b(eng.spec_truth(e, penv)), 'post:%d' % k, node.end_lineno)

        eng.explore(run)
        res.paths = eng.npaths
        res.solver_ms = eng.solver_ms
        _aggregate(eng, res)
    except EngineError as ex:
        res.error = 'out-of-reach: %s' % ex
        if os.environ.get('PYVC_DEBUG'):
            traceback.print_exc()
    except RecursionError as ex:
        res.error = 'out-of-reach: recursion'
    except z3.Z3Exception as ex:
        res.error = 'engine-error: z3: %s' % ex
        if os.environ.get('PYVC_DEBUG'):
            traceback.print_exc()
    except Exception as ex:
        res.error = 'engine-crash: %s: %s\n%s' % (type(ex).__name__, ex, traceback.format_exc()[-1500:])
    res.wall_s = time.time() - t0
    return res


_REC_CACHE = {}


def define_recs(eng, recs, env):
    """recursive spec functions (z3 define-fun-rec); rec = (name, [(param, Ty)...], result Ty, body source)."""
    cache = _REC_CACHE
    for name, params, res_ty, body in recs:
        if name in cache and cache[name][2] != body:
            raise EngineError('recursive spec function %s defined twice with different bodies' % name)
        if name not in cache:
            f = z3.RecFunction(name, *[t.sort() for _, t in params], res_ty.sort())
            cache[name] = [f, False, body]
        f = cache[name][0]
        ptys = [t for _, t in params]

        def call(e, *args, _f=f, _ptys=ptys, _res=res_ty):
            return wrap(_res, _f(*[to_z3(a, t) for a, t in zip(args, _ptys)]))
        env.vars[name] = Builtin(call, name)
    for name, params, res_ty, body in recs:
        if cache[name][1]:
            continue
        cache[name][1] = True
        formals = [z3.Const('%s?%s' % (name, p), t.sort()) for p, t in params]
        sub = Env(env, {p: wrap(t, c) for (p, t), c in zip(params, formals)})
        val = eng.eval_spec(body, sub)
        z3.RecAddDefinition(cache[name][0], formals, to_z3(val, res_ty))


class Lemma:
    """a lemma over spec functions, proved by induction on one Int parameter (or directly), then usable from
    ghost code with use_lemma(name, *args): its requires become obligations, its ensures is assumed."""

    def __init__(self, name, params, requires=(), ensures=(), induction=None, spec_defs=None, spec_recs=(), prop='',
                 file='(lemma)', proof=None, uses=(), ufs=()):
        # ufs: uninterpreted functions the lemma talks about, as (name, [argument types], result type); the same names denote
        # the same symbols in the contracts that use the lemma
        self.ufs = list(ufs)
        # proof: ghost code run after the requires are assumed (use_lemma / prove steps); uses: the lemmas it may use
        self.proof, self.uses = proof, list(uses)
        self.name, self.params, self.requires, self.ensures = name, params, list(requires), list(ensures)
        self.induction, self.spec_defs, self.spec_recs, self.prop = induction, spec_defs or {}, list(spec_recs), prop
        self.file = file
        self.qualname = 'lemma:' + name

    def _env(self, eng, vals):
        g = Env(None, {})
        for name, arg_tys, res_ty in self.ufs:
            f = eng.uf(name, arg_tys, res_ty)

            def call(e, *args, _f=f, _a=arg_tys, _r=res_ty):
                return wrap(_r, _f(*[to_z3(x, t) for x, t in zip(args, _a)]))
            g.vars[name] = Builtin(call, name)
        for sn, ssrc in self.spec_defs.items():
            g.vars[sn] = eng.eval_spec(ssrc, g)
        define_recs(eng, self.spec_recs, g)
        return Env(g, vals)

    def apply(self, eng, args):
        from .builtins import ANY
        if any(a is ANY for a in args):
            # the lemma for all values of the parameters marked ANY: forall(requires ==> ensures)
            bound, vals = [], {}
            for (p, t), a in zip(self.params, args):
                if a is ANY:
                    b = z3.FreshConst(t.sort(), 'any_' + p)
                    bound.append(b)
                    vals[p] = SV(t, b)
                else:
                    vals[p] = a
            env = self._env(eng, vals)
            rq = [eng._b(eng.spec_truth(r, env)) for r in self.requires]
            en = [eng._b(eng.spec_truth(e, env)) for e in self.ensures]
            eng.assume(z3.ForAll(bound, z3.Implies(z3.And(*rq) if rq else z3.BoolVal(True), z3.And(*en))))
            return
        env = self._env(eng, {p: a for (p, _), a in zip(self.params, args)})
        for k, r in enumerate(self.requires):
            eng.oblige(eng._b(eng.spec_truth(r, env)), 'lemma-pre:%s:%d@%d' % (self.name, k, eng.line))
        for e in self.ensures:
            eng.assume(eng._b(eng.spec_truth(e, env)))


def verify_lemma(lem, timeout_ms=10000):
    res = Result(FunctionContract(lem.file, lem.qualname, lem.prop))
    t0 = time.time()
    try:
        eng = Engine(timeout_ms=timeout_ms)

        def run():
            vals = {p: eng.fresh_val(t, p) if not isinstance(t, (TSeq, TMap, TSet)) else eng.fresh_box(t, p)
                    for p, t in lem.params}
            eng.inputs = dict(vals)
            env = lem._env(eng, vals)
            eng.lemmas = {l.name: l for l in lem.uses}
            eng.spec_fallback = env
            if lem.induction is None:
                for r in lem.requires:
                    eng.assume(eng._b(eng.spec_truth(r, env)))
                if lem.proof:
                    eng.exec_src(lem.proof, env)
                for k, e in enumerate(lem.ensures):
                    eng.oblige(eng._b(eng.spec_truth(e, env)), 'lemma:%d' % k)
                return
            which = eng.choose(['base', 'step'])
            iv = vals[lem.induction]
            if which == 'base':
                env.vars[lem.induction] = 0
                for r in lem.requires:
                    eng.assume(eng._b(eng.spec_truth(r, env)))
                for k, e in enumerate(lem.ensures):
                    eng.oblige(eng._b(eng.spec_truth(e, env)), 'lemma-base:%d' % k)
            else:
                # induction hypothesis: requires(i) ==> ensures(i), for an arbitrary i >= 0; goal: the same at i + 1
                eng.assume(iv.e >= 0)
                hyp_r = [eng._b(eng.spec_truth(r, env)) for r in lem.requires]
                hyp_e = [eng._b(eng.spec_truth(e, env)) for e in lem.ensures]
                eng.assume(z3.Implies(z3.And(*hyp_r) if hyp_r else z3.BoolVal(True), z3.And(*hyp_e)))
                env.vars[lem.induction] = SV(TInt, iv.e + 1)
                for r in lem.requires:
                    eng.assume(eng._b(eng.spec_truth(r, env)))
                for k, e in enumerate(lem.ensures):
                    eng.oblige(eng._b(eng.spec_truth(e, env)), 'lemma-step:%d' % k)
        eng.explore(run)
        res.paths = eng.npaths
        res.solver_ms = eng.solver_ms
        _aggregate(eng, res)
        res.pre_sat = 'n/a'
    except EngineError as ex:
        res.error = 'out-of-reach: %s' % ex
    except Exception as ex:
        res.error = 'engine-crash: %s: %s\n%s' % (type(ex).__name__, ex, traceback.format_exc()[-1500:])
    res.wall_s = time.time() - t0
    return res


def _aggregate(eng, res):
    agg = {}
    for (name, pk), ob in eng.obs.items():
        a = agg.setdefault(name, dict(name=name, status='unsat', instances=0, ms=0.0, line=ob.line, model=None,
                                      backend='z3', detail=''))
        a['instances'] += 1
        a['ms'] += ob.ms
        a.setdefault('_backends', set()).add(ob.backend or 'z3')
        if ob.status == 'sat' and a['status'] != 'sat':
            a['status'] = 'sat'
            a['model'] = ob.model
            a['detail'] = ob.detail
            a['path'] = [str(x) for x in pk]
        elif ob.status == 'unknown' and a['status'] == 'unsat':
            a['status'] = 'unknown'
            a['detail'] = ob.detail
    res.obligations = sorted(agg.values(), key=lambda o: o['name'])
    for o in res.obligations:
        o['ms'] = round(o['ms'], 1)
        # by which back end: the solver if any path instance needed it; otherwise the obligation was literally among the assumptions
        # on every path ('syntactic') or a constant ('const')
        bs = o.pop('_backends', {'z3'})
        o['backend'] = 'z3' if ('z3' in bs or o['status'] != 'unsat') else ('syntactic' if 'syntactic' in bs else 'const')
    res.instances = len(eng.obs)


class Cx:
    """what a contract's setup() uses to build symbolic arguments."""

    def __init__(self, eng, menv, owner):
        self.eng, self.menv, self.owner = eng, menv, owner
        self.extra_inputs = {}
        self.spec_env = {}

    def val(self, name, ty):
        return self.eng.fresh_val(ty, name)

    def box(self, name, ty):
        return self.eng.fresh_box(ty, name)

    def obj(self, cls, **attrs):
        o = Obj(cls, **attrs)
        try:
            k = self.menv.lookup(cls)
            if isinstance(k, ClassV):
                o.__dict__['klass'] = k
        except (KeyError, EngineError):
            pass
        return o

    def assume(self, cond):
        self.eng.assume(cond if isinstance(cond, (bool, z3.BoolRef)) else self.eng.truth(cond))

    def uf(self, name, arg_tys, res_ty):
        f = self.eng.uf(name, arg_tys, res_ty)
        eng = self.eng

        def call(e, *args):
            def arg(a, t):
                if isinstance(a, SV) and isinstance(a.ty, TOpt) and a.ty.t == t:
                    return a.ty.get(a.e)          # spec functions are total: the payload of an optional value
                return to_z3(a, t)
            return wrap(res_ty, f(*[arg(a, t) for a, t in zip(args, arg_tys)]))
        b = Builtin(call, name)
        self.spec_env[name] = b
        if isinstance(res_ty, TSeq) and arg_tys and name not in getattr(self, '_wf_ufs', set()):
            # a function that yields a list yields one of non-negative length (the sort itself admits any integer there)
            self._wf_ufs = getattr(self, '_wf_ufs', set()) | {name}
            xs = [z3.Const('wf%d!%s' % (i, name), t.sort()) for i, t in enumerate(arg_tys)]
            self.assume(z3.ForAll(xs, res_ty.len(f(*xs)) >= 0, patterns=[f(*xs)]))
        return f

    def define(self, name, fn):
        """python-level spec function fn(eng, *values)"""
        self.spec_env[name] = Builtin(fn, name)

    def heap(self, name, box):
        """register global ghost state (e.g. the node-attribute heap of abstract molecule objects)."""
        self.eng.heap[name] = box
        return box

    def note_input(self, name, v):
        self.extra_inputs[name] = v

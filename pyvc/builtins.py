"""
pyvc.builtins -- assumed contracts ("axioms") for python builtins, container methods and the
handful of stdlib / third party names the verified code uses.  Everything in this file is part of
the trusted base and is listed as such in the evidence; tests/axiom_test.py exercises the
executable ones against CPython.
"""
import ast
import z3
from .types import *
from .values import *
from .interp import (Builtin, Closure, ClassV, ModuleV, ExcClass, ExcValue, Env, PyExc, PathEnd, EngineError,
                     _Return)


class PyType:
    def __init__(self, name):
        self.name = name

    def __repr__(self):
        return '<type %s>' % self.name


EXTERNAL_MODULES = {}

# ---------------------------------------------------------------------------------- constructors


def unify(ts):
    ts = [t for t in ts]
    if not ts or any(t is None for t in ts):
        return None
    t0 = ts[0]
    for t in ts[1:]:
        if t == t0:
            continue
        if {t, t0} <= {TInt, TReal, TBool}:
            t0 = TReal if TReal in (t, t0) else TInt
        elif isinstance(t0, TOpt) and t0.t == t:
            pass
        elif isinstance(t, TOpt) and t.t == t0:
            t0 = t
        else:
            return None
    return t0


def new_list(eng, elems, hint=None):
    if not elems:
        return Box(None, kind='list')
    # a list literal of heterogeneous / non-typable python values stays a concrete tuple-like list
    t = unify([type_of(x) for x in elems])
    if t is None:
        return ConcreteList(list(elems))
    ty = TSeq(t)
    arr = ty.arr(ty.empty())
    for i, x in enumerate(elems):
        arr = z3.Store(arr, i, to_z3(x, t))
    return Box(ty, ty.mk(z3.IntVal(len(elems)), arr))


class ConcreteList(list):
    """python list of interpreter values with concrete length (heterogeneous literals)."""


def new_set(eng, elems):
    if not elems:
        return Box(None, kind='set')
    t = unify([type_of(x) for x in elems])
    if t is None:
        raise EngineError('set literal of untypable elements')
    ty = TSet(t)
    e = ty.empty()
    for x in elems:
        e = z3.Store(e, to_z3(x, t), True)
    return Box(ty, e)


def new_dict(eng, pairs):
    b = Box(None, kind='dict')
    for k, v in pairs:
        setitem(eng, b, k, v)
    return b


def str_of(eng, v):
    if isinstance(v, (int, str, float)) and not isinstance(v, bool):
        return str(v)
    if v is None or isinstance(v, bool):
        return str(v)
    if isinstance(v, SV) and v.ty == TInt:
        return SV(TStr, z3.IntToStr(v.e)) if False else SV(TStr, eng.uf('str_of_int', [TInt], TStr)(v.e))
    if isinstance(v, SV) and v.ty == TStr:
        return v
    return SV(TStr, eng.fresh(TStr, 'str'))

# ---------------------------------------------------------------------------------- operators


def py_floordiv(a, b):
    return z3.If(b > 0, a / b, (-a) / (-b))


_DUNDER = {'Div': '__truediv__', 'Add': '__add__', 'Sub': '__sub__', 'Mult': '__mul__', 'Pow': '__pow__'}


def binop(eng, op, a, b):
    if op == 'Add' and isinstance(a, str) and isinstance(b, SV) and isinstance(b.ty, TKey) and \
            (a, b.ty.name) in getattr(eng, 'concat_hooks', {}):
        return eng.concat_hooks[(a, b.ty.name)](eng, b)        # "<literal>" + <abstract text>: given by the contract
    if isinstance(a, Obj) and _DUNDER.get(op) in a.attrs:
        return eng.call(a.attrs[_DUNDER[op]], [b], {})
    if isinstance(b, Obj) and not isinstance(a, Obj) and _DUNDER.get(op, '__x')[:2] + 'r' + _DUNDER.get(op, '__x')[2:] in b.attrs:
        return eng.call(b.attrs[_DUNDER[op][:2] + 'r' + _DUNDER[op][2:]], [a], {})
    if isinstance(a, PArr) or isinstance(b, PArr):
        # element-wise numpy arithmetic at the arbitrary index
        src = a if isinstance(a, PArr) else b
        xa = a.e if isinstance(a, PArr) else None
        xb = b.e if isinstance(b, PArr) else None
        if op in ('BitAnd', 'BitOr') and xa is not None and xb is not None and z3.is_bool(xa) and z3.is_bool(xb):
            return src.like(z3.And(xa, xb) if op == 'BitAnd' else z3.Or(xa, xb))          # boolean masks
        if op == 'Mult' and xb is not None and z3.is_bool(xb):
            return src.like(z3.If(xb, _real(eng.num(a)), z3.RealVal(0)))                  # array * mask
        if op == 'Mult' and xa is not None and z3.is_bool(xa):
            return src.like(z3.If(xa, _real(eng.num(b)), z3.RealVal(0)))
        x, y = _real(eng.num(a)), _real(eng.num(b))
        if op == 'Pow':
            return src.like(eng.uf('pow_', [TReal, TReal], TReal)(x, y))
        r = binop(eng, op, SV(TReal, x), SV(TReal, y))
        return src.like(_real(eng.num(r)))
    if isinstance(a, (str, tuple)) and isinstance(b, type(a)) and op == 'Add':
        return a + b
    if isinstance(a, str) and op == 'Mod':
        return SV(TStr, eng.fresh(TStr, 'fmt'))
    if isinstance(a, str) and isinstance(b, int) and op == 'Mult':
        return a * b
    if isinstance(a, ConcreteList) and isinstance(b, int) and not isinstance(b, bool) and op == 'Mult':
        return ConcreteList(list(a) * b)
    if isinstance(a, str) and len(a) == 1 and isinstance(b, SV) and b.ty == TInt and op == 'Mult':
        # c * n: n copies of the character c (empty for n <= 0)
        f = z3.Function('repeat_c', z3.IntSort(), z3.IntSort(), TCStr.sort())
        r = f(ord(a), b.e)
        i = z3.FreshInt('ri')
        eng.assume(TCStr.len(r) == z3.If(b.e > 0, b.e, 0))
        eng.assume(forall_pat([i], z3.Implies(z3.And(0 <= i, i < TCStr.len(r)), TCStr.at(r, i) == ord(a)), TCStr.at(r, i)))
        return SV(TCStr, r)
    if op == 'Add' and (type_of(a) == TCStr or type_of(b) == TCStr) and (type_of(a) == TChar or type_of(b) == TChar):
        # a character next to a code-point string: the one-character string
        def one(c):
            return SV(TCStr, TCStr.mk(z3.IntVal(1), z3.Store(z3.K(z3.IntSort(), z3.IntVal(0)), 0, c.e)))
        a = one(a) if type_of(a) == TChar else a
        b = one(b) if type_of(b) == TChar else b
    if op == 'Add' and (type_of(a) == TCStr or type_of(b) == TCStr) and (isinstance(a, str) or type_of(a) == TCStr) \
            and (isinstance(b, str) or type_of(b) == TCStr):
        if isinstance(a, str) and a == '':
            return b if isinstance(b, SV) else SV(TCStr, to_z3(b))
        if isinstance(b, str) and b == '':
            return a if isinstance(a, SV) else SV(TCStr, to_z3(a))
        ea, eb = to_z3(a, TCStr), to_z3(b, TCStr)
        f = z3.Function('concat_c', TCStr.sort(), TCStr.sort(), TCStr.sort())
        r = f(ea, eb)
        i = z3.FreshInt('ci')
        la, lb = TCStr.len(ea), TCStr.len(eb)
        eng.assume(TCStr.len(r) == la + lb)
        eng.assume(forall_pat([i], z3.Implies(z3.And(0 <= i, i < la), TCStr.at(r, i) == TCStr.at(ea, i)), TCStr.at(r, i)))
        eng.assume(z3.ForAll([i], z3.Implies(z3.And(0 <= i, i < lb), TCStr.at(r, la + i) == TCStr.at(eb, i))))
        return SV(TCStr, r)
    ta, tb = type_of(a), type_of(b)
    if ta == TStr or tb == TStr:
        if op == 'Add':
            return SV(TStr, z3.Concat(to_z3(a, TStr), to_z3(b, TStr)))
        if op == 'Mod':
            return SV(TStr, eng.fresh(TStr, 'fmt'))
        raise EngineError('string op %s' % op)
    if isinstance(a, IterV) and getattr(a, 'keys_of', None) is not None and op in ('Sub', 'BitAnd', 'BitOr'):
        mt = type_of(a.keys_of)
        a = Box(TSet(mt.k), mt.dom(to_z3(a.keys_of)))      # d.keys() as the set of keys
        ta = a.ty
    if isinstance(ta, TSet) or isinstance(tb, TSet) or (isinstance(a, Box) and a.kind == 'set') or \
            (isinstance(b, Box) and b.kind == 'set'):
        return set_binop(eng, op, a, b)
    if isinstance(ta, TSeq) and op == 'Add':
        return seq_concat(eng, a, b)
    if isinstance(ta, TSeq) and op == 'Mult' and type_of(b) == TInt:
        return seq_repeat(eng, a, b)
    if isinstance(a, ConcreteList) and isinstance(b, ConcreteList) and op == 'Add':
        return ConcreteList(list(a) + list(b))
    if isinstance(a, list) and len(a) == 1 and op == 'Mult' and isinstance(b, SV) and b.ty == TInt:
        # [x] * n with a symbolic n: n references to the one element (an immutable view: len / iteration / indexing)
        n_ = z3.If(b.e > 0, b.e, z3.IntVal(0))
        return IterV(n_, lambda i, _x=a[0]: _x)
    x, y = eng.num(a), eng.num(b)
    conc = isinstance(x, (int, float)) and isinstance(y, (int, float))
    if op == 'Add':
        return eng.numval(x + y)
    if op == 'Sub':
        return eng.numval(x - y)
    if op == 'Mult':
        return eng.numval(x * y)
    if op == 'Div':
        eng.maybe_raise(_ne0(y), 'ZeroDivisionError')
        if conc:
            return x / y
        return eng.numval(_real(x) / _real(y))
    if op in ('FloorDiv', 'Mod'):
        eng.maybe_raise(_ne0(y), 'ZeroDivisionError')
        if conc:
            return x // y if op == 'FloorDiv' else x % y
        if _is_real(x) or _is_real(y):
            raise EngineError('floor division of reals')
        xi, yi = _int(x), _int(y)
        if (isinstance(y, int) and y > 0) or eng.check_light(yi <= 0) == z3.unsat:
            # a positive divisor: Python's // and % coincide with SMT-LIB's div and mod
            return eng.numval(xi / yi if op == 'FloorDiv' else xi % yi)
        q = py_floordiv(xi, yi)
        return eng.numval(q if op == 'FloorDiv' else xi - yi * q)
    if op == 'Pow':
        if conc:
            return x ** y
        if isinstance(y, int) and 0 <= y <= 4:
            r = 1
            for _ in range(y):
                r = r * x
            return eng.numval(r)
        raise EngineError('symbolic power')
    raise EngineError('binary operator %s' % op)


def _z(x):
    if isinstance(x, int):
        return z3.IntVal(x)
    if isinstance(x, float):
        return z3.RealVal(repr(x))
    return x


def _ne0(y):
    return (y != 0) if isinstance(y, (int, float)) else y != 0


def _is_real(x):
    return isinstance(x, float) or (isinstance(x, z3.ExprRef) and x.sort() == z3.RealSort())


def _real(x):
    if isinstance(x, (int, float)):
        return z3.RealVal(repr(x) if isinstance(x, float) else x)
    return z3.ToReal(x) if x.sort() == z3.IntSort() else x


def _int(x):
    return z3.IntVal(x) if isinstance(x, int) else x


def set_binop(eng, op, a, b):
    for v in (a, b):
        if isinstance(v, Box) and v.ty is None:
            other = b if v is a else a
            if isinstance(other, (Box, SV)) and other.ty is not None:
                v.set_type(other.ty)
            else:
                raise EngineError('set op on untyped sets')
    ty = type_of(a)
    if ty != type_of(b):
        raise EngineError('set op on different element types')
    ea, eb = to_z3(a), to_z3(b)
    x = z3.FreshConst(ty.t.sort(), 'sx')
    if op == 'Sub':
        body = z3.And(z3.Select(ea, x), z3.Not(z3.Select(eb, x)))
    elif op == 'BitAnd':
        body = z3.And(z3.Select(ea, x), z3.Select(eb, x))
    elif op == 'BitOr':
        body = z3.Or(z3.Select(ea, x), z3.Select(eb, x))
    else:
        raise EngineError('set operator %s' % op)
    return Box(ty, z3.Lambda([x], body))


def _as_seq(items, ty):
    arr = ty.arr(ty.empty())
    for i, x in enumerate(items):
        arr = z3.Store(arr, i, to_z3(x, ty.t))
    return Box(ty, ty.mk(z3.IntVal(len(items)), arr))


def seq_concat(eng, a, b):
    # a literal list of records next to a typed sequence takes that sequence's element type
    if isinstance(a, ConcreteList) and isinstance(type_of(b), TSeq):
        a = _as_seq(list(a), type_of(b))
    if isinstance(b, ConcreteList) and isinstance(type_of(a), TSeq):
        b = _as_seq(list(b), type_of(a))
    ty = type_of(a)
    if type_of(b) != ty:
        raise EngineError('concat of different sequence types: %s + %s' % (ty, type_of(b)))
    ea, eb = to_z3(a), to_z3(b)
    nb = lit(z3.simplify(ty.len(eb)))
    if isinstance(nb, int) and not isinstance(nb, bool) and 0 <= nb <= 4:
        # a + [x, y]: the elements are appended one by one (exact, no quantifier)
        arr, n = ty.arr(ea), ty.len(ea)
        for q in range(nb):
            arr = z3.Store(arr, n + q, ty.at(eb, z3.IntVal(q)))
        return Box(ty, ty.mk(n + nb, arr))
    r = eng.fresh(ty, 'cat')
    i = z3.FreshInt('ci')
    la, lb = ty.len(ea), ty.len(eb)
    eng.assume(ty.len(r) == la + lb)
    eng.assume(z3.ForAll([i], z3.Implies(z3.And(0 <= i, i < la), ty.at(r, i) == ty.at(ea, i))))
    # the second part in both directions, each indexed with a plain bound variable (usable as a trigger)
    eng.assume(forall_pat([i], z3.Implies(z3.And(la <= i, i < la + lb), ty.at(r, i) == ty.at(eb, i - la)), ty.at(r, i)))
    eng.assume(forall_pat([i], z3.Implies(z3.And(0 <= i, i < lb), ty.at(r, la + i) == ty.at(eb, i)), ty.at(eb, i)))
    return Box(ty, r)


def seq_repeat(eng, a, n):
    """s * n: len(s) * n elements, element i is s[i mod len(s)]; stated exactly for len(s) == 1 (the only use)."""
    ty = type_of(a)
    e = to_z3(a)
    nv = _int(eng.num(n))
    r = eng.fresh(ty, 'rep')
    i = z3.FreshInt('ri')
    ls = ty.len(e)
    if eng.check_light(ls != 1) == z3.unsat:
        eng.assume(ty.len(r) == z3.If(nv > 0, nv, 0))
        eng.assume(z3.ForAll([i], z3.Implies(z3.And(0 <= i, i < ty.len(r)), ty.at(r, i) == ty.at(e, 0))))
    else:
        eng.assume(ty.len(r) == z3.If(nv > 0, ls * nv, 0))
        eng.assume(z3.ForAll([i], z3.Implies(z3.And(0 <= i, i < ty.len(r)), ty.at(r, i) == ty.at(e, i % ls))))
    return Box(ty, r)


def inplace_parr(eng, op, arr, rhs):
    r = binop(eng, op, arr, rhs)
    arr.e = r.e


def inplace(eng, op, box, rhs):
    """augmented assignment on a mutable container; returns True if handled in place."""
    if box.kind == 'list' and op == 'Add':
        list_extend(eng, box, rhs)
        return True
    if box.kind == 'set' and op in ('BitOr', 'Sub', 'BitAnd'):
        r = set_binop(eng, op, box, rhs)
        box.e = r.e
        return True
    return False


def _identity_sort(eng, v):
    t = type_of(v) if isinstance(v, SV) else None
    if isinstance(t, TOpt):
        t = t.t
    name = getattr(t, 'name', None) if isinstance(t, TKey) else None
    return name if name in getattr(eng, 'identity_sorts', ()) else None


def compare(eng, op, a, b):
    if (isinstance(a, PArr) or isinstance(b, PArr)) and op in ('Lt', 'LtE', 'Gt', 'GtE'):
        x, y = _real(eng.num(a)), _real(eng.num(b))
        return (a if isinstance(a, PArr) else b).like({'Lt': x < y, 'LtE': x <= y, 'Gt': x > y, 'GtE': x >= y}[op])      # a mask
    if op == 'Eq':
        return eng.eq(a, b)
    if op == 'NotEq':
        return eng.Not(eng.eq(a, b))
    if op in ('Is', 'IsNot'):
        if isinstance(a, bool) or isinstance(b, bool):
            x, y = (a, b) if isinstance(b, bool) else (b, a)
            if isinstance(x, bool):
                r = x is y
            elif isinstance(x, SV) and x.ty == TBool:
                r = x.e == z3.BoolVal(y)
            elif isinstance(x, SV) and isinstance(x.ty, TOpt) and x.ty.t == TBool:
                r = eng.eq(x, y)
            else:
                r = False
        elif a is None or b is None:
            r = eng.eq(a, b)
        elif isinstance(a, (Obj, Box, Closure, ClassV, ExcClass)) or isinstance(b, (Obj, Box, Closure, ClassV, ExcClass)):
            r = a is b
        elif _identity_sort(eng, a) is not None and _identity_sort(eng, a) == _identity_sort(eng, b):
            # values of an abstract sort the contract declares to stand for objects (eng.identity_sorts): one value, one object
            r = eng.eq(a, b)
        else:
            raise EngineError('identity comparison of values')
        return r if op == 'Is' else eng.Not(r)
    if op == 'In':
        return contains(eng, b, a)
    if op == 'NotIn':
        return eng.Not(contains(eng, b, a))
    if isinstance(a, (str, tuple)) and isinstance(b, type(a)) and not _has_sym(a) and not _has_sym(b):
        return {'Lt': a < b, 'LtE': a <= b, 'Gt': a > b, 'GtE': a >= b}[op]
    if isinstance(a, tuple) and isinstance(b, tuple):
        return tuple_cmp(eng, op, a, b)
    if type_of(a) == TChar or type_of(b) == TChar:
        x, y = to_z3(a, TChar), to_z3(b, TChar)
        return {'Lt': x < y, 'LtE': x <= y, 'Gt': x > y, 'GtE': x >= y}[op]
    if type_of(a) == TStr or type_of(b) == TStr:
        x, y = to_z3(a, TStr), to_z3(b, TStr)
        return {'Lt': x < y, 'LtE': x <= y, 'Gt': y < x, 'GtE': y <= x}[op]
    if isinstance(type_of(a), TSet) and op in ('LtE', 'GtE'):
        ea, eb = to_z3(a), to_z3(b)
        x = z3.FreshConst(type_of(a).t.sort(), 'sx')
        if op == 'GtE':
            ea, eb = eb, ea
        return z3.ForAll([x], z3.Implies(z3.Select(ea, x), z3.Select(eb, x)))
    x, y = eng.num(a), eng.num(b)
    if _is_real(x) != _is_real(y) and not isinstance(x, (int, float)) and not isinstance(y, (int, float)):
        x, y = _real(x), _real(y)
    return {'Lt': x < y, 'LtE': x <= y, 'Gt': x > y, 'GtE': x >= y}[op]


def _has_sym(v):
    if isinstance(v, tuple):
        return any(_has_sym(x) for x in v)
    return isinstance(v, (SV, Box))


def tuple_cmp(eng, op, a, b):
    """lexicographic comparison of equal-length tuples."""
    strict = op in ('Lt', 'Gt')
    if op in ('Gt', 'GtE'):
        a, b = b, a
    n = min(len(a), len(b))
    res = (len(a) < len(b)) if strict else (len(a) <= len(b))
    for i in reversed(range(n)):
        lt = compare(eng, 'Lt', a[i], b[i])
        e = eng.eq(a[i], b[i])
        res = eng.Or(lt, eng.And(e, res))
    return res


def contains(eng, c, x):
    if isinstance(c, (tuple, list)):
        return eng.Or(*[eng.eq(x, e) for e in c])
    if isinstance(c, str) and isinstance(x, SV) and x.ty == TChar:
        return eng.Or(*[x.e == ord(ch) for ch in c])
    if isinstance(c, str):
        if isinstance(x, str):
            return x in c
        return z3.Contains(z3.StringVal(c), to_z3(x, TStr))
    if isinstance(c, dict):
        return eng.Or(*[eng.eq(x, k) for k in c])
    if isinstance(c, IterV):
        if c.concrete is not None:
            return eng.Or(*[eng.eq(x, e) for e in c.concrete])
        src = getattr(c, 'src', None)
        if src is not None:
            return contains(eng, src, x)
        raise EngineError('membership in iterator')
    if isinstance(c, Obj) and '__contains__' in c.attrs:
        return eng.truth(eng.call(c.attrs['__contains__'], [x], {}))
    if isinstance(c, Obj) and 'contains' in c.__dict__:
        return contains(eng, c.__dict__['contains'], x)
    if isinstance(c, Box) and c.cd is not None:
        if isinstance(x, SV):
            return eng.Or(*[eng.eq(x, k) for k in c.cd])
        return _cd_find(eng, c, x)[1]
    if isinstance(c, Box) and c.ty is None:
        return False
    ty = type_of(c)
    e = to_z3(c)
    et = ty.k if isinstance(ty, TMap) else (ty.t if isinstance(ty, (TSet, TSeq)) else None)
    if isinstance(x, SV) and isinstance(x.ty, TOpt) and et is not None and x.ty.t == et:
        # None is never a member of a container of plain values
        return eng.And(z3.Not(x.ty.is_none(x.e)), contains(eng, c, SV(et, x.ty.get(x.e))))
    if isinstance(ty, TMap):
        k = _coerce_key(x, ty.k)
        return False if k is None else ty.has(e, k)
    if isinstance(ty, TSet):
        k = _coerce_key(x, ty.t)
        return False if k is None else z3.Select(e, k)
    if isinstance(ty, TSeq):
        k = _coerce_key(x, ty.t)
        if k is None:
            return False
        if eng.spec:
            i = z3.FreshInt('mi')
            return z3.Exists([i], z3.And(0 <= i, i < ty.len(e), ty.at(e, i) == k))
        b = eng.fresh(TBool, 'in')
        w = eng.fresh(TInt, 'inw')
        i = z3.FreshInt('mi')
        eng.assume(z3.Implies(b, z3.And(0 <= w, w < ty.len(e), ty.at(e, w) == k)))
        eng.assume(z3.Implies(z3.Not(b), z3.ForAll([i], z3.Implies(z3.And(0 <= i, i < ty.len(e)), ty.at(e, i) != k))))
        return b
    if ty == TStr:
        return z3.Contains(e, to_z3(x, TStr))
    raise EngineError('membership in %r' % (c,))


def _coerce_key(x, ty):
    try:
        return to_z3(x, ty)
    except EngineError:
        return None

# ---------------------------------------------------------------------------------- attribute / item access


def getattr_value(eng, v, attr):
    if isinstance(v, Obj):
        if attr in v.attrs:
            return v.attrs[attr]
        if attr == '_replace' and 'nt_fields' in v.__dict__:
            def repl(e, **kw):
                o = Obj(v.cls, **dict(v.attrs, **kw))
                o.__dict__['nt_fields'] = v.__dict__['nt_fields']
                return o
            return Builtin(repl, '_replace')
        k = v.__dict__.get('klass')
        if k is not None:
            m = k.lookup(attr)
            if isinstance(m, Closure):
                if getattr(m, 'is_property', False):
                    return eng.call_closure(m.bind(v), [], {})
                if getattr(m, 'is_static', False):
                    return m
                return m.bind(v)
            if m is not None:
                return m
        if eng.spec or not v.__dict__.get('closed', False):
            # an object built by a contract models only the attributes the verified code is known to use; anything else is
            # outside the model (undecided), not an AttributeError of the real object
            raise EngineError('attribute %s of %r is not modelled' % (attr, v))
        raise PyExc('AttributeError', (attr,), eng.line)
    if isinstance(v, ModuleV):
        if attr in v.attrs:
            return v.attrs[attr]
        raise EngineError('external name %s.%s has no assumed contract' % (v.name, attr))
    if isinstance(v, ClassV):
        m = v.lookup(attr)
        if m is None:
            raise EngineError('class attribute %s.%s' % (v.name, attr))
        return m
    if isinstance(v, ExcValue):
        if attr == 'args':
            return tuple(v.args)
    if isinstance(v, NT) and attr in v._names:
        return v[v._names.index(attr)]
    if isinstance(v, SV) and isinstance(v.ty, TOpt):
        eng.maybe_raise(z3.Not(v.ty.is_none(v.e)), 'AttributeError')
        return getattr_value(eng, wrap(v.ty.t, v.ty.get(v.e)), attr)
    kind = value_kind(v)
    h = eng.attr_hooks.get((kind, attr))
    if h is not None:
        return h(eng, v)
    m = eng.methods.get((kind, attr))
    if m is not None:
        b_ = Builtin(lambda e, *a, **k: m(e, v, *a, **k), '%s.%s' % (kind, attr))
        if getattr(m, 'star_ok', False):
            b_.star_ok = True
        return b_
    py = _PY_ATTRS.get(kind)
    if py is not None and attr not in py and not eng.spec:
        if getattr(eng, 'assumed_kinds', False):
            # in a region the kinds of the live-in variables are what the contract assumes of the code before the region:
            # code that uses one as another kind of container is not covered by the contract
            raise EngineError('attribute %s of a %s: the region contract assumes another kind of value here' % (attr, kind))
        # no Python value this kind stands for has such an attribute
        raise PyExc('AttributeError', (attr,), eng.line)
    raise EngineError('attribute %s of %s value' % (attr, kind))


import collections as _collections
_PY_ATTRS = {
    'list': set(dir(list)) | set(dir(tuple)) | set(dir(_collections.deque)),
    'clist': set(dir(list)), 'tuple': set(dir(tuple)),
    'dict': set(dir(dict)) | set(dir(_collections.OrderedDict)) | set(dir(_collections.defaultdict)),
    'cdict': set(dir(dict)), 'set': set(dir(set)) | set(dir(frozenset)),
    'str': set(dir(str)), 'cstr': set(dir(str)), 'Int': set(dir(int)), 'Bool': set(dir(bool)), 'Real': set(dir(float)),
}


def value_kind(v):
    if isinstance(v, Box) and v.ty == TCStr:
        return 'cstr'
    if isinstance(v, Box):
        return v.kind
    if isinstance(v, SV):
        t = v.ty
        if t == TCStr:
            return 'cstr'
        if isinstance(t, TSeq):
            return 'list'
        if isinstance(t, TMap):
            return 'dict'
        if isinstance(t, TSet):
            return 'set'
        if t == TStr:
            return 'str'
        if isinstance(t, TOpt):
            return 'opt'
        return t.name
    if isinstance(v, str):
        return 'str'
    if isinstance(v, ConcreteList):
        return 'clist'
    if isinstance(v, tuple):
        return 'tuple'
    if isinstance(v, dict):
        return 'cdict'
    if isinstance(v, IterV):
        return 'iter'
    return type(v).__name__


def setattr_value(eng, o, attr, v):
    if isinstance(o, Obj):
        o.attrs[attr] = v
        return
    h = getattr(eng, 'setattr_hooks', {}).get((value_kind(o), attr))
    if h is not None:
        return h(eng, o, v)
    raise EngineError('attribute assignment on %r' % (o,))


def norm_index(eng, i, n, exc=True):
    """python index -> non-negative z3 index, IndexError path when out of range."""
    if isinstance(i, SV) and isinstance(i.ty, TOpt) and i.ty.t == TInt:
        eng.maybe_raise(z3.Not(i.ty.is_none(i.e)), 'TypeError')       # lst[None]
        i = SV(TInt, i.ty.get(i.e))
    iv = eng.num(i)
    if eng.spec:
        return _int(iv)
    if isinstance(iv, int) and isinstance(n, int):
        if not -n <= iv < n:
            eng.maybe_raise(False, 'IndexError')
        return iv % n if n else 0
    ok = z3.And(iv >= -n, iv < n) if not isinstance(iv, int) else (z3.And(n > iv) if iv >= 0 else n >= -iv)
    if exc:
        eng.maybe_raise(ok, 'IndexError')
    if isinstance(iv, int):
        return z3.IntVal(iv) if iv >= 0 else n + iv
    return z3.If(iv < 0, iv + n, iv)


def getitem(eng, v, k):
    if isinstance(v, NT) and isinstance(k, str):
        if k in v._names:
            return v[v._names.index(k)]          # a record-like dict read by key
        eng.maybe_raise(False, 'KeyError')
    if isinstance(v, PArr) and isinstance(k, tuple):
        e = v.at(*[_int(eng.num(x)) for x in k])                 # arr[a, b]: the pointwise formula at that index
        return wrap(TBool if z3.is_bool(e) else TReal, e)
    if isinstance(v, (tuple, ConcreteList, str)):
        kk = eng.num(k)
        if isinstance(kk, int):
            if not -len(v) <= kk < len(v):
                eng.maybe_raise(False, 'IndexError')
                raise EngineError('index out of range in spec')
            return v[kk]
        if isinstance(v, str):
            return getitem(eng, SV(TStr, z3.StringVal(v)), k)
        eng.maybe_raise(z3.And(kk >= -len(v), kk < len(v)), 'IndexError')
        idx = z3.If(kk < 0, kk + len(v), kk)
        res = v[-1]
        for j in reversed(range(len(v) - 1)):
            res = eng.ite(idx == j, v[j], res)
        return res
    if isinstance(v, dict):
        conds = []
        for kk, vv in v.items():
            r = eng.eq(kk, k)
            if r is True:
                return vv
            if r is not False:
                conds.append((r, vv))
        if not conds:
            eng.maybe_raise(False, 'KeyError')
            raise EngineError('missing key in spec')
        eng.maybe_raise(eng.Or(*[c for c, _ in conds]), 'KeyError')
        res = conds[-1][1]
        for c, vv in reversed(conds[:-1]):
            res = eng.ite(c, vv, res)
        return res
    if isinstance(v, Obj):
        if '__getitem__' in v.attrs:
            return eng.call(v.attrs['__getitem__'], [k], {})
        k_ = v.__dict__.get('klass')
        if k_ is not None and k_.lookup('__getitem__') is not None:
            return eng.call_closure(k_.lookup('__getitem__').bind(v), [k], {})
        raise EngineError('subscript of object %r' % v)
    if isinstance(v, Box) and v.cd is not None:
        if isinstance(k, SV):
            return getitem(eng, dict(v.cd), k)     # symbolic key: ite chain over the entries, KeyError path otherwise
        kk, found = _cd_find(eng, v, k)
        if found:
            return v.cd[kk]
        if v.default is not None and not eng.spec:
            v.cd[k] = v.default(eng)          # defaultdict: a missing key is inserted with the default
            return v.cd[k]
        eng.maybe_raise(False, 'KeyError')
        raise EngineError('missing key in spec')
    if isinstance(v, Box) and v.ty is None:
        if v.kind == 'dict' and v.default is not None:
            dv = v.default(eng)
            setitem(eng, v, k, dv)
            return getitem(eng, v, k)
        eng.maybe_raise(False, 'KeyError' if v.kind == 'dict' else 'IndexError')
        raise EngineError('subscript of empty container in spec')
    ty = type_of(v)
    e = to_z3(v)
    parent = v if isinstance(v, Box) else None
    if isinstance(ty, TSeq):
        idx = norm_index(eng, k, ty.len(e))
        return wrap(ty.t, ty.at(e, idx), parent, idx)
    if isinstance(ty, TMap):
        if isinstance(k, SV) and isinstance(k.ty, TOpt) and k.ty.t == ty.k:
            eng.maybe_raise(z3.Not(k.ty.is_none(k.e)), 'KeyError')      # None is not a key
            k = SV(ty.k, k.ty.get(k.e))
        kk = _coerce_key(k, ty.k)
        if kk is None:
            eng.maybe_raise(False, 'KeyError')
            raise EngineError('ill-typed key in spec')
        if (isinstance(v, Box) and getattr(v, 'counter', False)) or getattr(ty, 'counter', False):
            # collections.Counter: reading a missing key gives 0 and does not insert it
            return wrap(ty.v, z3.If(ty.has(e, kk), ty.at(e, kk), z3.IntVal(0)))
        if isinstance(v, Box) and v.default is not None and not eng.spec:
            dv = to_z3(v.default(eng), ty.v)
            v.e = z3.If(ty.has(e, kk), e, ty.insert(e, kk, dv))
            e = v.e
        else:
            eng.maybe_raise(ty.has(e, kk), 'KeyError')
        return wrap(ty.v, ty.at(e, kk), parent, kk)
    if ty == TStr:
        n = z3.Length(e)
        idx = norm_index(eng, k, n)
        return SV(TStr, z3.SubString(e, idx, 1))
    if isinstance(v, SV) and isinstance(ty, TKey):
        m = eng.methods.get((ty.name, '__getitem__'))      # subscript of an abstract value: given by the contract
        if m is not None:
            return m(eng, v, k)
    raise EngineError('subscript of %r' % (v,))


def getslice(eng, v, lo, hi, st):
    if st is not None and st != 1:
        if isinstance(v, (tuple, str, ConcreteList)) and all(x is None or isinstance(x, int) for x in (lo, hi, st)):
            return v[lo:hi:st]
        raise EngineError('slice step')
    if isinstance(v, (tuple, str, ConcreteList)) and all(x is None or isinstance(x, int) for x in (lo, hi)):
        r = v[lo:hi]
        return ConcreteList(r) if isinstance(v, ConcreteList) else r
    if isinstance(v, str):
        v = SV(TStr, z3.StringVal(v))
    if isinstance(v, Box) and v.ty is None:
        return Box(None, kind=v.kind)
    ty = type_of(v)
    if isinstance(v, SV) and isinstance(ty, TKey) and (ty.name, '__getslice__') in eng.methods:
        return eng.methods[(ty.name, '__getslice__')](eng, v, lo, hi)      # slice of an abstract value: given by the contract
    e = to_z3(v)
    n = z3.Length(e) if ty == TStr else (ty.len(e) if isinstance(ty, TSeq) else None)
    if n is None:
        raise EngineError('slice of %r' % (v,))

    def raw(x, default):
        return default if x is None else _int(eng.num(x))

    def clamp(xv):
        xv = z3.If(xv < 0, xv + n, xv)
        return z3.If(xv < 0, 0, z3.If(xv > n, n, xv))
    lo_raw, hi_raw = raw(lo, z3.IntVal(0)), raw(hi, n)
    a, b = clamp(lo_raw), clamp(hi_raw)
    ln = z3.If(b > a, b - a, 0)
    if ty == TStr:
        return SV(TStr, z3.SubString(e, a, ln))
    # a slice is a function of (sequence, start, stop) -- raw, unclamped arguments -- so that syntactically equal
    # arguments give equal slices (congruence); its two defining facts are stated for this application
    f = z3.Function('slice_' + ty.name, ty.sort(), z3.IntSort(), z3.IntSort(), ty.sort())
    r = f(e, lo_raw, hi_raw)
    i = z3.FreshInt('si')
    eng.assume(ty.len(r) == ln)
    eng.assume(forall_pat([i], z3.Implies(z3.And(0 <= i, i < ln), ty.at(r, i) == ty.at(e, a + i)), ty.at(r, i)))
    return SV(ty, r) if ty == TCStr else Box(ty, r)


def _is_conc_key(k):
    if isinstance(k, (str, int)) or k is None:
        return True
    if isinstance(k, tuple):
        return all(_is_conc_key(x) for x in k)
    return False


def _cd_find(eng, box, k):
    """key of box.cd equal to k, or None; symbolic keys into a concrete dict are out of reach."""
    for kk in box.cd:
        r = eng.eq(kk, k)
        if r is True:
            return kk, True
        if r is not False:
            raise EngineError('symbolic key into a concrete-key dict')
    return None, False


def _type_box_for(box, k, v):
    """give an untyped literal container a type from the first stored key/value."""
    if box.kind == 'dict':
        tk, tv = type_of(k), type_of(v)
        if isinstance(v, Box) and v.ty is None:
            raise EngineError('store of an untyped container (declare the type in locals)')
        if tk is None or tv is None:
            raise EngineError('cannot infer dict type from %r: %r' % (k, v))
        box.set_type(TMap(tk, tv))
    elif box.kind == 'list':
        tv = type_of(v)
        if tv is None:
            raise EngineError('cannot infer list type from %r' % (v,))
        box.set_type(TSeq(tv))
    elif box.kind == 'set':
        tv = type_of(v)
        if tv is None:
            raise EngineError('cannot infer set type from %r' % (v,))
        box.set_type(TSet(tv))


def _store_value(eng, box, key_e, v, ty_v):
    """z3 value to store for v; if v is a mutable container it starts forwarding to the slot."""
    if isinstance(v, Box):
        if v.ty is None:
            v.set_type(ty_v)
        e = v.e
        if v._fwd is None and not v.frozen:
            v._pending_fwd = (box, key_e)
        return e
    return to_z3(v, ty_v)


def _finish_fwd(v):
    if isinstance(v, Box) and getattr(v, '_pending_fwd', None):
        v._fwd = v._pending_fwd
        v._pending_fwd = None


def setitem(eng, c, k, v):
    if isinstance(c, PArr) and isinstance(k, PArr):
        c.e = z3.If(k.e, _real(eng.num(v)), c.e)          # arr[mask] = v
        return
    if isinstance(c, Obj):
        if '__setitem__' in c.attrs:
            return eng.call(c.attrs['__setitem__'], [k, v], {})
        k_ = c.__dict__.get('klass')
        if k_ is not None and k_.lookup('__setitem__') is not None:
            return eng.call_closure(k_.lookup('__setitem__').bind(c), [k, v], {})
        raise EngineError('item assignment on object')
    if isinstance(c, dict):
        c[k] = v
        return
    if not isinstance(c, Box):
        raise EngineError('item assignment on immutable %r' % (c,))
    if c.ty is None and c.kind == 'dict' and (c.cd is not None or _is_conc_key(k)):
        if c.frozen:
            raise EngineError('mutation of a frozen (old) snapshot')
        if c.cd is None:
            c.cd = {}
        kk, found = _cd_find(eng, c, k)
        c.cd[kk if found else k] = v
        return
    if c.ty is None:
        _type_box_for(c, k, v)
    ty = c.ty
    if isinstance(ty, TMap):
        kk = to_z3(k, ty.k)
        ve = _store_value(eng, c, kk, v, ty.v)
        c.e = ty.insert(c.e, kk, ve)
        _finish_fwd(v)
    elif isinstance(ty, TSeq):
        idx = norm_index(eng, k, ty.len(c.e))
        ve = _store_value(eng, c, idx, v, ty.t)
        c.e = ty.mk(ty.len(c.e), z3.Store(ty.arr(c.e), idx, ve))
        _finish_fwd(v)
    else:
        raise EngineError('item assignment on %s' % ty)


def delitem(eng, c, k):
    if isinstance(k, slice):
        if k == slice(None, None, None) and isinstance(c, Box) and (isinstance(c.ty, TSeq) or (c.ty is None and c.kind == 'list')):
            if c.ty is not None:
                c.e = c.ty.mk(z3.IntVal(0), c.ty.arr(c.e))      # del xs[:] empties the list in place
            else:
                c.cd = None
            return
        raise EngineError('del of a slice')
    if isinstance(c, Box) and isinstance(c.ty, TSeq):
        list_pop(eng, c, k)
        return
    if not isinstance(c, Box) or not isinstance(c.ty, TMap):
        raise EngineError('del on %r' % (c,))
    dict_remove_key(eng, c, k, True)


def dict_remove_key(eng, c, k, must):
    ty = c.ty
    kk = to_z3(k, ty.k)
    e = c.e
    if must:
        eng.maybe_raise(ty.has(e, kk), 'KeyError')
    # removing from the middle shifts the order: new order is a fresh sequence with the stated relation
    r = eng.fresh(ty, 'del')
    q = z3.FreshConst(ty.k.sort(), 'dk')
    i = z3.FreshInt('di')
    p = z3.Select(ty.pos(e), kk)
    had = ty.has(e, kk)
    eng.assume(ty.n(r) == z3.If(had, ty.n(e) - 1, ty.n(e)))
    eng.assume(z3.ForAll([q], ty.has(r, q) == z3.And(ty.has(e, q), q != kk)))
    eng.assume(z3.ForAll([q], z3.Implies(ty.has(r, q), ty.at(r, q) == ty.at(e, q))))
    eng.assume(z3.ForAll([i], z3.Implies(z3.And(0 <= i, i < ty.n(r)),
                                          ty.key_at(r, i) == ty.key_at(e, z3.If(z3.And(had, i >= p), i + 1, i)))))
    c.e = r

# ---------------------------------------------------------------------------------- iteration


def _simp_n(n):
    if isinstance(n, int):
        return n
    s = z3.simplify(n)
    v = lit(s)
    return v if isinstance(v, int) and not isinstance(v, bool) else n


class OneShot:
    """an iterable that can be traversed only once (generator, iterator): the weakest thing a parameter documented as
    'iterable' may be.  The second traversal yields nothing."""

    def __init__(self, seq):
        self.seq, self.consumed = seq, False


class _Any:
    """use_lemma(name, ..., ANY, ...): the lemma for every value of that parameter"""

    def __repr__(self):
        return 'ANY'


ANY = _Any()


class StatefulIter:
    """the value of iter(x): a position in the traversal of x.  next() advances it; a traversal (for, comprehension,
    all/any/list...) takes the remaining elements, after which the iterator may not be used again (a traversal may stop
    early, so what is left is unknown: out of reach)."""

    def __init__(self, base):
        self.base, self.pos, self.dead = base, 0, False


def make_iter(eng, v):
    if isinstance(v, StatefulIter):
        if v.dead:
            raise EngineError('iterator used again after a traversal')
        v.dead = True
        base, pos = v.base, v.pos
        if base.concrete is not None and isinstance(pos, int):
            return IterV(len(base.concrete) - pos, None, concrete=list(base.concrete[pos:]))
        if isinstance(pos, int) and pos == 0:
            return base
        it = IterV(_simp_n(_int(base.n) - _int(pos)), lambda i: base.get(z3.simplify(_int(i) + _int(pos))))
        it.shift = _int(pos)       # quantified facts about this view are indexed by the position in the underlying sequence
        return it
    if isinstance(v, OneShot):
        if v.consumed:
            return IterV(0, None, concrete=[])
        v.consumed = True
        return make_iter(eng, v.seq)
    if isinstance(v, IterV):
        return v
    if isinstance(v, (tuple, list)):
        return IterV(len(v), None, concrete=list(v))
    if isinstance(v, str):
        return IterV(len(v), None, concrete=list(v))
    if isinstance(v, dict):
        return IterV(len(v), None, concrete=list(v.keys()))
    if isinstance(v, CharSet):
        raise EngineError('iteration over set(str)')
    if isinstance(v, Box) and v.cd is not None:
        return IterV(len(v.cd), None, concrete=list(v.cd.keys()))
    if isinstance(v, Box) and v.ty is None:
        return IterV(0, None, concrete=[])
    if isinstance(v, Obj) and 'iter' in v.__dict__:
        return make_iter(eng, v.__dict__['iter'])       # iteration order of an abstract object, given by its contract
    ty = type_of(v)
    if ty is None:
        raise EngineError('cannot iterate %r' % (v,))
    e = to_z3(v)
    parent = v if isinstance(v, Box) else None
    if isinstance(ty, TSeq):
        it = IterV(_simp_n(ty.len(e)), lambda i: wrap(ty.t, ty.at(e, _int(i)), parent, _int(i)))
        it.src = v
        return it
    if isinstance(ty, TMap):
        it = IterV(_simp_n(ty.n(e)), lambda i: wrap(ty.k, ty.key_at(e, _int(i))))
        it.src = v
        return it
    if isinstance(ty, TSet):
        # arbitrary duplicate-free enumeration of the set (universally quantified order)
        sq = TSeq(ty.t)
        s = eng.fresh(sq, 'enum')
        pos = z3.Function('enumpos!%d' % eng.fresh_n, ty.t.sort(), z3.IntSort())
        x = z3.FreshConst(ty.t.sort(), 'ex')
        i = z3.FreshInt('ei')
        eng.assume(z3.ForAll([x], z3.Implies(z3.Select(e, x), z3.And(0 <= pos(x), pos(x) < sq.len(s),
                                                                      sq.at(s, pos(x)) == x))))
        eng.assume(z3.ForAll([i], z3.Implies(z3.And(0 <= i, i < sq.len(s)),
                                              z3.And(z3.Select(e, sq.at(s, i)), pos(sq.at(s, i)) == i))))
        eng.assume(sq.len(s) == eng.uf('card_' + ty.name, [ty], TInt)(e))       # as many elements as len(set)
        it = IterV(sq.len(s), lambda i: wrap(ty.t, sq.at(s, _int(i))))
        it.src = v
        it.pos, it.pos_ty = pos, ty.t
        return it
    if ty == TStr:
        return IterV(z3.Length(e), lambda i: SV(TStr, z3.SubString(e, _int(i), 1)))
    raise EngineError('cannot iterate %s' % ty)


def b_range(eng, *args):
    a = [eng.num(x) for x in args]
    if all(isinstance(x, int) for x in a):
        return IterV(None, None, concrete=list(range(*a)))
    if len(a) == 1:
        lo, hi = 0, a[0]
    elif len(a) == 2:
        lo, hi = a
    elif isinstance(a[2], int) and a[2] > 0:
        # range(lo, hi, step) with a positive literal step: ceil((hi - lo) / step) values lo, lo + step, ...
        lo_, hi_, st = _int(a[0]), _int(a[1]), a[2]
        return IterV(z3.If(hi_ > lo_, (hi_ - lo_ + (st - 1)) / st, 0), lambda i: eng.numval(lo_ + st * _int(i)))
    else:
        raise EngineError('range with symbolic step')
    lo_, hi_ = _int(lo), _int(hi)
    return IterV(z3.If(hi_ > lo_, hi_ - lo_, 0), lambda i: eng.numval(lo_ + _int(i)))


def b_enumerate(eng, x, start=0):
    it = make_iter(eng, x)
    if it.concrete is not None and isinstance(start, int):
        return IterV(None, None, concrete=[(start + i, e) for i, e in enumerate(it.concrete)])
    s = eng.num(start)
    if it.concrete is not None:
        return IterV(None, None, concrete=[(eng.numval(s + i), e) for i, e in enumerate(it.concrete)])
    r = IterV(it.n, lambda i: (eng.numval(_int(s) + _int(i)), it.get(i)))
    r.lazy_ok = True
    return r


def b_zip(eng, *xs):
    its = [make_iter(eng, x) for x in xs]
    if all(i.concrete is not None for i in its):
        return IterV(None, None, concrete=list(zip(*[i.concrete for i in its])))
    ns = [len(i.concrete) if i.concrete is not None else i.n for i in its if not getattr(i, 'infinite', False)]
    if not ns:
        raise EngineError('zip of infinite iterators only')
    n = ns[0]
    for m in ns[1:]:
        n = z3.If(_int(m) < _int(n), _int(m), _int(n))

    def get(i):
        return tuple((it.concrete[i] if it.concrete is not None and isinstance(i, int) else
                      (getitem(eng, tuple(it.concrete), wrap(TInt, _int(i))) if it.concrete is not None else it.get(i)))
                     for it in its)
    return IterV(_simp_n(n), get)


def b_reversed(eng, x):
    it = make_iter(eng, x)
    if it.concrete is not None:
        return IterV(None, None, concrete=list(reversed(it.concrete)))
    return IterV(it.n, lambda i: it.get(_int(it.n) - 1 - _int(i)))


def b_len(eng, x):
    if isinstance(x, (tuple, list, str, dict)):
        return len(x)
    if isinstance(x, CharSet):
        # assumed contract: len(set(s)) == 0 iff s empty; == 1 iff s non-empty and all characters equal
        e = x.s.e
        c = eng.fresh(TInt, 'nchars')
        i = z3.FreshInt('ci')
        if x.s.ty == TCStr:
            n = TCStr.len(e)
            same = z3.ForAll([i], z3.Implies(z3.And(0 <= i, i < n), TCStr.at(e, i) == TCStr.at(e, 0)))
        else:
            n = z3.Length(e)
            same = z3.ForAll([i], z3.Implies(z3.And(0 <= i, i < n), z3.SubString(e, i, 1) == z3.SubString(e, 0, 1)))
        eng.assume(z3.And(c >= 0, c <= n, (c == 0) == (n == 0), (c == 1) == z3.And(n > 0, same)))
        return SV(TInt, c)
    if isinstance(x, IterV):
        return len(x.concrete) if x.concrete is not None else eng.numval(x.n)
    if isinstance(x, Obj) and '__len__' in x.attrs:
        return eng.call(x.attrs['__len__'], [], {})
    if isinstance(x, Box) and x.cd is not None:
        return len(x.cd)
    if isinstance(x, Box) and x.ty is None:
        return 0
    ty = type_of(x)
    e = to_z3(x)
    if isinstance(ty, TSeq):
        return eng.numval(ty.len(e))
    if isinstance(ty, TMap):
        return eng.numval(ty.n(e))
    if ty == TStr:
        return eng.numval(z3.Length(e))
    if isinstance(ty, TSet):
        # the cardinality of a set: an uninterpreted function of the set, tied to the length of its enumerations (make_iter)
        c = eng.uf('card_' + ty.name, [ty], TInt)(e)
        eng.assume(c >= 0)
        eng.assume((c == 0) == (e == ty.empty()))
        return eng.numval(c)
    raise EngineError('len of %r' % (x,))


def _minmax(eng, is_max, args, kwargs):
    if kwargs.get('key') is not None:
        raise EngineError('min/max with key')
    if len(args) == 1:
        it = make_iter(eng, args[0])
        if it.concrete is None:
            # assumed contract of max/min over a (non-empty) sequence: a bound that is attained
            eng.maybe_raise(_int(it.n) > 0, 'ValueError')
            probe = eng.num(it.get(z3.Int('probe!')))
            real = _is_real(probe)
            m = eng.fresh(TReal if real else TInt, 'mx' if is_max else 'mn')
            i = z3.FreshInt('mi')
            w = eng.fresh(TInt, 'mw')
            xi = eng.num(it.get(i))
            eng.assume(z3.ForAll([i], z3.Implies(z3.And(0 <= i, i < _int(it.n)), (xi <= m) if is_max else (xi >= m))))
            eng.assume(z3.And(0 <= w, w < _int(it.n), eng.num(it.get(w)) == m))
            return SV(TReal if real else TInt, m)
        vals = it.concrete
        if not vals:
            if 'default' in kwargs:
                return kwargs['default']
            eng.maybe_raise(False, 'ValueError')
    else:
        vals = list(args)
    if all(isinstance(v, (int, float)) and not isinstance(v, bool) for v in vals):
        return max(vals) if is_max else min(vals)
    acc = eng.num(vals[0])
    for v in vals[1:]:
        x, y = acc, eng.num(v)
        if isinstance(x, (int, float)) and isinstance(y, (int, float)):
            acc = max(x, y) if is_max else min(x, y)
            continue
        if _is_real(x) != _is_real(y):
            x, y = _real(x), _real(y)
        c = (y > x) if is_max else (y < x)
        acc = z3.If(c, _z(y), _z(x))
    return eng.numval(acc)


def b_abs(eng, x):
    v = eng.num(x)
    if isinstance(v, (int, float)):
        return abs(v)
    return eng.numval(z3.If(v < 0, -v, v))


def b_isinstance(eng, v, t):
    ts = t if isinstance(t, tuple) else (t,)
    names = set()
    for x in ts:
        if isinstance(x, PyType):
            names.add(x.name)
        elif isinstance(x, Builtin) and getattr(x, 'pytype', None) is not None:
            names.add(x.pytype.name)
        elif isinstance(x, ClassV):
            names.add(x.name)
        elif isinstance(x, ExcClass):
            names.add(x.name)
        else:
            raise EngineError('isinstance with %r' % (x,))
    def conc(v):
        if isinstance(v, bool):
            return bool(names & {'bool', 'int', 'Integral', 'Number'})
        if isinstance(v, int):
            return bool(names & {'int', 'Integral', 'Number'})
        if isinstance(v, float):
            return bool(names & {'float', 'Number'})
        if isinstance(v, str):
            return bool(names & {'str', 'Sequence', 'Hashable'})
        if isinstance(v, tuple):
            return 'tuple' in names
        if v is None:
            return 'NoneType' in names
        if isinstance(v, ConcreteList):
            return 'list' in names
        if isinstance(v, Obj):
            k = v.__dict__.get('klass')
            if v.cls in names:
                return True
            while k is not None:
                if k.name in names:
                    return True
                k = k.bases[0] if k.bases and isinstance(k.bases[0], ClassV) else None
            return False
        if isinstance(v, Box):
            return v.kind in names
        return None
    r = conc(v)
    if r is not None:
        return r
    if isinstance(v, SV):
        ty = v.ty
        if isinstance(ty, TOpt):
            inner = b_isinstance(eng, wrap(ty.t, ty.get(v.e)), t)
            return eng.And(z3.Not(ty.is_none(v.e)), inner) if 'NoneType' not in names else \
                eng.Or(ty.is_none(v.e), inner)
        m = {TInt: {'int', 'Integral', 'Number', 'Hashable'}, TReal: {'float', 'Number', 'Hashable'},
             TStr: {'str', 'Sequence', 'Hashable'}, TBool: {'bool', 'int', 'Integral', 'Hashable'},
             TCStr: {'str', 'Sequence', 'Hashable'}, TChar: {'str', 'Sequence', 'Hashable'}}
        if ty in m:
            return bool(names & m[ty])
        if isinstance(ty, TSeq):
            return 'list' in names
        if isinstance(ty, TMap):
            return 'dict' in names
        if isinstance(ty, TSet):
            return 'set' in names
    raise EngineError('isinstance of %r' % (v,))


def b_int(eng, x=0, base=10):
    if isinstance(x, (int, float, str)) and not isinstance(x, bool):
        try:
            return int(x)
        except ValueError:
            eng.maybe_raise(False, 'ValueError')
            raise EngineError('int() of non-number in spec')
    if isinstance(x, SV) and x.ty == TInt:
        return x
    if isinstance(x, SV) and x.ty == TBool:
        return SV(TInt, z3.If(x.e, 1, 0))
    if isinstance(x, SV) and x.ty == TStr:
        # assumed contract: int(s) succeeds iff is_int_literal(s) (uninterpreted), value int_of_str(s)
        ok = eng.uf('is_int_literal', [TStr], TBool)(x.e)
        eng.maybe_raise(ok, 'ValueError')
        return SV(TInt, eng.uf('int_of_str', [TStr], TInt)(x.e))
    if isinstance(x, SV) and isinstance(x.ty, TOpt):
        eng.maybe_raise(z3.Not(x.ty.is_none(x.e)), 'TypeError')
        return b_int(eng, wrap(x.ty.t, x.ty.get(x.e)))
    if isinstance(x, (SV, Box)) and x.ty == TCStr:
        ok = eng.uf('is_int_literal_c', [TCStr], TBool)(to_z3(x))
        eng.maybe_raise(ok, 'ValueError')
        return SV(TInt, eng.uf('int_of_cstr', [TCStr], TInt)(to_z3(x)))
    raise EngineError('int() of %r' % (x,))


def b_float(eng, x=0.0):
    if isinstance(x, (int, float, str)) and not isinstance(x, bool):
        try:
            return float(x)
        except ValueError:
            eng.maybe_raise(False, 'ValueError')
            raise EngineError('float() of non-number in spec')
    if isinstance(x, SV) and x.ty == TReal:
        return x
    if isinstance(x, SV) and x.ty == TInt:
        return SV(TReal, z3.ToReal(x.e))
    if isinstance(x, SV) and x.ty == TStr:
        ok = eng.uf('is_float_literal', [TStr], TBool)(x.e)
        eng.maybe_raise(ok, 'ValueError')
        return SV(TReal, eng.uf('float_of_str', [TStr], TReal)(x.e))
    raise EngineError('float() of %r' % (x,))


def b_bool(eng, x=False):
    return eng.truth(x)


def b_str(eng, x=''):
    return str_of(eng, x)


def b_tuple(eng, x=()):
    if isinstance(x, (Box, SV)) and isinstance(type_of(x), TSeq) and x.ty is not None:
        it = make_iter(eng, x)
        if it.concrete is None and not isinstance(it.n, int):
            return SV(type_of(x), to_z3(x))      # tuple(seq) of symbolic length: the same sequence as an immutable value
    if isinstance(x, IterV) and x.concrete is None and not isinstance(x.n, int):
        b = iter_to_list(eng, x)                 # tuple(<generator over a symbolic sequence>): its elements, immutable
        return SV(b.ty, b.e)
    return tuple(eng.concrete_list(x))


def b_list(eng, x=None):
    if x is None:
        return Box(None, kind='list')
    it = make_iter(eng, x)
    if it.concrete is not None:
        return new_list(eng, it.concrete)
    src = getattr(it, 'src', None)
    if src is not None and isinstance(type_of(src), TSeq):
        return Box(type_of(src), to_z3(src))
    if getattr(it, 'lazy_ok', False):
        return it      # immutable view: fine for len / iteration / reversed (mutation is out of reach)
    return iter_to_list(eng, it)


def iter_to_list(eng, it, ty=None):
    """materialise a symbolic IterV as a fresh sequence (pointwise axiom)."""
    probe = it.get(z3.Int('probe!'))
    t = ty or type_of(probe)
    if t is None:
        raise EngineError('cannot type iterator elements')
    sq = TSeq(t)
    r = eng.fresh(sq, 'lst')
    i = z3.FreshInt('li')
    eng.assume(sq.len(r) == _int(it.n))
    eng.assume(z3.ForAll([i], z3.Implies(z3.And(0 <= i, i < sq.len(r)), sq.at(r, i) == to_z3(it.get(i), t))))
    return Box(sq, r)


class CharSet:
    """set(s) of a symbolic string: only its size class (0, 1, >= 2) and membership are modelled."""

    def __init__(self, s):
        self.s = s


def b_set(eng, x=None):
    if x is None:
        return Box(None, kind='set')
    if isinstance(x, (SV, Box)) and x.ty in (TStr, TCStr):
        return CharSet(SV(x.ty, to_z3(x)))
    if isinstance(x, (SV, Box)) and isinstance(x.ty, TSet):
        return Box(x.ty, to_z3(x))                          # set(a set): a copy, no enumeration needed
    it = make_iter(eng, x)
    if it.concrete is not None:
        return new_set(eng, it.concrete)
    src = getattr(it, 'src', None)
    if src is not None and isinstance(type_of(src), TSet):
        return Box(type_of(src), to_z3(src))
    if src is not None and isinstance(type_of(src), (TSeq, TMap)):
        ty = type_of(src)
        e = to_z3(src)
        et = ty.t if isinstance(ty, TSeq) else ty.k
        st = TSet(et)
        if isinstance(ty, TMap):
            return Box(st, ty.dom(e))
        r = eng.fresh_box(st, 'setof')
        x_ = z3.FreshConst(et.sort(), 'sx')
        i = z3.FreshInt('si')
        w = z3.Function('setw!%d' % eng.fresh_n, et.sort(), z3.IntSort())
        eng.assume(z3.ForAll([i], z3.Implies(z3.And(0 <= i, i < ty.len(e)), z3.Select(r.e, ty.at(e, i)))))
        eng.assume(z3.ForAll([x_], z3.Implies(z3.Select(r.e, x_), z3.And(0 <= w(x_), w(x_) < ty.len(e),
                                                                           ty.at(e, w(x_)) == x_))))
        return r
    if it.get is not None and not isinstance(it.n, int):
        # set(<generator over a symbolic sequence, possibly filtered>): exactly the generated elements
        probe = it.get(z3.Int('probe!'))
        et = type_of(probe)
        if et is not None:
            st = TSet(et)
            r = eng.fresh_box(st, 'setof')
            x_ = z3.FreshConst(et.sort(), 'sx')
            i = z3.FreshInt('si')
            eng.fresh_n += 1
            w = z3.Function('setw!%d' % eng.fresh_n, et.sort(), z3.IntSort())
            n = _int(it.n)
            eng.assume(z3.ForAll([i], z3.Implies(z3.And(0 <= i, i < n), z3.Select(r.e, to_z3(it.get(i), et)))))
            eng.assume(z3.ForAll([x_], z3.Implies(z3.Select(r.e, x_), z3.And(0 <= w(x_), w(x_) < n, to_z3(it.get(w(x_)), et) == x_))))
            return r
    raise EngineError('set() of %r' % (x,))


def b_dict(eng, x=None, **kw):
    b = Box(None, kind='dict')
    if x is not None:
        if isinstance(x, (Box, SV)) and isinstance(type_of(x), TMap):
            return Box(type_of(x), to_z3(x))
        it = make_iter(eng, x) if not isinstance(x, (list, tuple)) else None
        if it is not None and it.concrete is None and not isinstance(it.n, int):
            # dict(<pairs over a symbolic sequence>): like the comprehension {k: v for k, v in pairs}
            class _G:
                target = ast.Tuple(elts=[ast.Name(id='__k', ctx=ast.Store()), ast.Name(id='__v', ctx=ast.Store())], ctx=ast.Store())
                ifs = []
            return dict_from_pairs(eng, it, _G, Env(None, {}), lambda sub: (sub.vars['__k'], sub.vars['__v']))
        for kv in eng.concrete_list(x):
            k, v = eng.unpack(kv, 2)
            setitem(eng, b, k, v)
    for k, v in kw.items():
        setitem(eng, b, k, v)
    return b


def b_all(eng, x):
    it = make_iter(eng, x)
    if it.concrete is not None:
        return eng.And(*[eng.truth(e) for e in it.concrete])
    i = z3.FreshInt('ai')
    sh = getattr(it, 'shift', None)
    if sh is not None:
        body = eng._b(eng.truth(it.get(i - sh)))
        return z3.ForAll([i], z3.Implies(z3.And(sh <= i, i < _int(it.n) + sh), body))
    body = eng._b(eng.truth(it.get(i)))
    return z3.ForAll([i], z3.Implies(z3.And(0 <= i, i < _int(it.n)), body))


def b_any(eng, x):
    it = make_iter(eng, x)
    if it.concrete is not None:
        return eng.Or(*[eng.truth(e) for e in it.concrete])
    i = z3.FreshInt('ai')
    body = eng._b(eng.truth(it.get(i)))
    if eng.spec:
        return z3.Exists([i], z3.And(0 <= i, i < _int(it.n), body))
    b = eng.fresh(TBool, 'any')
    w = eng.fresh(TInt, 'anyw')
    eng.assume(z3.Implies(b, z3.And(0 <= w, w < _int(it.n), eng._b(eng.truth(it.get(w))))))
    eng.assume(z3.Implies(z3.Not(b), z3.ForAll([i], z3.Implies(z3.And(0 <= i, i < _int(it.n)), z3.Not(body)))))
    return b


def b_sum(eng, x, start=0):
    it = make_iter(eng, x)
    if it.concrete is not None:
        acc = start
        for e in it.concrete:
            acc = binop(eng, 'Add', acc, e)
        return acc
    # sum(s) of a symbolic list of integers: the contract's prefix-sum spec function PS(s, i) (convention), at i = len(s)
    src = getattr(it, 'src', None)
    ps = None
    try:
        ps = eng.spec_fallback.lookup('PS') if getattr(eng, 'spec_fallback', None) is not None else None
    except KeyError:
        ps = None
    if ps is not None and src is not None and type_of(src) == TSeq(TInt) and start == 0:
        return eng.call(ps, [src, b_len(eng, src)], {})
    vo = getattr(it, 'values_of', None)
    if vo is not None and isinstance(type_of(vo), TMap) and type_of(vo).v == TInt and start == 0:
        try:
            sv = eng.spec_fallback.lookup('SUMV')    # sum(d.values()): the contract's SUMV(d, i) at i = len(d)
        except (KeyError, AttributeError):
            sv = None
        if sv is not None:
            return eng.call(sv, [vo, b_len(eng, vo)], {})
    if src is not None and type_of(src) == TSeq(TReal) and start == 0:
        try:
            sw = eng.spec_fallback.lookup('SW')      # same convention for lists of reals: SW(w, i)
        except (KeyError, AttributeError):
            sw = None
        if sw is not None:
            return eng.call(sw, [src, b_len(eng, src)], {})
    raise EngineError('sum over a symbolic sequence (use a prefix-sum spec function)')


def b_getattr(eng, o, name, *default):
    if not isinstance(name, str):
        raise EngineError('getattr with symbolic name')
    if isinstance(o, Obj):
        if name in o.attrs:
            return o.attrs[name]
        k = o.__dict__.get('klass')
        if k is not None and k.lookup(name) is not None:
            return getattr_value(eng, o, name)
        opt = o.__dict__.get('optional_attrs', {})
        if name in opt:
            present, val = opt[name]
            if default:
                return eng.ite(present, val, default[0])
            eng.maybe_raise(present, 'AttributeError')
            return val
        if default:
            return default[0]
        eng.maybe_raise(False, 'AttributeError')
    return getattr_value(eng, o, name)


def b_hasattr(eng, o, name):
    if isinstance(o, Obj):
        k = o.__dict__.get('klass')
        return name in o.attrs or (k is not None and k.lookup(name) is not None)
    raise EngineError('hasattr on %r' % (o,))


def b_sorted(eng, x, key=None, reverse=False):
    it = make_iter(eng, x)
    if it.concrete is not None and not any(_has_sym(e) for e in it.concrete) and key is None:
        return new_list(eng, sorted(it.concrete, reverse=bool(reverse)))
    raise EngineError('sorted() of symbolic data needs a contract-level model')

# ---------------------------------------------------------------------------------- methods


def list_append(eng, b, v):
    if not isinstance(b, Box):
        raise EngineError('append on immutable sequence (declare the parameter mutable)')
    if b.ty is None:
        _type_box_for(b, None, v)
    ty = b.ty
    n = ty.len(b.e)
    ve = _store_value(eng, b, n, v, ty.t)
    b.e = ty.mk(n + 1, z3.Store(ty.arr(b.e), n, ve))
    _finish_fwd(v)


def list_extend(eng, b, other):
    it = make_iter(eng, other)
    if it.concrete is not None:
        for x in it.concrete:
            list_append(eng, b, x)
        return
    if b.ty is None:
        src = getattr(it, 'src', None)
        if src is not None and isinstance(type_of(src), TSeq):
            b.set_type(type_of(src))
        else:
            raise EngineError('extend of untyped list')
    ty = b.ty
    e = b.e
    r = eng.fresh(ty, 'ext')
    i = z3.FreshInt('xi')
    la = ty.len(e)
    eng.assume(ty.len(r) == la + _int(it.n))
    eng.assume(z3.ForAll([i], z3.Implies(z3.And(0 <= i, i < la), ty.at(r, i) == ty.at(e, i))))
    eng.assume(z3.ForAll([i], z3.Implies(z3.And(0 <= i, i < _int(it.n)), ty.at(r, la + i) == to_z3(it.get(i), ty.t))))
    b.e = r


def list_pop(eng, b, idx=-1):
    ty = b.ty
    if ty is None:
        eng.maybe_raise(False, 'IndexError')
    e = b.e
    n = ty.len(e)
    eng.maybe_raise(n > 0, 'IndexError')
    if idx == -1:
        v = wrap(ty.t, ty.at(e, n - 1))
        b.e = ty.mk(n - 1, ty.arr(e))
        return v
    p = norm_index(eng, idx, n)
    v = wrap(ty.t, ty.at(e, p))
    r = eng.fresh(ty, 'pop')
    i = z3.FreshInt('pi')
    eng.assume(ty.len(r) == n - 1)
    if isinstance(idx, int) and idx == 0:
        eng.assume(z3.ForAll([i], z3.Implies(z3.And(0 <= i, i < n - 1), ty.at(r, i) == ty.at(e, i + 1)), patterns=[ty.at(r, i)]))
    else:
        # two ite-free halves (ite terms make poor triggers)
        eng.assume(z3.ForAll([i], z3.Implies(z3.And(0 <= i, i < p), ty.at(r, i) == ty.at(e, i)), patterns=[ty.at(r, i)]))
        eng.assume(z3.ForAll([i], z3.Implies(z3.And(p <= i, i < n - 1), ty.at(r, i) == ty.at(e, i + 1)), patterns=[ty.at(r, i)]))
    b.e = r
    return v


def list_index(eng, b, x):
    if isinstance(b, Box) and b.ty is None:
        eng.maybe_raise(False, 'ValueError')       # an empty list has no such element
        raise EngineError('index in an empty list (spec)')
    ty = type_of(b)
    e = to_z3(b)
    k = _coerce_key(x, ty.t)
    w = eng.fresh(TInt, 'idx')
    i = z3.FreshInt('ii')
    found = contains(eng, b, x)
    eng.maybe_raise(found, 'ValueError')
    eng.assume(z3.And(0 <= w, w < ty.len(e), ty.at(e, w) == k))
    eng.assume(z3.ForAll([i], z3.Implies(z3.And(0 <= i, i < w), ty.at(e, i) != k)))
    return SV(TInt, w)


def list_count(eng, b, x):
    """s.count(x): only what its comparison with 0 and 1 needs is stated (none / at least one / at least two occurrences)."""
    if isinstance(b, Box) and b.ty is None:
        return 0
    ty = type_of(b)
    e = to_z3(b)
    k = _coerce_key(x, ty.t)
    c, w1, w2 = eng.fresh(TInt, 'cnt'), eng.fresh(TInt, 'cw1'), eng.fresh(TInt, 'cw2')
    i, j = z3.FreshInt('ci'), z3.FreshInt('cj')
    n = ty.len(e)
    eng.assume(c >= 0)
    eng.assume(z3.Implies(c >= 1, z3.And(0 <= w1, w1 < n, ty.at(e, w1) == k)))
    eng.assume(z3.Implies(c == 0, z3.ForAll([i], z3.Implies(z3.And(0 <= i, i < n), ty.at(e, i) != k))))
    eng.assume(z3.Implies(c >= 2, z3.And(w1 < w2, w2 < n, ty.at(e, w2) == k)))
    eng.assume(z3.Implies(c <= 1, z3.ForAll([i, j], z3.Implies(z3.And(0 <= i, i < j, j < n), z3.Not(z3.And(ty.at(e, i) == k, ty.at(e, j) == k))))))
    return SV(TInt, c)


def list_remove(eng, b, x):
    w = list_index(eng, b, x)
    list_pop(eng, b, w)


def list_copy(eng, b):
    if isinstance(b, Box) and b.cd is not None:
        n = Box(None, kind='dict')
        n.cd = dict(b.cd)
        return n
    if isinstance(b, Box) and b.ty is None:
        return Box(None, kind=b.kind)
    return Box(type_of(b), to_z3(b))


def dict_get(eng, d, k, default=None):
    if isinstance(d, Box) and d.cd is not None:
        kk, found = _cd_find(eng, d, k)
        return d.cd[kk] if found else default
    if isinstance(d, dict):
        for kk, vv in d.items():
            if eng.eq(kk, k) is True:
                return vv
        return default
    if isinstance(d, Box) and d.ty is None:
        return default
    ty = type_of(d)
    e = to_z3(d)
    kk = _coerce_key(k, ty.k)
    if kk is None:
        return default
    parent = d if isinstance(d, Box) else None
    val = wrap(ty.v, ty.at(e, kk), parent, kk)
    has = ty.has(e, kk)
    if isinstance(val, Box):
        if eng.spec:
            return val
        if eng.branch(has):
            return val
        return default
    return eng.ite(has, val, default)


def dict_items(eng, d):
    if isinstance(d, Box) and d.cd is not None:
        return IterV(None, None, concrete=[(k, v) for k, v in d.cd.items()])
    if isinstance(d, dict):
        return IterV(None, None, concrete=[(k, v) for k, v in d.items()])
    if isinstance(d, Box) and d.ty is None:
        return IterV(0, None, concrete=[])
    ty = type_of(d)
    e = to_z3(d)
    parent = d if isinstance(d, Box) else None
    it = IterV(_simp_n(ty.n(e)), lambda i: (wrap(ty.k, ty.key_at(e, _int(i))),
                                           wrap(ty.v, ty.at(e, ty.key_at(e, _int(i))), parent, ty.key_at(e, _int(i)))))
    it.items_of = d
    return it


def dict_keys(eng, d):
    it = make_iter(eng, d)
    if it.concrete is None:
        it.keys_of = d                   # a keys view: supports set difference / intersection with a set
    return it


def dict_values(eng, d):
    if isinstance(d, Box) and d.cd is not None:
        return IterV(None, None, concrete=list(d.cd.values()))
    if isinstance(d, dict):
        return IterV(None, None, concrete=list(d.values()))
    if isinstance(d, Box) and d.ty is None:
        return IterV(0, None, concrete=[])
    ty = type_of(d)
    e = to_z3(d)
    parent = d if isinstance(d, Box) else None
    it = IterV(_simp_n(ty.n(e)), lambda i: wrap(ty.v, ty.at(e, ty.key_at(e, _int(i))), parent, ty.key_at(e, _int(i))))
    it.values_of = d
    return it


def dict_pop(eng, d, k, *default):
    if d.cd is not None:
        kk, found = _cd_find(eng, d, k)
        if found:
            return d.cd.pop(kk)
        if default:
            return default[0]
        eng.maybe_raise(False, 'KeyError')
    ty = d.ty
    if ty is None:
        if default:
            return default[0]
        eng.maybe_raise(False, 'KeyError')
    kk = to_z3(k, ty.k)
    e = d.e
    has = ty.has(e, kk)
    val = wrap(ty.v, ty.at(e, kk))
    if default:
        res = eng.ite(has, val, default[0])
        dict_remove_key(eng, d, k, False)
        return res
    dict_remove_key(eng, d, k, True)
    return val


def dict_setdefault(eng, d, k, default=None):
    if d.ty is None:
        setitem(eng, d, k, default)
        return getitem(eng, d, k)
    ty = d.ty
    kk = to_z3(k, ty.k)
    e = d.e
    d.e = z3.If(ty.has(e, kk), e, ty.insert(e, kk, to_z3(default, ty.v)))
    return wrap(ty.v, ty.at(d.e, kk), d, kk)


def dict_update(eng, d, other=None, **kw):
    if other is not None:
        if isinstance(other, dict):
            for k, v in other.items():
                setitem(eng, d, k, v)
        else:
            it = dict_items(eng, other)
            if it.concrete is not None:
                for k, v in it.concrete:
                    setitem(eng, d, k, v)
            else:
                dict_update_sym(eng, d, other)
    for k, v in kw.items():
        setitem(eng, d, k, v)


def dict_update_sym(eng, d, other):
    ty = type_of(other)
    if d.ty is None:
        d.set_type(ty)
    if d.ty != ty:
        raise EngineError('update between different map types')
    e, o = d.e, to_z3(other)
    r = eng.fresh(ty, 'upd')
    q = z3.FreshConst(ty.k.sort(), 'uk')
    i = z3.FreshInt('ui')
    eng.assume(z3.ForAll([q], ty.has(r, q) == z3.Or(ty.has(e, q), ty.has(o, q))))
    eng.assume(z3.ForAll([q], z3.Implies(ty.has(r, q), ty.at(r, q) == z3.If(ty.has(o, q), ty.at(o, q), ty.at(e, q)))))
    eng.assume(z3.ForAll([i], z3.Implies(z3.And(0 <= i, i < ty.n(e)), ty.key_at(r, i) == ty.key_at(e, i))))
    eng.assume(ty.n(r) >= ty.n(e))
    d.e = r


def set_add(eng, s, x):
    if s.ty is None:
        _type_box_for(s, None, x)
    s.e = z3.Store(s.e, to_z3(x, s.ty.t), True)


def set_discard(eng, s, x):
    if s.ty is None:
        return
    s.e = z3.Store(s.e, to_z3(x, s.ty.t), False)


def set_remove(eng, s, x):
    eng.maybe_raise(contains(eng, s, x), 'KeyError')
    set_discard(eng, s, x)


def set_pop(eng, s):
    """set.pop(): removes and returns an arbitrary member; KeyError on the empty set."""
    if s.ty is None:
        eng.maybe_raise(False, 'KeyError')
    eng.maybe_raise(s.e != s.ty.empty(), 'KeyError')
    x = eng.fresh(s.ty.t, 'popped')
    eng.assume(z3.Select(s.e, x))
    s.e = z3.Store(s.e, x, False)
    return wrap(s.ty.t, x)


def set_union(eng, s, *others):
    """s.union(*others): a new set.  others may be one StarArgs of a symbolic sequence of sets (set().union(*(f(x) for x in xs))):
    then the result is a fresh set with exactly the members of s and of the elements (Skolem witness for the converse)."""
    from .interp import StarArgs
    if len(others) == 1 and isinstance(others[0], StarArgs):
        it = make_iter(eng, others[0].seq)
        probe = it.get(z3.Int('probe!'))
        st = type_of(probe)
        if not isinstance(st, TSet):
            raise EngineError('union(*xs) of elements that are not sets')
        base = to_z3(s, st) if not (isinstance(s, Box) and s.ty is None) else st.empty()
        r = eng.fresh(st, 'union')
        n = _int(it.n)
        i = z3.FreshInt('ui')
        x = z3.FreshConst(st.t.sort(), 'ux')
        w = z3.Function('union_w!%d' % eng.fresh_n, st.t.sort(), z3.IntSort())
        eng.fresh_n += 1
        eng.assume(z3.ForAll([i, x], z3.Implies(z3.And(0 <= i, i < n, z3.Select(to_z3(it.get(i), st), x)), z3.Select(r, x))))
        eng.assume(z3.ForAll([x], z3.Implies(z3.Select(base, x), z3.Select(r, x))))
        eng.assume(z3.ForAll([x], z3.Implies(z3.Select(r, x), z3.Or(z3.Select(base, x), z3.And(
            0 <= w(x), w(x) < n, z3.Select(to_z3(it.get(w(x)), st), x))))))
        return Box(st, r)
    r = s if not (isinstance(s, Box) and s.ty is None) else None
    for o in others:
        o = b_set(eng, o)
        r = o if r is None else set_binop(eng, 'BitOr', r, o)
    if r is None:
        return Box(None, kind='set')
    return Box(type_of(r), to_z3(r))
set_union.star_ok = True


def set_update(eng, s, *others):
    for o in others:
        it = make_iter(eng, o)
        if it.concrete is not None:
            for x in it.concrete:
                set_add(eng, s, x)
        else:
            # the union as a named set with a pointwise definition (a lambda term stored inside a list of sets defeats z3's
            # array reasoning once the list is edited)
            other = b_set(eng, o)
            if s.ty is None:
                s.set_type(other.ty)
            ty = s.ty
            r = eng.fresh(ty, 'updated')
            x = z3.FreshConst(ty.t.sort(), 'ux')
            eng.assume(z3.ForAll([x], z3.Select(r, x) == z3.Or(z3.Select(s.e, x), z3.Select(to_z3(other, ty), x)), patterns=[z3.Select(r, x)]))
            s.e = r


def _has_ite(e):
    stack, seen = [e], set()
    while stack:
        x = stack.pop()
        if x.get_id() in seen:
            continue
        seen.add(x.get_id())
        if z3.is_app(x) and x.decl().kind() == z3.Z3_OP_ITE:
            return True
        stack.extend(x.children())
    return False


def forall_pat(vs, body, pat):
    if _has_ite(pat):
        return z3.ForAll(vs, body)
    return z3.ForAll(vs, body, patterns=[pat])


def cstr_find(eng, s, c, right=False):
    """index of the first / last occurrence of a single character, -1 if absent (Skolemised both ways)."""
    e = to_z3(s)
    ce = to_z3(c, TChar)
    f = z3.Function('rfind_c' if right else 'find_c', TCStr.sort(), z3.IntSort(), z3.IntSort())
    r = f(e, ce)
    n = TCStr.len(e)
    i = z3.FreshInt('fi')
    eng.assume(z3.And(r >= -1, r < n))
    eng.assume(z3.Implies(r >= 0, TCStr.at(e, r) == ce))
    if right:
        eng.assume(forall_pat([i], z3.Implies(z3.And(r < i, i < n), TCStr.at(e, i) != ce), TCStr.at(e, i)))
    else:
        eng.assume(forall_pat([i], z3.Implies(z3.And(0 <= i, i < z3.If(r < 0, n, r)), TCStr.at(e, i) != ce),
                              TCStr.at(e, i)))
    return SV(TInt, r)


def cstr_split_all(eng, s, sep):
    """s.split(c) without a limit: [s] when c does not occur, [before, after] when it occurs exactly once, otherwise
    a sequence of at least three pieces of which only the length bound is stated."""
    first = cstr_find(eng, s, sep, False)
    if not eng.branch(first.e >= 0):
        return ConcreteList([s if isinstance(s, SV) else SV(TCStr, to_z3(s))])
    last = cstr_find(eng, s, sep, True)
    if eng.branch(first.e == last.e):
        n = b_len(eng, s)
        return ConcreteList([getslice(eng, s, 0, first, None), getslice(eng, s, eng.numval(first.e + 1), n, None)])
    pieces = eng.fresh(TSeq(TCStr), 'pieces')
    eng.assume(TSeq(TCStr).len(pieces) >= 3)
    return SV(TSeq(TCStr), pieces)


def cstr_split1(eng, s, sep, maxsplit=-1, right=False):
    if isinstance(sep, str) and len(sep) == 1 and maxsplit == -1 and not right:
        return cstr_split_all(eng, s, sep)
    if not (isinstance(sep, str) and len(sep) == 1 and maxsplit == 1):
        raise EngineError('split on a code-point string needs a single character separator and maxsplit 1')
    r = cstr_find(eng, s, sep, right)
    if not eng.branch(r.e >= 0):
        return ConcreteList([s if isinstance(s, SV) else SV(TCStr, to_z3(s))])
    n = b_len(eng, s)
    return ConcreteList([getslice(eng, s, 0, r, None), getslice(eng, s, eng.numval(r.e + 1), n, None)])


def char_pred(name):
    def m(eng, c):
        e = c.e
        if name == 'isdigit':
            return z3.And(e >= 48, e <= 57)
        if name == 'isalpha':
            return z3.Or(z3.And(e >= 65, e <= 90), z3.And(e >= 97, e <= 122))
        if name == 'isspace':
            return z3.Or(e == 32, z3.And(e >= 9, e <= 13))
        if name == 'isupper':
            return z3.And(e >= 65, e <= 90)
        raise EngineError('char predicate %s' % name)
    return m


def cstr_all_pred(name):
    def m(eng, s):
        e = to_z3(s)
        i = z3.FreshInt('ci')
        body = eng._b(char_pred(name)(eng, SV(TChar, TCStr.at(e, i))))
        return z3.And(TCStr.len(e) > 0, z3.ForAll([i], z3.Implies(z3.And(0 <= i, i < TCStr.len(e)), body)))
    return m


def str_method(name):
    def m(eng, s, *args, **kw):
        if name == 'format' and isinstance(s, str) and s in getattr(eng, 'format_hooks', {}):
            return eng.format_hooks[s](eng, *args, **kw)      # a contract gives this template a meaning
        if name == 'join' and isinstance(s, str) and s in getattr(eng, 'join_hooks', {}) and len(args) == 1 \
                and not isinstance(args[0], (str, tuple, list)):
            return eng.join_hooks[s](eng, args[0])            # ... or this separator joining symbolic pieces
        if isinstance(s, str) and all(isinstance(a, (str, int, tuple)) or a is None for a in args) \
                and not any(_has_sym(a) for a in args):
            r = getattr(s, name)(*args, **kw)
            if isinstance(r, list):
                return ConcreteList(r)
            return r
        return sym_str_method(eng, name, s, args, kw)
    return m


def sym_str_method(eng, name, s, args, kw):
    e = to_z3(s, TStr)
    if name == 'startswith':
        return z3.PrefixOf(to_z3(args[0], TStr), e)
    if name == 'endswith':
        return z3.SuffixOf(to_z3(args[0], TStr), e)
    if name == 'isdigit' and z3.is_app(e) and e.decl().kind() == z3.Z3_OP_SEQ_EXTRACT and lit(e.arg(2)) == 1:
        code = z3.StrToCode(e)
        return z3.And(z3.Length(e) == 1, code >= 48, code <= 57)
    if name == 'isdigit':
        # assumed: non-empty and every character is an ASCII digit (repo inputs are ASCII)
        i = z3.FreshInt('ci')
        return z3.And(z3.Length(e) > 0,
                      z3.ForAll([i], z3.Implies(z3.And(0 <= i, i < z3.Length(e)),
                                                z3.And(z3.StrToCode(z3.SubString(e, i, 1)) >= 48,
                                                       z3.StrToCode(z3.SubString(e, i, 1)) <= 57))))
    if name in ('split', 'rsplit') and len(args) == 2 and args[1] == 1 and isinstance(args[0], str) and len(args[0]) == 1:
        return str_split1(eng, e, args[0], name == 'rsplit')
    if name == 'split':
        return str_split(eng, e, args, kw)
    if name == 'format':
        return SV(TStr, eng.fresh(TStr, 'fmt'))
    if name == 'join' and len(args) == 1 and not isinstance(args[0], str) and type_of(args[0]) != TStr:
        # sep.join(sequence): some string (the text of messages is not modelled; non-string items would raise TypeError in
        # Python, which is not modelled either)
        return SV(TStr, eng.fresh(TStr, 'joined'))
    if name == 'find':
        return SV(TInt, z3.IndexOf(e, to_z3(args[0], TStr), 0))
    if name in ('strip', 'lstrip', 'rstrip', 'lower', 'upper', 'join', 'replace', 'rjust', 'ljust', 'title',
                'capitalize'):
        return SV(TStr, eng.uf('str_' + name + ('' if not args else str(len(args))), [TStr] * (1 + len(args)), TStr)(e, *[to_z3(a, TStr) for a in args]))
    raise EngineError('string method %s on symbolic string' % name)


def str_split1(eng, e, sep, right):
    """s.split(sep, 1) / s.rsplit(sep, 1) for a concrete single-character sep: [s] or [before, after]."""
    sepv = z3.StringVal(sep)
    if eng.spec:
        raise EngineError('split in spec')
    if not eng.branch(z3.Contains(e, sepv)):
        return ConcreteList([SV(TStr, e)])
    i = z3.LastIndexOf(e, sepv) if right else z3.IndexOf(e, sepv, 0)
    eng.assume(z3.And(i >= 0, i < z3.Length(e)))
    return ConcreteList([SV(TStr, z3.SubString(e, 0, i)), SV(TStr, z3.SubString(e, i + 1, z3.Length(e) - i - 1))])


def str_split(eng, e, args, kw):
    """s.split(sep): sequence of the maximal sep-free pieces (sep a single concrete character)."""
    if not args and not kw:
        # s.split(): the maximal runs of non-blank characters, in order.  Stated: the words are not empty, contain no blank, are
        # substrings of s, and the first one starts s when s does not start with a blank (an under-specification)
        sq = TSeq(TStr)
        r = eng.fresh(sq, 'words')
        n = sq.len(r)
        i = z3.FreshInt('wi')
        eng.assume(n >= 0)
        eng.assume(z3.ForAll([i], z3.Implies(z3.And(0 <= i, i < n), z3.And(z3.Length(sq.at(r, i)) > 0, z3.Contains(e, sq.at(r, i)),
                                                                         z3.Not(z3.Contains(sq.at(r, i), z3.StringVal(' ')))))))
        eng.assume(z3.Implies(z3.And(z3.Length(e) > 0, z3.Not(z3.PrefixOf(z3.StringVal(' '), e))), n >= 1))
        eng.assume(z3.Implies(z3.And(n > 0, z3.Not(z3.PrefixOf(z3.StringVal(' '), e))), z3.PrefixOf(sq.at(r, 0), e)))
        eng.assume(z3.Implies(z3.And(z3.Length(e) > 0, z3.Not(z3.Contains(e, z3.StringVal(' ')))), z3.And(n == 1, sq.at(r, 0) == e)))
        return Box(sq, r)
    if len(args) != 1 or not isinstance(args[0], str) or len(args[0]) != 1:
        raise EngineError('split needs one concrete single-character separator')
    sep = z3.StringVal(args[0])
    sq = TSeq(TStr)
    r = eng.fresh(sq, 'split')
    n = sq.len(r)
    i = z3.FreshInt('pi')
    eng.assume(n >= 1)
    # pieces contain no separator
    eng.assume(z3.ForAll([i], z3.Implies(z3.And(0 <= i, i < n), z3.Not(z3.Contains(sq.at(r, i), sep)))))
    # the three small cases are stated exactly; longer ones only by the number of separators
    eng.assume(z3.Implies(z3.Not(z3.Contains(e, sep)), z3.And(n == 1, sq.at(r, 0) == e)))
    eng.assume(z3.Implies(z3.Contains(e, sep), n >= 2))
    eng.assume(z3.Implies(n == 2, e == z3.Concat(sq.at(r, 0), sep, sq.at(r, 1))))
    eng.assume(z3.Implies(n == 1, sq.at(r, 0) == e))
    return Box(sq, r)

# ---------------------------------------------------------------------------------- comprehension


def comprehension(eng, node, env, kind):
    if len(node.generators) != 1 or node.generators[0].is_async:
        raise EngineError('nested comprehension')
    g = node.generators[0]
    it = make_iter(eng, eng.eval(g.iter, env))

    def elem(sub):
        if kind == 'dict':
            return (eng.eval(node.key, sub), eng.eval(node.value, sub))
        return eng.eval(node.elt, sub)
    if it.concrete is not None:
        out = []
        for x in it.concrete:
            sub = Env(env, {})
            eng.assign(g.target, x, sub)
            ok = True
            for c in g.ifs:
                t = eng.truth(eng.eval(c, sub))
                tv = t if isinstance(t, bool) else (eng.branch(t) if not eng.spec else None)
                if tv is None:
                    raise EngineError('symbolic filter in spec comprehension')
                if not tv:
                    ok = False
                    break
            if ok:
                out.append(elem(sub))
        if kind == 'list':
            return new_list(eng, out)
        if kind == 'gen':
            return IterV(None, None, concrete=out)
        if kind == 'set':
            return new_set(eng, out)
        return new_dict(eng, out)
    if g.ifs and kind == 'dict':
        return dict_from_pairs(eng, it, g, env, elem)      # {k(x): v(x) for x in S if p(x)}: the filter is part of the facts
    if g.ifs:
        if kind not in ('gen', 'list', 'set'):
            raise EngineError('filtered %s comprehension over a symbolic sequence' % kind)
        res = filtered_iter(eng, it, g, env, elem)
        if kind == 'set':
            return b_set(eng, res)           # {e(x) for x in S if p(x)}: exactly the selected elements' images
        if kind == 'list':
            try:
                return iter_to_list(eng, res)
            except EngineError:
                return res                   # elements are abstract objects: an immutable view (len / iteration / indexing)
        return res
    if kind == 'dict':
        return dict_from_pairs(eng, it, g, env, elem)
    if kind not in ('gen', 'list'):
        raise EngineError('%s comprehension over a symbolic sequence' % kind)

    def get(i):
        sub = Env(env, {})
        eng.assign(g.target, it.get(i), sub)
        eng.spec += 1
        try:
            return elem(sub)
        finally:
            eng.spec -= 1
    if kind == 'list' and not eng.spec and _may_raise(node.elt):
        # a list comprehension evaluates every element: an exception in the element at some position is an exception of the
        # comprehension.  The element is evaluated once, as code, at an arbitrary position (the later, lazy evaluations of
        # elements are pure)
        n_ = it.n if not isinstance(it.n, int) else z3.IntVal(it.n)
        if eng.branch(n_ > 0):
            k_ = z3.FreshInt('ce')
            eng.assume(z3.And(0 <= k_, k_ < n_))
            sub = Env(env, {})
            eng.assign(g.target, it.get(k_), sub)
            elem(sub)
    res = IterV(it.n, get)
    if hasattr(it, 'tag'):
        res.tag = it.tag                 # what a contract attached to the traversed abstract collection
    if hasattr(it, 'shift'):
        res.shift = it.shift
    if kind == 'list':
        return iter_to_list(eng, res)
    return res

def _may_raise(expr):
    """can evaluating this expression raise?  (a subscript, a call, an attribute access, arithmetic)"""
    import ast
    return any(isinstance(x, (ast.Subscript, ast.Call, ast.Attribute, ast.BinOp, ast.UnaryOp)) for x in ast.walk(expr))


def dict_from_pairs(eng, it, g, env, elem):
    """{k(x): v(x) for x in S [if p(x)]} over a symbolic S: a fresh map of which only true facts are stated (an
    under-specification: the insertion order is not described): every key(i) [with p] is present; a key maps to the value of
    its last occurrence; every key of the map comes from some element [with p] (Skolem witness)."""
    def kv(i):
        sub = Env(env, {})
        eng.assign(g.target, it.get(i), sub)
        eng.spec += 1
        try:
            return elem(sub)
        finally:
            eng.spec -= 1
    def cond(i):
        # the filter of the comprehension at position i (a pure expression of the element); True without one
        if not g.ifs:
            return z3.BoolVal(True)
        sub = Env(env, {})
        eng.assign(g.target, it.get(i), sub)
        eng.spec += 1
        try:
            return eng._b(eng.And(*[eng.truth(eng.eval(c, sub)) for c in g.ifs]))
        finally:
            eng.spec -= 1
    pk, pv = kv(z3.Int('probe!'))
    kt, vt = type_of(pk), type_of(pv)
    if kt is None or vt is None:
        raise EngineError('cannot type dict comprehension')
    mt = TMap(kt, vt)
    m = eng.fresh(mt, 'dcomp')
    n = _int(it.n)
    i, j = z3.FreshInt('di'), z3.FreshInt('dj')
    w = z3.Function('dcomp_w!%d' % eng.fresh_n, kt.sort(), z3.IntSort())
    eng.fresh_n += 1
    ki, vi = kv(i)
    kj, _ = kv(j)
    ke, ve = to_z3(ki, kt), to_z3(vi, vt)
    eng.assume(z3.ForAll([i], z3.Implies(z3.And(0 <= i, i < n, cond(i)), mt.has(m, ke))))
    eng.assume(z3.ForAll([i], z3.Implies(z3.And(0 <= i, i < n, cond(i),
                                                z3.ForAll([j], z3.Implies(z3.And(i < j, j < n, cond(j)), to_z3(kj, kt) != ke))),
                                         mt.at(m, ke) == ve)))
    kk = z3.FreshConst(kt.sort(), 'dk')
    kw, _ = kv(w(kk))
    eng.assume(z3.ForAll([kk], z3.Implies(mt.has(m, kk), z3.And(0 <= w(kk), w(kk) < n, cond(w(kk)), to_z3(kw, kt) == kk))))
    eng.assume(mt.n(m) <= z3.If(n > 0, n, 0))
    return Box(mt, m)


def filtered_iter(eng, it, g, env, elem):
    """(elem for x in S if p(x)) over a symbolic S: the selected elements in order.  Modelled by an increasing index
    map ix: [0, L) -> [0, n) onto the positions where p holds, with inverse rk (no existential quantifier).  The
    functions are named by the contract's `filters` table (condition source -> name) so that specifications can refer
    to them as <name>_ix / <name>_rk / <name>_len; p must be a pure function of the element."""
    cond_src = ' and '.join(ast.unparse(c) for c in g.ifs)
    name = eng.filters.get(cond_src)
    if name is None:
        eng.fresh_n += 1
        name = 'filt%d' % eng.fresh_n
    if isinstance(name, tuple):
        # (name, context variable): one index map per value of the context (e.g. per element of an enclosing loop):
        # <name>_ix(ctx, k), <name>_rk(ctx, i), <name>_len(ctx)
        name, ctxvar = name
        cv = env.lookup(ctxvar)
        cv = cv.__dict__['ctx_key'] if isinstance(cv, Obj) and 'ctx_key' in cv.__dict__ else cv
        cty = type_of(cv)
        ce = to_z3(cv, cty)
        ix_, rk_, L_ = (eng.uf(name + '_ix', [cty, TInt], TInt), eng.uf(name + '_rk', [cty, TInt], TInt),
                        eng.uf(name + '_len', [cty], TInt))
        ix, rk, L = (lambda a: ix_(ce, a)), (lambda a: rk_(ce, a)), L_(ce)
    else:
        ix = eng.uf(name + '_ix', [TInt], TInt)
        rk = eng.uf(name + '_rk', [TInt], TInt)
        L = z3.Int(name + '_len')
    n = _int(it.n)

    def p(i):
        sub = Env(env, {})
        eng.assign(g.target, it.get(i), sub)
        eng.spec += 1
        try:
            return eng._b(eng.And(*[eng.truth(eng.eval(c, sub)) for c in g.ifs]))
        finally:
            eng.spec -= 1
    a, b, i = z3.FreshInt('fa'), z3.FreshInt('fb'), z3.FreshInt('fi')
    eng.assume(z3.And(0 <= L, L <= n))
    eng.assume(z3.ForAll([a], z3.Implies(z3.And(0 <= a, a < L), z3.And(0 <= ix(a), ix(a) < n, p(ix(a)), rk(ix(a)) == a))))
    eng.assume(z3.ForAll([a, b], z3.Implies(z3.And(0 <= a, a < b, b < L), ix(a) < ix(b))))
    eng.assume(z3.ForAll([i], z3.Implies(z3.And(0 <= i, i < n, p(i)), z3.And(0 <= rk(i), rk(i) < L, ix(rk(i)) == i))))

    def get(k):
        sub = Env(env, {})
        eng.assign(g.target, it.get(ix(_int(k))), sub)
        eng.spec += 1
        try:
            return elem(sub)
        finally:
            eng.spec -= 1
    r = IterV(L, get)
    r.lazy_ok = True
    return r

# ---------------------------------------------------------------------------------- model read-back


def concretize(eng, v, m, cap=8):
    def ev(e):
        return m.eval(e, model_completion=True)
    if isinstance(v, Box):
        if v.ty is None and v.cd is not None:
            return {'__map__': [[concretize(eng, k, m, cap), concretize(eng, x, m, cap)] for k, x in v.cd.items()], 'n': len(v.cd)}
        if v.ty is None:
            return {'list': [], 'dict': {}, 'set': []}[v.kind]
        v = SV(v.ty, v.e)
    if isinstance(v, (tuple, list)):
        return [concretize(eng, x, m, cap) for x in v]
    if isinstance(v, Obj):
        return {'__obj__': v.cls, **{k: concretize(eng, x, m, cap) for k, x in v.attrs.items()}}
    if not isinstance(v, SV):
        if isinstance(v, (int, float, str, bool)) or v is None:
            return v
        return repr(v)
    ty, e = v.ty, v.e
    if ty == TInt:
        return ev(e).as_long()
    if ty == TBool:
        return z3.is_true(ev(e))
    if ty == TStr:
        return ev(e).as_string()
    if ty == TReal:
        r = ev(e)
        try:
            return float(r.numerator_as_long()) / float(r.denominator_as_long())
        except Exception:
            return str(r)
    if isinstance(ty, TOpt):
        if z3.is_true(ev(ty.is_none(e))):
            return None
        return concretize(eng, SV(ty.t, ty.get(e)), m, cap)
    if isinstance(ty, TTuple):
        return [concretize(eng, SV(t, ty.get(e, i)), m, cap) for i, t in enumerate(ty.ts)]
    if isinstance(ty, TSeq):
        n = ev(ty.len(e)).as_long()
        return [concretize(eng, SV(ty.t, ty.at(e, z3.IntVal(i))), m, cap) for i in range(max(0, min(n, cap)))] + \
            (['...(len %d)' % n] if n > cap else [])
    if isinstance(ty, TMap):
        n = ev(ty.n(e)).as_long()
        out = []
        for i in range(max(0, min(n, cap))):
            k = ty.key_at(e, z3.IntVal(i))
            out.append([concretize(eng, SV(ty.k, k), m, cap), concretize(eng, SV(ty.v, ty.at(e, k)), m, cap)])
        return {'__map__': out, 'n': n}
    if isinstance(ty, TSet):
        return {'__set__': str(ev(e))}
    return str(ev(e))

# ---------------------------------------------------------------------------------- installation


def install(eng):
    B = eng.builtins

    def reg(name, fn):
        B[name] = Builtin(fn, name)
    reg('len', b_len)
    reg('range', b_range)
    reg('enumerate', b_enumerate)
    reg('zip', b_zip)
    reg('reversed', b_reversed)
    reg('min', lambda e, *a, **k: _minmax(e, False, a, k))
    reg('max', lambda e, *a, **k: _minmax(e, True, a, k))
    reg('abs', b_abs)
    reg('isinstance', b_isinstance)
    reg('int', b_int)
    reg('bool', b_bool)
    reg('float', b_float)
    reg('str', b_str)
    reg('tuple', b_tuple)
    reg('list', b_list)
    reg('set', b_set)
    reg('frozenset', b_set)
    reg('dict', b_dict)
    reg('all', b_all)
    reg('any', b_any)
    reg('sum', b_sum)
    reg('getattr', b_getattr)
    reg('hasattr', b_hasattr)
    reg('sorted', b_sorted)
    reg('print', lambda e, *a, **k: None)
    reg('iter', lambda e, x: x if isinstance(x, StatefulIter) else StatefulIter(make_iter(e, x)))

    def b_next(e, it, *default):
        if isinstance(it, StatefulIter):
            if it.dead:
                raise EngineError('iterator used again after a traversal')
            base = it.base
            if base.concrete is not None:
                if it.pos < len(base.concrete):
                    it.pos += 1
                    return base.concrete[it.pos - 1]
                if default:
                    return default[0]
                e.maybe_raise(False, 'StopIteration')
            if e.branch(_int(base.n) > _int(it.pos)):
                x = base.get(_int(it.pos))
                it.pos = it.pos + 1 if isinstance(it.pos, int) else z3.simplify(it.pos + 1)
                return x
            if default:
                return default[0]
            e.maybe_raise(False, 'StopIteration')
        it = make_iter(e, it)
        if it.concrete is not None:
            if it.concrete:
                return it.concrete[0]
            if default:
                return default[0]
            e.maybe_raise(False, 'StopIteration')
        if default:
            raise EngineError('next() with default on a symbolic iterator')
        e.maybe_raise(_int(it.n) > 0, 'StopIteration')
        return it.get(z3.IntVal(0))      # of a fresh iterator: its first element (for a set: an arbitrary member)
    reg('next', b_next)
    reg('id', lambda e, x: id(x))
    # spec helpers (also usable by ghost code)
    reg('implies', lambda e, a, b: e.Or(e.Not(e.truth(a)), e.truth(b)))
    reg('iff', lambda e, a, b: e._b(e.truth(a)) == e._b(e.truth(b)))
    reg('ite', lambda e, c, a, b: e.ite(e.truth(c), a, b))
    reg('dom', lambda e, m: Box(TSet(type_of(m).k), type_of(m).dom(to_z3(m))))
    reg('is_none', lambda e, x: e.eq(x, None))
    # the payload of an optional value (total: meaningful where the value is not None)
    reg('payload', lambda e, x: wrap(x.ty.t, x.ty.get(x.e)) if isinstance(x, SV) and isinstance(x.ty, TOpt) else x)

    def raw_eq(e, a, b):
        ta = type_of(a) or type_of(b)
        return to_z3(a, ta) == to_z3(b, ta)
    reg('raw_eq', raw_eq)

    def set_heap(e, name, value):
        if isinstance(value, Box):
            value = Box(value.ty, value.e)
        e.heap[name] = value
    reg('set_heap', set_heap)   # ghost: assign a global ghost variable      # identity of two stored values (z3 term equality), stronger than python ==
    reg('int_of_str', lambda e, x: wrap(TInt, e.uf('int_of_cstr', [TCStr], TInt)(to_z3(x, TCStr))) if type_of(x) == TCStr
        else wrap(TInt, e.uf('int_of_str', [TStr], TInt)(to_z3(x, TStr))))
    reg('is_int_literal', lambda e, x: e.uf('is_int_literal_c', [TCStr], TBool)(to_z3(x, TCStr)) if type_of(x) == TCStr
        else e.uf('is_int_literal', [TStr], TBool)(to_z3(x, TStr)))

    def prove(e, cond, name='assert'):
        sp = e.spec
        e.spec = 0
        try:
            e.oblige(e._b(e.truth(cond)), 'assert:%s' % name)
        finally:
            e.spec = sp
    reg('prove', prove)

    def use_lemma(e, name, *args):
        lem = e.lemmas.get(name)
        if lem is None:
            raise EngineError('unknown lemma %s' % name)
        lem.apply(e, args)
    reg('use_lemma', use_lemma)
    B['ANY'] = ANY
    reg('keyat', lambda e, m, i: wrap(type_of(m).k, type_of(m).key_at(to_z3(m), _int(e.num(i)))))
    reg('posof', lambda e, m, k: wrap(TInt, z3.Select(type_of(m).pos(to_z3(m)), to_z3(k, type_of(m).k))))
    B['TInt'], B['TStr'], B['TBool'], B['TReal'] = TInt, TStr, TBool, TReal
    B['TOpt'] = Builtin(lambda e, t: TOpt(t), 'TOpt')
    for n in ('int', 'str', 'float', 'bool', 'tuple', 'list', 'dict', 'set'):
        B[n].pytype = PyType(n)
    for n in ['KeyError', 'IndexError', 'ValueError', 'TypeError', 'IOError', 'OSError', 'AttributeError',
              'StopIteration', 'AssertionError', 'NameError', 'Exception', 'LookupError', 'ZeroDivisionError',
              'NotImplementedError', 'RuntimeError', 'FileNotFoundError', 'BaseException']:
        B[n] = ExcClass(n)
    M = eng.methods
    M[('PArr', 'round')] = lambda e, a, n=0: a.like(e.uf('round_', [TReal, TInt], TReal)(a.e, _int(e.num(n))))
    M[('list', 'append')] = list_append
    M[('list', 'extend')] = list_extend
    M[('list', 'pop')] = list_pop
    M[('list', 'popleft')] = lambda e, b: list_pop(e, b, 0)      # collections.deque
    M[('list', 'index')] = list_index
    M[('list', 'count')] = list_count
    M[('list', 'remove')] = list_remove
    M[('list', 'copy')] = list_copy
    M[('dict', 'get')] = dict_get
    M[('cdict', 'get')] = dict_get
    M[('dict', 'items')] = dict_items
    M[('cdict', 'items')] = dict_items
    M[('dict', 'keys')] = dict_keys
    M[('dict', 'values')] = dict_values
    M[('cdict', 'values')] = dict_values
    M[('dict', 'pop')] = dict_pop
    M[('dict', 'setdefault')] = dict_setdefault
    M[('dict', 'update')] = dict_update
    M[('dict', 'copy')] = list_copy
    M[('set', 'add')] = set_add
    M[('set', 'discard')] = set_discard
    M[('set', 'pop')] = set_pop
    M[('set', 'remove')] = set_remove
    M[('set', 'update')] = set_update
    M[('set', 'union')] = set_union
    M[('set', 'copy')] = list_copy

    def set_issubset(e, a, b):
        # a.issubset(b): every element of a is in b (b: a set, or any iterable of a concrete / symbolic collection)
        if isinstance(a, Box) and a.ty is None and not a.cd:
            return True
        ta = type_of(a)
        if not isinstance(ta, TSet):
            raise EngineError('issubset of an untyped set')
        if isinstance(b, Box) and b.ty is None and not b.cd:
            return wrap(TBool, to_z3(a) == ta.empty())
        if type_of(b) != ta:
            raise EngineError('issubset of sets of different element types')
        x = z3.FreshConst(ta.t.sort(), 'ss')
        return wrap(TBool, z3.ForAll([x], z3.Implies(z3.Select(to_z3(a), x), z3.Select(to_z3(b), x))))
    M[('set', 'issubset')] = set_issubset
    M[('cstr', 'find')] = lambda e, s, c: cstr_find(e, s, c, False)
    M[('cstr', 'rfind')] = lambda e, s, c: cstr_find(e, s, c, True)
    M[('cstr', 'split')] = lambda e, s, sep, maxsplit=-1: cstr_split1(e, s, sep, maxsplit, False)
    M[('cstr', 'rsplit')] = lambda e, s, sep, maxsplit=-1: cstr_split1(e, s, sep, maxsplit, True)
    for n in ('isdigit', 'isalpha', 'isspace', 'isupper'):
        M[('Char', n)] = char_pred(n)
        M[('cstr', n)] = cstr_all_pred(n)
    B['TCStr'], B['TChar'] = TCStr, TChar
    for n in ('split', 'rsplit', 'strip', 'lstrip', 'rstrip', 'startswith', 'endswith', 'isdigit', 'join', 'format',
              'find', 'lower', 'upper', 'replace', 'rjust', 'ljust', 'isalpha', 'title', 'capitalize', 'count',
              'index', 'rfind', 'partition', 'rpartition', 'zfill', 'isspace', 'isupper', 'islower'):
        M[('str', n)] = str_method(n)

    # uninterpreted function registry
    ufs = {}

    def uf(name, arg_tys, res_ty):
        key = name
        if key not in ufs:
            ufs[key] = z3.Function(name, *[t.sort() for t in arg_tys], res_ty.sort())
        return ufs[key]
    eng.uf = uf
    eng.ufs = ufs
    # externals
    EXTERNAL_MODULES['logging'] = ModuleV('logging', dict(WARNING=30, ERROR=40, INFO=20, DEBUG=10, CRITICAL=50))
    EXTERNAL_MODULES['argparse'] = ModuleV('argparse', dict(ArgumentTypeError=ExcClass('ArgumentTypeError')))
    def np_sign(e, x):
        v = e.num(x)
        if isinstance(v, (int, float)):
            return (v > 0) - (v < 0)
        return e.numval(z3.If(v > 0, 1, z3.If(v < 0, -1, 0)))
    def np_exp(e, x):
        f = e.uf('exp_', [TReal], TReal)
        if isinstance(x, PArr):
            return x.like(f(x.e))
        return wrap(TReal, f(_real(e.num(x))))

    def np_abs(e, x):
        if isinstance(x, PArr):
            return x.like(z3.If(x.e >= 0, x.e, -x.e))
        v = e.num(x)
        if isinstance(v, (int, float)):
            return abs(v)
        return e.numval(z3.If(v >= 0, v, -v))

    def np_all(e, x):
        # numpy.all of a scalar truth value is that value
        if isinstance(x, bool) or (isinstance(x, SV) and x.ty == TBool) or z3.is_bool(x):
            return x
        raise EngineError('numpy.all of a non-scalar')

    def np_fill_diagonal(e, arr, v):
        arr.e = z3.If(arr.diag, _real(e.num(v)), arr.e)
    EXTERNAL_MODULES['numpy'] = ModuleV('numpy', dict(sign=Builtin(np_sign, 'numpy.sign'), exp=Builtin(np_exp, 'numpy.exp'),
                                                      abs=Builtin(np_abs, 'numpy.abs'), all=Builtin(np_all, 'numpy.all'), absolute=Builtin(np_abs, 'numpy.absolute'),
                                                      fill_diagonal=Builtin(np_fill_diagonal, 'numpy.fill_diagonal')))
    def namedtuple(e, name, fields):
        names = fields.split() if isinstance(fields, str) else list(e.concrete_list(fields))

        def make(e2, *args, **kw):
            vals = dict(zip(names, args))
            vals.update(kw)
            o = Obj(name, **vals)
            o.__dict__['nt_fields'] = names
            return o
        return Builtin(make, name)

    def defaultdict(e, factory=None, *args):
        b = Box(None, kind='dict')
        if factory is not None:
            b.default = lambda eng: eng.call(factory, [], {})
        return b
    EXTERNAL_MODULES['collections'] = ModuleV('collections', dict(namedtuple=Builtin(namedtuple, 'namedtuple'),
                                                                  defaultdict=Builtin(defaultdict, 'defaultdict')))
    EXTERNAL_MODULES['copy'] = ModuleV('copy', dict(copy=Builtin(lambda e, x: list_copy(e, x) if isinstance(x, (Box, SV)) else x, 'copy.copy')))
    abc = ModuleV('collections.abc', dict(Sequence=PyType('Sequence'), Hashable=PyType('Hashable')))
    EXTERNAL_MODULES['collections.abc'] = abc
    EXTERNAL_MODULES['collections'].attrs['abc'] = abc
    def it_count(e, start=0, step=1):
        st, sp = _int(e.num(start)), _int(e.num(step))
        it = IterV(None, lambda i: wrap(TInt, z3.simplify(st + sp * _int(i))))
        it.infinite = True
        return it
    EXTERNAL_MODULES['itertools'] = ModuleV('itertools', dict(count=Builtin(it_count, 'itertools.count')))
    # collections.deque(): an empty double-ended queue, modelled as a list (append / popleft / iteration)
    EXTERNAL_MODULES['collections'].attrs['deque'] = Builtin(lambda e: Box(None, kind='list'), 'collections.deque')
    EXTERNAL_MODULES['numbers'] = ModuleV('numbers', dict(Integral=PyType('Integral'), Number=PyType('Number'),
                                                          Real=PyType('Number')))

"""
pyvc.values -- run-time values of the symbolic interpreter.

Concrete python values (int, bool, float, str, None, tuple) are used as they are; everything the
solver has to reason about is an SV (immutable, typed z3 expression) or a mutable container
(MList / MDict / MSet) whose *content* is a z3 expression that is replaced on mutation.  Mutable
containers have reference semantics for free because they are python objects of the interpreter.
"""
import z3
from .types import *


class EngineError(Exception):
    """construct or type outside the supported subset: the function is out of reach (never a violation)."""


class SV:
    __slots__ = ('ty', 'e')

    def __init__(self, ty, e):
        self.ty, self.e = ty, e

    def __repr__(self):
        return 'SV(%s, %s)' % (self.ty, self.e)


class Box:
    """mutable container: content is a z3 expr of sort ty.sort(); may forward to a slot of a parent."""
    kind = 'box'

    def __init__(self, ty, e=None, kind=None):
        self.ty = ty           # None = not typed yet (empty literal); typed on first use
        self.kind = kind or {TSeq: 'list', TMap: 'dict', TSet: 'set'}.get(type(ty))
        self._e = e if e is not None else (ty.empty() if ty is not None else None)
        self._fwd = None       # (parent Box of TMap/TSeq type, key z3 expr)
        self.default = None    # defaultdict factory: callable -> value
        self.inner_default = None   # default factory of the containers stored in this one
        self.frozen = False
        self.cd = None         # concrete-key mode of a dict literal: python dict key -> value (heterogeneous values)
        self.counter = False   # collections.Counter semantics: a missing key reads as 0 (no insertion)

    @property
    def e(self):
        if self._fwd is not None:
            p, k = self._fwd
            return p.ty.at(p.e, k)
        return self._e

    @e.setter
    def e(self, new):
        if self.frozen:
            raise EngineError('mutation of a frozen (old) snapshot')
        if self._fwd is not None:
            p, k = self._fwd
            if isinstance(p.ty, TMap):
                p.e = p.ty.insert(p.e, k, new)
            else:
                p.e = p.ty.mk(p.ty.len(p.e), z3.Store(p.ty.arr(p.e), k, new))
        else:
            self._e = new

    def set_type(self, ty):
        if self.ty is None:
            self.ty = ty
            self._e = ty.empty()
        elif self.ty != ty:
            raise EngineError('container of type %s used as %s' % (self.ty, ty))

    def __repr__(self):
        return 'Box(%s, %s)' % (self.ty, self.e if self.ty is not None else 'empty')


class Obj:
    """python object with attributes (instances of repo classes, records)."""

    def __init__(self, cls, **attrs):
        self.__dict__['cls'] = cls
        self.__dict__['attrs'] = dict(attrs)

    def __repr__(self):
        return 'Obj<%s>(%s)' % (self.cls, ', '.join(self.attrs))


class NT(tuple):
    """a namedtuple value: exploded tuple with field names."""

    def __new__(cls, vals, names, tname='NT'):
        o = tuple.__new__(cls, vals)
        o._names = list(names)
        o._tname = tname
        return o


# injections of concrete sorts into an abstract value sort, declared by a contract's setup:
# COERCIONS[('Int', 'Val')] = int2val stores integers in a map whose values are of the abstract sort Val
COERCIONS = {}


class PArr:
    """a numpy array seen at one arbitrary index: element-wise code is verified pointwise (the same formula at every
    index); masks are booleans at that index.  `diag` says whether the index lies on the diagonal."""

    def __init__(self, e, diag=None, idx=None):
        # idx = (I, J): the z3 constants that stand for the arbitrary index; arr[a, b] substitutes them
        self.e, self.diag, self.idx = e, diag, idx

    def like(self, e):
        return PArr(e, self.diag, self.idx)

    def at(self, *ix):
        import z3
        if self.idx is None or len(ix) != len(self.idx):
            raise EngineError('element of a pointwise array without index constants')
        return z3.substitute(self.e, *list(zip(self.idx, ix)))


class IterV:
    """a lazily described finite sequence: n (int or z3 Int) and get(i) -> value."""

    def __init__(self, n, get, concrete=None):
        self.n, self.get, self.concrete = n, get, concrete


def is_sym(v):
    return isinstance(v, (SV, Box))


def lit(e):
    """z3 literal -> python value, else None"""
    if z3.is_int_value(e):
        return e.as_long()
    if z3.is_true(e):
        return True
    if z3.is_false(e):
        return False
    if z3.is_string_value(e):
        return e.as_string()
    return None


def wrap(ty, e, parent=None, key=None):
    """z3 expr of type ty -> interpreter value. tuples are exploded; literals become concrete."""
    if isinstance(ty, TTuple):
        vals = tuple(wrap(t, ty.get(e, i)) for i, t in enumerate(ty.ts))
        return NT(vals, ty.names, ty.name) if ty.names else vals
    if isinstance(ty, (TInt.__class__, TBool.__class__, TStr.__class__)):
        v = lit(e)
        if v is not None:
            return v
    if isinstance(ty, TOpt):
        if z3.is_app(e) and e.decl().name() == 'none':
            return None
    if isinstance(ty, (TSeq, TMap, TSet)) and parent is not None:
        b = Box(ty)
        b._fwd = (parent, key)
        b.default = parent.inner_default
        return b
    return SV(ty, e)


def type_of(v):
    if isinstance(v, (SV, Box)):
        return v.ty
    if isinstance(v, bool):
        return TBool
    if isinstance(v, int):
        return TInt
    if isinstance(v, float):
        return TReal
    if isinstance(v, str):
        return TStr
    if isinstance(v, tuple):
        ts = [type_of(x) for x in v]
        if all(t is not None for t in ts):
            return TTuple(*ts)
    return None


def to_z3(v, ty=None):
    """interpreter value -> z3 expr (coerced to ty if given)."""
    if isinstance(ty, TTuple) and ty.names and isinstance(v, Box) and v.cd is not None:
        if set(v.cd) != set(ty.names):
            raise EngineError('dict keys %s do not match record %s' % (sorted(v.cd), ty.names))
        return ty.mk(*[to_z3(v.cd[n], t) for n, t in zip(ty.names, ty.ts)])
    if isinstance(ty, TKey) and isinstance(v, Box) and v.ty is None and not v.cd:
        return z3.Const('empty_' + ty.name, ty.sort())      # the empty dict literal as an opaque value of this sort
    if isinstance(v, Box) and v.ty is None and not v.cd and isinstance(ty, (TSeq, TMap, TSet)):
        return ty.empty()                                   # an empty literal ([] / {} / set()) where a typed container is expected
    if isinstance(v, Box):
        v = SV(v.ty, v.e)
    if isinstance(v, SV):
        if ty is None or v.ty == ty:
            return v.e
        if isinstance(ty, TOpt) and not isinstance(v.ty, TOpt):
            return ty.some(to_z3(v, ty.t))
        if ty == TReal and v.ty == TInt:
            return z3.ToReal(v.e)
        if ty == TInt and v.ty == TBool:
            return z3.If(v.e, 1, 0)
        inj = COERCIONS.get((v.ty.name, ty.name))
        if inj is not None:
            return inj(v.e)
        raise EngineError('cannot coerce %s to %s' % (v.ty, ty))
    if isinstance(ty, TKey) and isinstance(v, (int, str)) and not isinstance(v, bool):
        inj = COERCIONS.get(('Int' if isinstance(v, int) else 'Str', ty.name))
        if inj is not None:
            import z3 as _z3
            return inj(_z3.IntVal(v) if isinstance(v, int) else _z3.StringVal(v))
    if ty is None:
        ty = type_of(v)
        if ty is None:
            raise EngineError('cannot type %r' % (v,))
    if isinstance(ty, TOpt):
        if v is None:
            return ty.none()
        return ty.some(to_z3(v, ty.t))
    if v is None:
        raise EngineError('None where %s expected' % ty)
    if isinstance(ty, TTuple) and isinstance(v, Obj) and 'nt_fields' in v.__dict__:
        v = tuple(v.attrs[f] for f in v.__dict__['nt_fields'])
    if isinstance(ty, TTuple) and ty.names and isinstance(v, Box) and v.cd is not None:
        # a dict literal with exactly the record's keys, stored as that record
        if set(v.cd) != set(ty.names):
            raise EngineError('dict keys %s do not match record %s' % (sorted(v.cd), ty.names))
        v = tuple(v.cd[n] for n in ty.names)
    if isinstance(ty, TTuple) and type(v).__name__ == 'ConcreteList':
        # a fixed-length heterogeneous list literal stored as a record (its later mutation is out of reach)
        v = tuple(v)
    if isinstance(ty, TTuple):
        if not isinstance(v, tuple) or len(v) != len(ty.ts):
            raise EngineError('tuple shape mismatch %r vs %s' % (v, ty))
        return ty.mk(*[to_z3(x, t) for x, t in zip(v, ty.ts)])
    if ty == TInt:
        if isinstance(v, bool):
            return z3.IntVal(1 if v else 0)
        if isinstance(v, int):
            return z3.IntVal(v)
    if ty == TBool and isinstance(v, bool):
        return z3.BoolVal(v)
    if ty == TReal and isinstance(v, (int, float)):
        return z3.RealVal(repr(v) if isinstance(v, float) else v)
    if ty == TStr and isinstance(v, str):
        return z3.StringVal(v)
    if ty == TChar and isinstance(v, str) and len(v) == 1:
        return z3.IntVal(ord(v))
    if ty == TCStr and isinstance(v, str):
        return TCStr.lit(v)
    if isinstance(v, Obj) and isinstance(ty, TKey) and isinstance(v.__dict__.get('ctx_key'), SV) and v.__dict__['ctx_key'].ty == ty:
        return v.__dict__['ctx_key'].e      # the view of an abstract object (a node's attribute dictionary) stored by its identity
    raise EngineError('cannot convert %r to %s' % (v, ty))

import argparse
import os
import sys

sys.path.insert(0, os.path.dirname(os.path.dirname(os.path.abspath(__file__))))


def main():
    ap = argparse.ArgumentParser()
    ap.add_argument('prop')
    ap.add_argument('--tier', default=os.environ.get('VERIF_TIER', 'quick'))
    a = ap.parse_args()
    seed = int(os.environ.get('VERIF_SEED', '0') or 0)
    from pyvc.runner import run_check
    try:
        rc = run_check('checks.' + a.prop.lower(), a.tier, seed)
    except Exception:
        import traceback
        traceback.print_exc()
        rc = 3
    sys.exit(rc)


if __name__ == '__main__':
    main()

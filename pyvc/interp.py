"""
pyvc.interp -- symbolic interpreter of (a subset of) python ASTs that generates and discharges
verification conditions.

* paths are explored by re-execution under a recorded decision prefix (no state copying);
* loops are cut at their invariants (sidecar contract, keyed by loop ordinal);
* calls to functions that have a contract are replaced by the contract (modular);
* every obligation is an SMT query  pc /\\ not(cond)  -> unsat = discharged, sat = failed (model kept),
  unknown = undecided.
"""
import ast
import os as _os
import time
import z3
from .types import *
from .values import *


class PathEnd(Exception):
    pass


class _Break(Exception):
    pass


class _Continue(Exception):
    pass


class _Return(Exception):
    def __init__(self, value):
        self.value = value


class PyExc(Exception):
    """a python exception raised by the interpreted program."""

    def __init__(self, name, args=(), line=0):
        Exception.__init__(self, name)
        self.name, self.exc_args, self.line = name, args, line


EXC_PARENTS = {
    'KeyError': 'LookupError', 'IndexError': 'LookupError', 'LookupError': 'Exception',
    'ValueError': 'Exception', 'TypeError': 'Exception', 'AttributeError': 'Exception',
    'IOError': 'OSError', 'OSError': 'Exception', 'FileNotFoundError': 'OSError', 'StopIteration': 'Exception',
    'AssertionError': 'Exception', 'NameError': 'Exception', 'ZeroDivisionError': 'ArithmeticError',
    'ArithmeticError': 'Exception', 'ArgumentTypeError': 'Exception', 'NotImplementedError': 'RuntimeError',
    'RuntimeError': 'Exception', 'Exception': 'BaseException', 'UnicodeDecodeError': 'ValueError',
    'UnboundLocalError': 'NameError',
}


def exc_isinstance(name, handler):
    if handler == 'IOError':
        handler = 'OSError'
    while name is not None:
        n = 'OSError' if name == 'IOError' else name
        if n == handler:
            return True
        name = EXC_PARENTS.get(name)
    return False


class ExcClass:
    def __init__(self, name):
        self.name = name

    def __repr__(self):
        return '<exc %s>' % self.name


class ExcValue:
    def __init__(self, name, args):
        self.name, self.args = name, args


class Closure:
    def __init__(self, node, env, qualname, module=None, defaults=None, kwdefaults=None):
        self.node, self.env, self.qualname, self.module = node, env, qualname, module
        self.defaults = defaults or []
        self.kwdefaults = kwdefaults or {}
        self.self_obj = None

    def bind(self, obj):
        c = Closure(self.node, self.env, self.qualname, self.module, self.defaults, self.kwdefaults)
        c.self_obj = obj
        return c

    def __repr__(self):
        return '<closure %s>' % self.qualname


class ClassV:
    def __init__(self, name, methods, attrs, bases=()):
        self.name, self.methods, self.attrs, self.bases = name, methods, attrs, bases

    def lookup(self, name):
        if name in self.methods:
            return self.methods[name]
        if name in self.attrs:
            return self.attrs[name]
        for b in self.bases:
            if isinstance(b, ClassV):
                r = b.lookup(name)
                if r is not None:
                    return r
        return None


def number_loops(stmts, prefix=''):
    """static loop numbers: '1', '2', ... in source order among the loops of one nesting level (through if / try / with
    bodies, not into nested functions), '1.1', '1.2' for the loops inside loop 1."""
    ctr = [0]

    def visit(sts):
        for st in sts:
            if isinstance(st, (ast.For, ast.While)):
                ctr[0] += 1
                st._loop_static = prefix + str(ctr[0])
                number_loops(list(st.body), st._loop_static + '.')
                visit(st.orelse)            # the else part of a loop runs after it: same nesting level
            elif isinstance(st, (ast.FunctionDef, ast.ClassDef, ast.AsyncFunctionDef)):
                continue
            else:
                for fld in ('body', 'orelse', 'finalbody'):
                    visit(getattr(st, fld, []) or [])
                for h in getattr(st, 'handlers', []) or []:
                    visit(h.body)
    visit(stmts)


class StarArgs:
    """f(*seq) with a sequence of symbolic length, handed to an assumed external that accepts it"""

    def __init__(self, seq):
        self.seq = seq


class StopExploration(Exception):
    """enough obligations of this function have failed: the verdict is known, further paths only cost time."""


class Builtin:
    """python-implemented primitive: fn(engine, *args, **kwargs)."""

    def __init__(self, fn, name=None):
        self.fn, self.name = fn, name or getattr(fn, '__name__', '?')

    def __repr__(self):
        return '<builtin %s>' % self.name


class ModuleV:
    def __init__(self, name, attrs=None):
        self.name, self.attrs = name, attrs or {}

    def __repr__(self):
        return '<module %s>' % self.name


class Env:
    def __init__(self, parent=None, vars=None):
        self.parent, self.vars = parent, vars if vars is not None else {}

    def lookup(self, name):
        e = self
        while e is not None:
            if name in e.vars:
                return e.vars[name]
            if e.lazy_has(name):
                return e.lazy_get(name)
            e = e.parent
        raise KeyError(name)

    def has(self, name):
        e = self
        while e is not None:
            if name in e.vars or e.lazy_has(name):
                return True
            e = e.parent
        return False

    def lazy_has(self, name):
        return False

    def lazy_get(self, name):
        raise KeyError(name)


class _Forgotten:
    """a local that the statements of a block contract assign but its contract does not describe: unusable afterwards"""

    def __init__(self, block):
        self.block = block


class BlockSpec:
    """A block contract: a contiguous run of statements of a function (a region) with its own precondition, postcondition,
    exceptional postconditions and frame.  The block is proved on its own as a region contract (`proved_by`, whose clauses
    this object shares literally); in the proof of the enclosing function the statements are replaced by the contract:
    the precondition is an obligation, everything in `modifies` / `assigns` is forgotten, the postcondition (with old()
    meaning the state at the beginning of the block) is assumed - or the block raises under its exceptional
    postcondition."""

    def __init__(self, name, region, requires=(), ensures=(), raises=None, allow_exc=(), modifies=(), assigns=None, proved_by=None):
        self.name, self.region = name, dict(region)
        self.requires, self.ensures = list(requires), list(ensures)
        self.raises = {k: list(v) for k, v in (raises or {}).items()}
        self.allow_exc = sorted(allow_exc)
        self.modifies = list(modifies)
        self.assigns = dict(assigns or {})      # the locals the block (re)binds, with their types
        self.proved_by = proved_by

    @classmethod
    def of(cls, contract, assigns=None, name=None):
        """the block contract of an existing region contract (same clauses, literally)"""
        if not contract.region:
            raise ValueError('a block contract is the contract of a region')
        a = dict(contract.locals)
        a.update(assigns or {})
        contract.is_block = True        # its own proof then has to show the frame: nothing outside `modifies` / its locals changes
        return cls(name or contract.short, contract.region, contract.requires, contract.ensures, contract.raises,
                   contract.allow_exc, contract.modifies, a, proved_by=contract)


class LoopSpec:
    def __init__(self, inv=(), modifies=(), locals=None, ghost_init=None, ghost_end=None, decreases=None,
                 ghost_pre=None, live=False):
        # live: a `for` over a list that the body changes: the iteration follows Python's list iterator (the element at the
        # running index of the list as it is now, until the index reaches the current length); `_i` is that index
        self.live = live
        self.inv, self.modifies = list(inv), list(modifies)
        self.locals = locals or {}
        self.ghost_init, self.ghost_end, self.decreases, self.ghost_pre = ghost_init, ghost_end, decreases, ghost_pre


class Ob:
    __slots__ = ('name', 'status', 'ms', 'model', 'path', 'line', 'backend', 'detail')

    def __init__(self, name, status, ms, model=None, path=None, line=0, backend='z3', detail=''):
        self.name, self.status, self.ms, self.model, self.path, self.line = name, status, ms, model, path, line
        self.backend, self.detail = backend, detail

    def as_dict(self):
        return dict(name=self.name, status=self.status, ms=round(self.ms, 1), line=self.line,
                    backend=self.backend, detail=self.detail, model=self.model)


def has_quant(e, seen=None):
    if seen is None:
        seen = set()
    stack = [e]
    while stack:
        x = stack.pop()
        i = x.get_id()
        if i in seen:
            continue
        seen.add(i)
        if z3.is_quantifier(x):
            return True
        stack.extend(x.children())
    return False


class _DualSolver:
    """full solver (all assumptions) for obligations + light solver (quantifier-free part only) that prunes
    infeasible branches quickly.  unsat of a subset of the assumptions implies unsat of all of them."""

    def __init__(self, timeout_ms, light_ms):
        self.full = z3.Solver()
        self.full.set('timeout', timeout_ms)
        self.light = z3.Solver()
        self.light.set('timeout', light_ms)
        self.timeout_ms = timeout_ms

    def add(self, e):
        self.full.add(e)
        if not has_quant(e):
            self.light.add(e)

    def push(self):
        self.full.push()

    def pop(self):
        self.full.pop()

    def set(self, k, v):
        self.full.set(k, v)

    def check(self):
        return self.full.check()

    def model(self):
        return self.full.model()

    def reason_unknown(self):
        return self.full.reason_unknown()

    def check_light(self, cond):
        self.light.push()
        if cond is not None:
            self.light.add(cond)
        r = self.light.check()
        self.light.pop()
        return r


def _size_terms(ty, e):
    out = []
    if isinstance(ty, TSeq):
        out.append(ty.len(e))
    elif isinstance(ty, TMap):
        out.append(ty.n(e))
        if isinstance(ty.v, (TMap, TSeq)):
            k = z3.FreshConst(ty.k.sort(), 'sk')
            inner = ty.v.n(ty.at(e, k)) if isinstance(ty.v, TMap) else ty.v.len(ty.at(e, k))
            out.append(inner)   # free k: harmless (bounds one arbitrary inner size) -- replaced below
            out.pop()
    elif isinstance(ty, TInt.__class__):
        out.append(e)
    return out


def _st(r):
    return 'unsat' if r == z3.unsat else ('sat' if r == z3.sat else 'unknown')


def assigned_names(stmts):
    names = set()
    for s in stmts:
        for n in ast.walk(s):
            if isinstance(n, ast.Name) and isinstance(n.ctx, (ast.Store, ast.Del)):
                names.add(n.id)
            elif isinstance(n, (ast.FunctionDef, ast.Lambda)):
                pass
    return names


class Engine:
    def __init__(self, timeout_ms=10000, max_paths=4000, branch_timeout_ms=250):
        self.timeout_ms, self.max_paths, self.branch_timeout_ms = timeout_ms, max_paths, branch_timeout_ms
        self.contracts = {}      # qualname -> FunctionContract (for modular calls)
        self.obs = {}            # (name, path-key) -> Ob
        self.builtins = {}
        self.methods = {}
        self.spec = 0
        self.solver = None
        self.decisions = []
        self.pos = 0
        self.fresh_n = 0
        self.loop_specs = {}
        self.loop_ctr = None
        self.npaths = 0
        self.reached_post = 0
        self.solver_ms = 0.0
        self.axioms = []          # z3 formulas assumed on every path (spec function definitions)
        self.assumed_log = []     # human readable list of assumptions used
        self.cur_fn = ''
        self.line = 0
        self.inputs = {}          # name -> value (for model read-back)
        self.lemmas = {}
        self.ghost_at = {}
        self.attr_hooks = {}
        self.filters = {}
        self.truth_hooks = {}
        self.concat_hooks = {}   # (literal prefix, abstract sort name) -> fn(engine, value): "<prefix>" + value
        self.join_hooks = {}     # separator -> fn(engine, pieces): meaning of sep.join(<symbolic pieces>)
        self.setattr_hooks = {}  # (kind, attr) -> fn(engine, value, new): attribute assignment on an abstract object
        self.stmt_ghosts = False
        self.format_hooks = {}
        self.block_nodes = {}      # id(first statement) -> (BlockSpec, number of statements): block contracts in force
        self.blocks_used = set()
        self._hv_ids = set()
        self.opaque_exprs = {}     # source text of a comprehension -> factory(engine): taken as that value, elements not evaluated
        self.heap = {}            # global ghost state (object heaps) visible to code hooks and to every spec
        from . import builtins as B
        B.install(self)

    # ------------------------------------------------------------------ path machinery
    def new_path(self):
        self.solver = _DualSolver(self.timeout_ms, self.branch_timeout_ms)
        self.pos = 0
        self.fresh_n = 0
        self.spec = 0
        self.inputs = {}
        self.heap = {}
        self.size_terms = []
        for a in self.axioms:
            self.solver.add(a)

    def explore(self, run):
        self.decisions = []
        self.npaths = 0
        while True:
            self.new_path()
            self.npaths += 1
            if self.npaths > self.max_paths:
                raise EngineError('more than %d paths' % self.max_paths)
            try:
                run()
            except PathEnd:
                pass
            except StopExploration:
                self.stopped_early = True
                break
            d = self.decisions[:self.pos]
            while d and d[-1][0] == len(d[-1][1]) - 1:
                d.pop()
            if not d:
                break
            d[-1][0] += 1
            self.decisions = d

    def path_key(self):
        return tuple(o[1][o[0]] for o in self.decisions[:self.pos])

    def choose(self, options):
        """options: list of labels. returns the label chosen on this path."""
        if self.pos < len(self.decisions):
            c, opts = self.decisions[self.pos]
        else:
            self.decisions.append([0, list(options)])
            c, opts = 0, options
        self.pos += 1
        return opts[c]

    def check(self, *extra, timeout=None):
        t0 = time.time()
        self.solver.push()
        if timeout:
            self.solver.set('timeout', timeout)
        for e in extra:
            self.solver.full.add(e)
        r = self.solver.check()
        m = None
        if r == z3.sat:
            m = self.solver.model()
        self.solver.pop()
        if timeout:
            self.solver.set('timeout', self.timeout_ms)
        self.solver_ms += (time.time() - t0) * 1000
        return r, m

    def check_light(self, cond):
        t0 = time.time()
        r = self.solver.check_light(cond)
        self.solver_ms += (time.time() - t0) * 1000
        return r

    def branch(self, cond):
        """fork on a z3 Bool (or python bool). returns the python bool taken on this path."""
        if isinstance(cond, bool):
            return cond
        v = lit(cond)
        if v is not None:
            return bool(v)
        if self.pos < len(self.decisions):
            lab = self.choose(None)
        else:
            rt = self.check_light(cond)
            rf = self.check_light(z3.Not(cond))
            opts = []
            if rt != z3.unsat:
                opts.append(True)
            if rf != z3.unsat:
                opts.append(False)
            if not opts:
                raise PathEnd()
            lab = self.choose(opts)
        self.solver.add(cond if lab else z3.Not(cond))
        return lab

    def assume(self, cond, why=None):
        if isinstance(cond, bool):
            if not cond:
                raise PathEnd()
            return
        self.solver.add(cond)

    def feasible(self):
        r = self.check_light(None)
        if r == z3.unsat:
            raise PathEnd()

    def _assumed_literally(self, cond):
        def conj(e, out):
            if z3.is_and(e):
                for c in e.children():
                    conj(c, out)
            else:
                out.append(e)
            return out
        want = conj(cond, [])
        if not want or len(want) > 64:
            return False
        have = set()
        for a in self.solver.full.assertions():
            for c in conj(a, []):
                have.add(c.get_id())
        return all(w.get_id() in have for w in want)

    def oblige(self, cond, name, line=None):
        """proof obligation: cond must follow from the path condition."""
        line = self.line if line is None else line
        key = (name, self.path_key())
        if key in self.obs:
            if not isinstance(cond, bool):
                self.solver.add(cond)
            return
        if isinstance(cond, bool) or lit(cond) is not None:
            c = cond if isinstance(cond, bool) else bool(lit(cond))
            if c:
                self.obs[key] = Ob(name, 'unsat', 0.0, path=key[1], line=line, backend='const')
                return
            r, m = self.check()
            st = _st(r)
            self.obs[key] = Ob(name, st, 0.0, model=self.model_str(m), path=key[1], line=line)
            if st != 'unsat':
                raise PathEnd()
            raise PathEnd()
        t0 = time.time()
        if self._assumed_literally(cond):
            # every conjunct of the obligation is, syntactically, a conjunct of what is assumed on this path (a clause of a block
            # contract restated by the enclosing contract, an invariant carried through): nothing for the solver to do
            self.obs[key] = Ob(name, 'unsat', 0.0, path=key[1], line=line, backend='syntactic')
            self.solver.add(cond)
            return
        r, m = self.check(z3.Not(cond))
        ms = (time.time() - t0) * 1000
        st = _st(r)
        detail = ''
        if st == 'unknown':
            detail = self.solver.reason_unknown()
            if _os.environ.get('PYVC_DUMP'):
                s_ = z3.Solver()
                s_.add(self.solver.full.assertions())
                s_.add(z3.Not(cond))
                fn_ = _os.path.join(_os.environ['PYVC_DUMP'], '%s_%d.smt2' % (name.replace(':', '_').replace('/', '_'), len(self.obs)))
                open(fn_, 'w').write(s_.to_smt2())
            # portfolio: the incremental solver gave up; the same query in fresh (non-incremental) solvers with other
            # random seeds.  Only a few times per function: a genuinely failing function fails many obligations.
            # the expensive second opinions once per obligation name (its other path instances fail the same way), and
            # for at most three names per function
            tried = self.__dict__.setdefault('portfolio_names', set())
            self.n_second = getattr(self, 'n_second', 0) + 1
            # small-scope search once per obligation name and for at most three names; fresh-solver re-checks at most 6 times
            self.n_portfolio = 99 if (name in tried or len(tried) >= 3) else 1
            tried.add(name)
            if self.n_second <= 6:
                for seed in (1, 2, 3):
                    if seed < 3:
                        s_ = z3.Solver()
                        s_.add(self.solver.full.assertions())
                        s_.add(z3.Not(cond))
                    else:
                        # the same query in a fresh z3 context (other term numbering: z3's search depends on it)
                        ctx_ = z3.Context()
                        s_ = z3.Solver(ctx=ctx_)
                        for a_ in self.solver.full.assertions():
                            s_.add(a_.translate(ctx_))
                        s_.add(z3.Not(cond).translate(ctx_))
                    s_.set('timeout', self.timeout_ms)
                    s_.set('random_seed', seed)
                    r3 = s_.check()
                    if r3 == z3.unsat:
                        st, detail = 'unsat', 'fresh solver, seed %d' % seed
                        break
                    if r3 == z3.sat and seed < 3:
                        st, m, detail = 'sat', s_.model(), 'fresh solver, seed %d' % seed
                        break
            # small-scope retry: a model of pc /\ not cond with small containers is still a counterexample
            for bound in ((1, 2, 3) if st == 'unknown' and self.n_portfolio <= 3 else ()):
                r2, m2 = self.check(z3.Not(cond), *[z3.And(t >= -bound - 1, t <= bound) for t in self.size_terms],
                                    timeout=self.timeout_ms)
                if r2 == z3.sat:
                    st, m, detail = 'sat', m2, 'small-scope(%d) model' % bound
                    break
                if r2 == z3.unsat:
                    continue
            ms = (time.time() - t0) * 1000
        self.obs[key] = Ob(name, st, ms, model=self.model_str(m) if m is not None else None, path=key[1],
                           line=line, detail=detail)
        if st != 'unsat' and _os.environ.get('PYVC_DEBUG'):
            print('   [debug] %s %s on path %s (%.0f ms)' % (name, st, key[1], ms))
        if st != 'unsat':
            self.n_failed = getattr(self, 'n_failed', 0) + 1
            if self.n_failed >= 8:
                raise StopExploration()
        self.solver.add(cond)

    def model_str(self, m):
        if m is None:
            return None
        out = {}
        for name, v in self.inputs.items():
            try:
                out[name] = self.concretize(v, m)
            except Exception as ex:   # pragma: no cover
                out[name] = '<%s>' % ex
        return out

    def concretize(self, v, m, cap=8):
        from .builtins import concretize
        return concretize(self, v, m, cap)

    def fresh(self, ty, hint='v'):
        self.fresh_n += 1
        e = z3.Const('%s!%d' % (hint, self.fresh_n), ty.sort())
        inv = ty.inv(e)
        if inv is not None:
            self.solver.add(inv)
        self.size_terms.extend(_size_terms(ty, e))
        return e

    def fresh_val(self, ty, hint='v', parent=None):
        return wrap(ty, self.fresh(ty, hint))

    def fresh_box(self, ty, hint='b'):
        return Box(ty, self.fresh(ty, hint))

    # ------------------------------------------------------------------ evaluation of spec strings
    def eval_spec(self, src, env):
        node = src if isinstance(src, ast.AST) else ast.parse(src.strip(), mode='eval').body
        self.spec += 1
        try:
            return self.eval(node, env)
        finally:
            self.spec -= 1

    def spec_truth(self, src, env):
        return self.truth(self.eval_spec(src, env))

    def exec_src(self, src, env):
        for st in ast.parse(_dedent(src)).body:
            self.exec(st, env)

    # ------------------------------------------------------------------ truth, equality, numbers
    def truth(self, v):
        if v is None:
            return False
        if isinstance(v, bool):
            return v
        if isinstance(v, (int, float)):
            return v != 0
        if isinstance(v, (str, tuple, list, dict, set, frozenset)):
            return len(v) > 0
        if isinstance(v, z3.BoolRef):
            return v
        if isinstance(v, SV):
            t = v.ty
            if t == TBool:
                return v.e
            if t in (TInt, TReal):
                return v.e != 0
            if t == TStr:
                return z3.Length(v.e) > 0
            if isinstance(t, TOpt):
                inner = self.truth(wrap(t.t, t.get(v.e)))
                return z3.And(z3.Not(t.is_none(v.e)), self._b(inner))
            if isinstance(t, TSeq):
                return t.len(v.e) > 0
            if isinstance(t, TMap):
                return t.n(v.e) > 0
            if isinstance(t, TTuple):
                return len(t.ts) > 0
            if isinstance(t, TSet):
                if self.spec or not z3.is_const(v.e) and not self._ground(v.e):
                    return v.e != t.empty()      # a set is true iff it is not the empty set (arrays are extensional)
                # in code: a fresh boolean b with b <=> exists x. x in S, Skolemised (b -> w in S) and as a clause
                # (x in S -> b); complete for sets given by comprehension, where extensionality is not
                self.fresh_n += 1
                b = z3.Bool('nonempty!%d' % self.fresh_n)
                w = z3.Const('member!%d' % self.fresh_n, t.t.sort())
                x_ = z3.Const('sx!%d' % self.fresh_n, t.t.sort())
                self.assume(z3.Implies(b, z3.Select(v.e, w)))
                self.assume(z3.ForAll([x_], z3.Implies(z3.Select(v.e, x_), b)))
                return b
            h = self.truth_hooks.get(t.name)
            if h is not None:
                return h(self, v)          # truthiness of an abstract object (e.g. a graph: non-empty), given by the contract
            raise EngineError('truth of %s' % t)
        if isinstance(v, Box) and v.ty is None:
            return bool(v.cd)                # an empty literal ([] / {} / set()) that nothing was put into yet
        if isinstance(v, Box):
            return self.truth(SV(v.ty, v.e))
        if isinstance(v, IterV):
            raise EngineError('truth of an iterator')
        if isinstance(v, Obj) and 'truth' in v.__dict__:
            return v.__dict__['truth']       # truthiness of an abstract object, given by the contract
        return True

    def _ground(self, e):
        """no free (bound-elsewhere) variables in the expression"""
        seen, stack = set(), [e]
        while stack:
            x = stack.pop()
            if x.get_id() in seen:
                continue
            seen.add(x.get_id())
            if z3.is_var(x):
                return False
            if z3.is_quantifier(x):
                continue
            stack.extend(x.children())
        return True

    def _b(self, x):
        return z3.BoolVal(x) if isinstance(x, bool) else x

    def Not(self, x):
        if isinstance(x, bool):
            return not x
        return z3.Not(x)

    def And(self, *xs):
        out = []
        for x in xs:
            if isinstance(x, bool):
                if not x:
                    return False
            else:
                out.append(x)
        if not out:
            return True
        return out[0] if len(out) == 1 else z3.And(*out)

    def Or(self, *xs):
        out = []
        for x in xs:
            if isinstance(x, bool):
                if x:
                    return True
            else:
                out.append(x)
        if not out:
            return False
        return out[0] if len(out) == 1 else z3.Or(*out)

    def eq(self, a, b):
        """python == on interpreter values -> bool or z3 Bool."""
        if isinstance(a, z3.BoolRef):
            a = SV(TBool, a)
        if isinstance(b, z3.BoolRef):
            b = SV(TBool, b)
        if isinstance(a, Box):
            a = SV(a.ty, a.e)
        if isinstance(b, Box):
            b = SV(b.ty, b.e)
        sa, sb = isinstance(a, SV), isinstance(b, SV)
        if not sa and not sb:
            if isinstance(a, tuple) and isinstance(b, tuple):
                if len(a) != len(b):
                    return False
                return self.And(*[self.eq(x, y) for x, y in zip(a, b)])
            if isinstance(a, Obj) and '__eq__' in a.attrs and a is not b:
                return self.truth(self.call(a.attrs['__eq__'], [b], {}))      # == of an abstract object: given by the contract
            if isinstance(a, (Obj, Closure, ExcClass)) or isinstance(b, (Obj, Closure, ExcClass)):
                return a is b
            return a == b
        if sb and not sa:
            a, b = b, a
            sa, sb = sb, sa
        # a is SV
        if not sb and isinstance(b, str) and a.ty == TChar:
            return a.e == ord(b) if len(b) == 1 else False
        if sa and sb and {a.ty, b.ty} == {TChar, TStr}:
            c, s_ = (a, b) if a.ty == TChar else (b, a)
            return z3.And(z3.Length(s_.e) == 1, z3.StrToCode(s_.e) == c.e)
        if not sb and isinstance(b, str) and a.ty == TCStr:
            return z3.And(TCStr.len(a.e) == len(b), *[TCStr.at(a.e, i) == ord(ch) for i, ch in enumerate(b)])
        if sa and sb and {a.ty, b.ty} == {TChar, TCStr}:
            c, s_ = (a, b) if a.ty == TChar else (b, a)
            return z3.And(TCStr.len(s_.e) == 1, TCStr.at(s_.e, 0) == c.e)
        if not sb:
            if b is None:
                return a.ty.is_none(a.e) if isinstance(a.ty, TOpt) else False
            if isinstance(a.ty, TOpt):
                return self.And(z3.Not(a.ty.is_none(a.e)), self.eq(wrap(a.ty.t, a.ty.get(a.e)), b))
            if isinstance(b, tuple):
                return False
            tb = type_of(b)
            if tb is None:
                return False
            if tb == a.ty or (a.ty in (TInt, TReal) and tb in (TInt, TReal, TBool)):
                return a.e == to_z3(b, a.ty if tb != TReal else None)
            if isinstance(a.ty, TKey):
                # an abstract value against a literal: equal iff the literal's image under the declared injection; without
                # one the engine does not know what the abstract sort stands for and must not guess "different"
                if (tb.name, a.ty.name) in COERCIONS:
                    return a.e == to_z3(b, a.ty)
                raise EngineError('comparison of an abstract %s value with the literal %r (no coercion declared)' % (a.ty, b))
            return False
        # both SV
        if a.ty == b.ty:
            if isinstance(a.ty, (TSeq, TMap)):
                return self.container_eq(a, b)
            if isinstance(a.ty, TOpt) and isinstance(a.ty.t, (TSeq, TMap)):
                t = a.ty
                return z3.And(t.is_none(a.e) == t.is_none(b.e),
                              z3.Implies(z3.Not(t.is_none(a.e)),
                                         self._b(self.container_eq(SV(t.t, t.get(a.e)), SV(t.t, t.get(b.e))))))
            return a.e == b.e
        if isinstance(a.ty, TOpt) and a.ty.t == b.ty:
            return self.And(z3.Not(a.ty.is_none(a.e)), self.eq(SV(a.ty.t, a.ty.get(a.e)), b))
        if isinstance(b.ty, TOpt) and b.ty.t == a.ty:
            return self.And(z3.Not(b.ty.is_none(b.e)), self.eq(SV(b.ty.t, b.ty.get(b.e)), a))
        if {a.ty, b.ty} <= {TInt, TReal}:
            return z3.ToReal(a.e) == b.e if a.ty == TInt else a.e == z3.ToReal(b.e)
        for x, y in ((a, b), (b, a)):
            if isinstance(x.ty, TKey) and not isinstance(y.ty, TKey):
                # an abstract value against a concrete one: through the declared injection, or not at all
                if (y.ty.name, x.ty.name) in COERCIONS:
                    return x.e == to_z3(y, x.ty)
                raise EngineError('comparison of an abstract %s value with a %s value (no coercion declared)' % (x.ty, y.ty))
        return False

    def container_eq(self, a, b):
        t = a.ty
        if isinstance(t, TSeq):
            i = z3.FreshInt('qi')
            el = self.eq(wrap(t.t, t.at(a.e, i)), wrap(t.t, t.at(b.e, i)))
            return z3.And(t.len(a.e) == t.len(b.e),
                          z3.ForAll([i], z3.Implies(z3.And(0 <= i, i < t.len(a.e)), self._b(el))))
        k = z3.FreshConst(t.k.sort(), 'qk')
        el = self.eq(wrap(t.v, t.at(a.e, k)), wrap(t.v, t.at(b.e, k)))
        return z3.ForAll([k], z3.And(t.has(a.e, k) == t.has(b.e, k), z3.Implies(t.has(a.e, k), self._b(el))))

    def num(self, v):
        """value -> z3 arithmetic expression (or python number)."""
        if isinstance(v, bool):
            return int(v)
        if isinstance(v, (int, float)):
            return v
        if isinstance(v, PArr):
            return v.e
        if isinstance(v, SV):
            if v.ty in (TInt, TReal):
                return v.e
            if v.ty == TBool:
                return z3.If(v.e, 1, 0)
            if isinstance(v.ty, TOpt):
                self.maybe_raise(z3.Not(v.ty.is_none(v.e)), 'TypeError')
                return self.num(wrap(v.ty.t, v.ty.get(v.e)))
        if v is None:
            self.maybe_raise(False, 'TypeError')
        raise EngineError('not a number: %r' % (v,))

    def numval(self, x):
        """z3 arithmetic / python number -> interpreter value."""
        if isinstance(x, (int, float)):
            return x
        x = z3.simplify(x) if False else x
        v = lit(x)
        if v is not None and not isinstance(v, bool):
            return v
        return SV(TReal if x.sort() == z3.RealSort() else TInt, x)

    def maybe_raise(self, ok, exc, args=()):
        """continue only where ok holds; the other branch raises the python exception exc."""
        if self.spec:
            return
        if self.branch(ok):
            return
        raise PyExc(exc, args, self.line)

    # ------------------------------------------------------------------ expressions
    def eval(self, node, env):
        m = getattr(self, 'eval_' + node.__class__.__name__, None)
        if m is None:
            raise EngineError('unsupported expression %s at line %s' % (node.__class__.__name__,
                                                                          getattr(node, 'lineno', '?')))
        return m(node, env)

    def eval_Constant(self, node, env):
        return node.value

    def eval_Name(self, node, env):
        try:
            v = env.lookup(node.id)
            if isinstance(v, _Forgotten):
                raise EngineError('%r is assigned inside the block contract %r, which does not describe it (declare it in `assigns`)' % (node.id, v.block))
            return v
        except KeyError:
            if node.id in self.builtins:
                return self.builtins[node.id]
            if node.id in self.heap:
                return self.heap[node.id]
            fb = getattr(self, 'spec_fallback', None)
            if self.spec and fb is not None and fb.has(node.id):
                return fb.lookup(node.id)
            pe = getattr(self, 'param_env', None)
            if self.spec and pe is not None and node.id in pe.vars:
                return pe.vars[node.id]     # spec helper lambdas may name the parameters of the function under contract
            if self.spec:
                raise EngineError('unknown name %r in spec' % node.id)
            if env.has('__locals__') and node.id in env.lookup('__locals__'):
                raise PyExc('UnboundLocalError', (node.id,), getattr(node, 'lineno', self.line))
            raise EngineError('unbound name %r (line %s)' % (node.id, getattr(node, 'lineno', '?')))

    def eval_Tuple(self, node, env):
        out = []
        for e in node.elts:
            if isinstance(e, ast.Starred):
                out.extend(self.concrete_list(self.eval(e.value, env)))
            else:
                out.append(self.eval(e, env))
        return tuple(out)

    def eval_List(self, node, env):
        from .builtins import new_list
        return new_list(self, [self.eval(e, env) for e in node.elts], hint=getattr(node, '_ty', None))

    def eval_Set(self, node, env):
        from .builtins import new_set
        return new_set(self, [self.eval(e, env) for e in node.elts])

    def eval_Dict(self, node, env):
        from .builtins import new_dict
        return new_dict(self, [(self.eval(k, env), self.eval(v, env)) for k, v in zip(node.keys, node.values)])

    def eval_JoinedStr(self, node, env):
        parts = []
        for v in node.values:
            if isinstance(v, ast.Constant):
                parts.append(v.value)
            else:
                val = self.eval(v.value, env)
                if isinstance(val, (int, str)) and not isinstance(val, bool):
                    parts.append(str(val))
                else:
                    from .builtins import str_of
                    parts.append(str_of(self, val))
        if all(isinstance(p, str) for p in parts):
            return ''.join(parts)
        acc = None
        for p in parts:
            pe = to_z3(p, TStr)
            acc = pe if acc is None else z3.Concat(acc, pe)
        return SV(TStr, acc)

    def eval_Lambda(self, node, env):
        return Closure(node, env, '<lambda>', defaults=[self.eval(d, env) for d in node.args.defaults])

    def eval_IfExp(self, node, env):
        t = self.truth(self.eval(node.test, env))
        if isinstance(t, bool):
            return self.eval(node.body if t else node.orelse, env)
        if self.spec:
            a, b = self.eval(node.body, env), self.eval(node.orelse, env)
            return self.ite(t, a, b)
        return self.eval(node.body if self.branch(t) else node.orelse, env)

    def ite(self, c, a, b):
        if isinstance(c, bool):
            return a if c else b
        if isinstance(a, tuple) and isinstance(b, tuple) and len(a) == len(b):
            return tuple(self.ite(c, x, y) for x, y in zip(a, b))
        ta, tb = type_of(a), type_of(b)
        if isinstance(a, z3.BoolRef) or isinstance(b, z3.BoolRef):
            return z3.If(c, self._b(a), self._b(b))
        ty = ta if ta is not None else tb
        if ta is not None and tb is not None and ta != tb:
            if {ta, tb} <= {TInt, TReal, TBool}:
                ty = TReal if TReal in (ta, tb) else TInt
            elif isinstance(ta, TOpt):
                ty = ta
            elif isinstance(tb, TOpt):
                ty = tb
            else:
                raise EngineError('ite of %s and %s' % (ta, tb))
        elif ta is None or tb is None:
            if a is None and b is None:
                return None
            if not isinstance(ty, TOpt):
                ty = TOpt(ty)
        return wrap(ty, z3.If(c, to_z3(a, ty), to_z3(b, ty)))

    def eval_BoolOp(self, node, env):
        is_and = isinstance(node.op, ast.And)
        if self.spec:
            ts = [self.truth(self.eval(v, env)) for v in node.values]
            return self.And(*ts) if is_and else self.Or(*ts)
        v = None
        for i, sub in enumerate(node.values):
            v = self.eval(sub, env)
            if i == len(node.values) - 1:
                return v
            t = self.truth(v)
            tv = t if isinstance(t, bool) else self.branch(t)
            if is_and and not tv:
                return v
            if not is_and and tv:
                return v
        return v

    def eval_UnaryOp(self, node, env):
        v = self.eval(node.operand, env)
        if isinstance(node.op, ast.Not):
            return self.Not(self.truth(v))
        if isinstance(v, PArr) and isinstance(node.op, ast.Invert) and z3.is_bool(v.e):
            return v.like(z3.Not(v.e))                # ~mask
        if isinstance(v, PArr) and isinstance(node.op, ast.USub):
            return v.like(-v.e)
        if isinstance(node.op, ast.USub):
            return self.numval(-self.num(v))
        if isinstance(node.op, ast.UAdd):
            return self.numval(self.num(v))
        raise EngineError('unary op')

    def eval_BinOp(self, node, env):
        from .builtins import binop
        return binop(self, node.op.__class__.__name__, self.eval(node.left, env), self.eval(node.right, env))

    def eval_Compare(self, node, env):
        from .builtins import compare
        left = self.eval(node.left, env)
        res = []
        for op, rn in zip(node.ops, node.comparators):
            right = self.eval(rn, env)
            res.append(compare(self, op.__class__.__name__, left, right))
            left = right
        r = self.And(*res)
        return r

    def eval_Attribute(self, node, env):
        from .builtins import getattr_value
        return getattr_value(self, self.eval(node.value, env), node.attr)

    def eval_Subscript(self, node, env):
        from .builtins import getitem, getslice
        v = self.eval(node.value, env)
        if isinstance(node.slice, ast.Slice):
            lo = self.eval(node.slice.lower, env) if node.slice.lower else None
            hi = self.eval(node.slice.upper, env) if node.slice.upper else None
            st = self.eval(node.slice.step, env) if node.slice.step else None
            return getslice(self, v, lo, hi, st)
        return getitem(self, v, self.eval(node.slice, env))

    def eval_Slice(self, node, env):
        # a slice inside a tuple index (matrix[:, cols]): a python slice of the evaluated bounds, for the object's own hook
        return slice(*[self.eval(x, env) if x is not None else None for x in (node.lower, node.upper, node.step)])

    def eval_Starred(self, node, env):
        raise EngineError('starred expression')

    def _opaque(self, node):
        if self.opaque_exprs:
            key = ' '.join(ast.unparse(node).split())
            if key in self.opaque_exprs:
                # declared by the contract (and listed among its assumptions): e.g. the text fragments of a log message
                return self.opaque_exprs[key]
        return None

    def eval_ListComp(self, node, env):
        from .builtins import comprehension
        op = self._opaque(node)
        return (op(self, env) if getattr(op, 'wants_env', False) else op(self)) if op else comprehension(self, node, env, 'list')

    def eval_GeneratorExp(self, node, env):
        from .builtins import comprehension
        op = self._opaque(node)
        return (op(self, env) if getattr(op, 'wants_env', False) else op(self)) if op else comprehension(self, node, env, 'gen')

    def eval_SetComp(self, node, env):
        from .builtins import comprehension
        op = self._opaque(node)
        return (op(self, env) if getattr(op, 'wants_env', False) else op(self)) if op else comprehension(self, node, env, 'set')

    def eval_DictComp(self, node, env):
        from .builtins import comprehension
        op = self._opaque(node)
        return (op(self, env) if getattr(op, 'wants_env', False) else op(self)) if op else comprehension(self, node, env, 'dict')

    def eval_Call(self, node, env):
        # spec special forms
        if isinstance(node.func, ast.Name) and node.func.id in ('forall', 'exists') and not env.has(node.func.id):
            return self.quantifier(node, env)
        if isinstance(node.func, ast.Name) and node.func.id == 'setof' and not env.has('setof'):
            # setof(lambda x: cond, T): the set {x: T | cond}
            lam, ty = node.args[0], self.eval(node.args[1], env)
            c = z3.FreshConst(ty.sort(), lam.args.args[0].arg)
            sub = Env(env, {lam.args.args[0].arg: wrap(ty, c)})
            self.spec += 1
            try:
                body = self._b(self.truth(self.eval(lam.body, sub)))
            finally:
                self.spec -= 1
            return Box(TSet(ty), z3.Lambda([c], body))
        if isinstance(node.func, ast.Name) and node.func.id == 'old' and not env.has('old'):
            try:
                oe = env.lookup('__old_env__')
            except KeyError:
                oe = self.cur_old_env      # inside a spec helper lambda: the old state of the contract being evaluated
            return self.eval(node.args[0], oe)
        f = self.eval(node.func, env)
        ghost_call = isinstance(node.func, ast.Name) and node.func.id in ('prove', 'use_lemma') and not env.has(node.func.id)
        if ghost_call:
            self.spec += 1       # the arguments of ghost calls are specification expressions (total, no exception paths)
        try:
            return self._eval_call_args(node, env, f, ghost_call)
        finally:
            if ghost_call:
                self.spec -= 1

    def _eval_call_args(self, node, env, f, ghost_call):
        args = []
        for a in node.args:
            if isinstance(a, ast.Starred):
                sv = self.eval(a.value, env)
                try:
                    args.extend(self.concrete_list(sv))
                except EngineError:
                    # *seq of symbolic length: only an assumed external that declares it (star_ok) can take it, as one
                    # StarArgs value
                    if not getattr(f, 'star_ok', False):
                        raise
                    args.append(StarArgs(sv))
            else:
                args.append(self.eval(a, env))
        kwargs = {}
        for k in node.keywords:
            if k.arg is None:
                v = self.eval(k.value, env)
                if isinstance(v, Box) and v.cd is not None:
                    kwargs.update({kk: vv for kk, vv in v.cd.items()})
                elif isinstance(v, dict):
                    kwargs.update(v)
                else:
                    kwargs['**'] = v          # a symbolic mapping: only a **kwargs parameter can take it
                continue
            kwargs[k.arg] = self.eval(k.value, env)
        self.line = getattr(node, 'lineno', self.line)
        if ghost_call:
            sp, self.spec = self.spec, 0
            try:
                return self.call(f, args, kwargs)
            finally:
                self.spec = sp
        return self.call(f, args, kwargs)

    def quantifier(self, node, env):
        """forall(lambda i, j: body [, types])  /  exists(...) ; bound variables default to Int."""
        lam = node.args[0]
        if not isinstance(lam, ast.Lambda):
            raise EngineError('forall needs a lambda')
        names = [a.arg for a in lam.args.args]
        tys = [TInt] * len(names)
        if len(node.args) > 1:
            tv = [self.eval(a, env) for a in node.args[1:]]
            tys = tv + [TInt] * (len(names) - len(tv))
        consts = [z3.FreshConst(t.sort(), n) for n, t in zip(names, tys)]
        sub = Env(env, {n: wrap(t, c) for n, t, c in zip(names, tys, consts)})
        self.spec += 1
        try:
            body = self._b(self.truth(self.eval(lam.body, sub)))
        finally:
            self.spec -= 1
        pats = []
        for k in node.keywords:
            if k.arg == 'pattern':
                self.spec += 1
                try:
                    pv = self.eval(k.value, sub)
                finally:
                    self.spec -= 1
                pats = [to_z3(p) for p in (pv if isinstance(pv, tuple) else (pv,))]
        q = z3.ForAll if node.func.id == 'forall' else z3.Exists
        # binder names that depend on the specification text only (not on a counter): two evaluations of the same clause give the
        # same formula, syntactically - the solver then sees one atom, not two alpha-variants it has to relate by instantiation.
        # No capture: the canonical constants occur free only here (enclosing quantifiers still carry their fresh constants)
        canon = [z3.Const('?' + n, t.sort()) for n, t in zip(names, tys)]
        pairs = list(zip(consts, canon))
        body = z3.substitute(body, *pairs)
        if pats:
            return q(canon, body, patterns=[z3.substitute(p_, *pairs) for p_ in pats])
        return q(canon, body)

    def concrete_list(self, v):
        if isinstance(v, (tuple, list)):
            return list(v)
        if isinstance(v, IterV) and v.concrete is not None:
            return list(v.concrete)
        from .builtins import make_iter
        it = make_iter(self, v)
        if it.concrete is not None:
            return list(it.concrete)
        if isinstance(it.n, int):
            return [it.get(i) for i in range(it.n)]
        raise EngineError('need a sequence of concrete length')

    # ------------------------------------------------------------------ calls
    def call(self, f, args, kwargs):
        if isinstance(f, Builtin):
            return f.fn(self, *args, **kwargs)
        if isinstance(f, Closure):
            return self.call_closure(f, args, kwargs)
        if isinstance(f, ClassV):
            return self.instantiate(f, args, kwargs)
        if isinstance(f, ExcClass):
            return ExcValue(f.name, tuple(args))
        if isinstance(f, Obj) and '__call__' in f.attrs:
            return self.call(f.attrs['__call__'], args, kwargs)
        if isinstance(f, SV):
            from .builtins import value_kind
            m = self.methods.get((value_kind(f), '__call__'))      # calling an abstract value: given by the contract
            if m is not None:
                return m(self, f, *args, **kwargs)
        if isinstance(f, Ty):
            raise EngineError('type used as function')
        raise EngineError('call of %r' % (f,))

    def instantiate(self, cls, args, kwargs):
        o = Obj(cls.name)
        o.__dict__['klass'] = cls
        init = cls.lookup('__init__')
        if init is not None:
            self.call_closure(init.bind(o), args, kwargs)
        return o

    def bind_args(self, clo, args, kwargs):
        a = clo.node.args
        params = [p.arg for p in a.posonlyargs + a.args]
        vals = {}
        args = list(args)
        if clo.self_obj is not None:
            args = [clo.self_obj] + args
        if len(args) > len(params) and not a.vararg:
            raise EngineError('too many arguments for %s' % clo.qualname)
        for p, v in zip(params, args):
            vals[p] = v
        if a.vararg:
            vals[a.vararg.arg] = tuple(args[len(params):])
        kwonly = [p.arg for p in a.kwonlyargs]
        extra = {}
        star = kwargs.pop('**', None) if '**' in kwargs else None
        if star is not None and not a.kwarg:
            raise EngineError('symbolic ** mapping passed to a function without **kwargs')
        for k, v in kwargs.items():
            if k in params or k in kwonly:
                if k in vals:
                    raise EngineError('duplicate argument %s' % k)
                vals[k] = v
            elif a.kwarg:
                extra[k] = v
            else:
                raise EngineError('unexpected keyword %s for %s' % (k, clo.qualname))
        nd = len(clo.defaults)
        for i, p in enumerate(params):
            if p not in vals:
                j = i - (len(params) - nd)
                if j < 0:
                    raise EngineError('missing argument %s for %s' % (p, clo.qualname))
                vals[p] = clo.defaults[j]
        for p in kwonly:
            if p not in vals:
                if p in clo.kwdefaults:
                    vals[p] = clo.kwdefaults[p]
                else:
                    raise EngineError('missing kw argument %s' % p)
        if a.kwarg:
            if star is not None:
                if extra:
                    raise EngineError('symbolic ** mapping mixed with explicit keywords')
                vals[a.kwarg.arg] = star
            else:
                vals[a.kwarg.arg] = extra
        return vals

    def call_closure(self, clo, args, kwargs):
        c = self.contracts.get(clo.qualname)
        if c is not None and not self.spec and self.cur_fn != clo.qualname + '!inline':
            g = getattr(self, 'ghost_before_call', {}).get(clo.qualname.split('.')[-1])
            if g and getattr(self, 'caller_env', None) is not None:
                self.exec_src(g, self.caller_env)
            return self.call_contract(c, clo, args, kwargs)
        vals = self.bind_args(clo, args, kwargs)
        env = Env(clo.env, vals)
        if isinstance(clo.node, ast.Lambda):
            return self.eval(clo.node.body, env)
        env.vars['__locals__'] = assigned_names(clo.node.body)
        if not getattr(clo.node, '_loops_numbered', False):
            number_loops(clo.node.body)
            clo.node._loops_numbered = True
        saved = self.loop_ctr, self.loop_specs
        # inlined callees use their own contract's loop specs if registered as inline specs
        ic = self.inline_specs.get(clo.qualname) if hasattr(self, 'inline_specs') else None
        self.loop_ctr, self.loop_specs = [0], (ic or {})
        self.loop_prefix_stack = getattr(self, 'loop_prefix_stack', [])
        self.loop_prefix_stack.append('')
        try:
            self.exec_block(clo.node.body, env)
            return None
        except _Return as r:
            return r.value
        finally:
            self.loop_prefix_stack.pop()
            self.loop_ctr, self.loop_specs = saved

    def call_contract(self, c, clo, args, kwargs):
        """modular call: check requires, havoc modifies, assume ensures."""
        vals = self.bind_args(clo, args, kwargs)
        env = Env(self.contract_env(c), vals)
        line = self.line
        for k, r in enumerate(c.requires):
            self.oblige(self._b(self.spec_truth(r, env)), 'pre-of-callee:%s:%d@%d' % (c.short, k, line), line)
        old_vals = {k: self.snapshot(v) for k, v in vals.items()}
        old_vals.update({k: self.snapshot(v) for k, v in self.heap.items()})
        old_env = Env(env.parent, old_vals)
        env.vars['__old_env__'] = old_env
        saved_old, self.cur_old_env = getattr(self, 'cur_old_env', None), old_env
        try:
            return self._call_contract_body(c, env, line)
        finally:
            self.cur_old_env = saved_old

    def _call_contract_body(self, c, env, line):
        # exceptional outcomes
        # raises[E] = [trigger over the entry state, guarantees on the state left behind when E is raised ...]
        for exc, conds in c.raises.items():
            if not conds:
                continue
            trig = self._b(self.spec_truth(conds[0], env))
            if self.branch(trig):
                for m in c.modifies:
                    self.havoc_path(m, env)
                for x in conds[1:]:
                    self.assume(self._b(self.spec_truth(x, env)))
                raise PyExc(exc, (), line)
        # exceptions the contract allows without saying when (allow_exc): the callee may raise them at will
        for exc in sorted(getattr(c, 'allow_exc', ()) or ()):
            if exc in c.raises:
                continue
            if not self.branch(self.fresh(TBool, 'no_' + exc)):
                for m in c.modifies:
                    self.havoc_path(m, env)
                raise PyExc(exc, (), line)
        for m in c.modifies:
            self.havoc_path(m, env)
        res = None
        if c.result_ty is not None:
            res = self.fresh_val(c.result_ty, 'ret_' + c.short)
        env.vars['result'] = res
        for e in c.ensures:
            self.assume(self._b(self.spec_truth(e, env)))
        return res

    def snapshot(self, v):
        if isinstance(v, Box):
            if v.ty is None:
                b = Box(None, kind=v.kind)
                if v.cd is not None:
                    b.cd = {k: self.snapshot(x) for k, x in v.cd.items()}
            else:
                b = Box(v.ty, v.e)
            b.frozen = True
            return b
        if isinstance(v, Obj):
            o = Obj(v.cls, **{k: self.snapshot(x) for k, x in v.attrs.items()})
            if 'klass' in v.__dict__:
                o.__dict__['klass'] = v.__dict__['klass']
            return o
        if isinstance(v, tuple):
            return tuple(self.snapshot(x) for x in v)
        return v

    def havoc_path(self, src, env, types=None):
        """havoc the content of the container (or the attribute) denoted by the expression src."""
        node = ast.parse(src.strip(), mode='eval').body
        self.spec += 1
        try:
            if isinstance(node, ast.Attribute):
                base = self.eval(node.value, env)
                if isinstance(base, Obj):
                    cur = base.attrs.get(node.attr)
                    if isinstance(cur, Box):
                        cur.e = self.fresh(cur.ty, 'hv_' + node.attr)
                        self._hv_ids.add(id(cur))
                    else:
                        base.attrs[node.attr] = self.havoc_value(cur, (types or {}).get(node.attr), node.attr)
                        self._hv_ids.add(id(base.attrs[node.attr]))
                    return
            v = self.eval(node, env)
        finally:
            self.spec -= 1
        if isinstance(v, Box):
            v.e = self.fresh(v.ty, 'hv')
            self._hv_ids.add(id(v))
            if v._fwd is not None:
                self._hv_ids.add(id(v._fwd[0]))       # an element of a container: the container is what changes
            return
        raise EngineError('cannot havoc %s' % src)

    def box_ids_of(self, paths, env):
        """the containers denoted by `modifies` paths (by identity)"""
        ids = set()
        for src in paths:
            node = ast.parse(src.strip(), mode='eval').body
            self.spec += 1
            try:
                try:
                    v = self.eval(node, env)
                except (EngineError, KeyError):
                    continue
            finally:
                self.spec -= 1
            if isinstance(v, Box):
                ids.add(id(v))
                if v._fwd is not None:
                    ids.add(id(v._fwd[0]))
        return ids

    def frame_boxes(self, env):
        """the mutable containers a loop body can reach: locals, the ghost heap, attributes of objects (by identity)"""
        out = {}

        def walk(name, v, depth):
            if isinstance(v, Box):
                if v._fwd is None and not v.frozen:
                    out.setdefault(id(v), (name, v))
            elif isinstance(v, Obj) and depth < 3:
                for k, x in v.attrs.items():
                    walk(name + '.' + k, x, depth + 1)
            elif isinstance(v, tuple) and depth < 3:
                for k, x in enumerate(v):
                    walk('%s[%d]' % (name, k), x, depth + 1)
        e = env
        while e is not None:
            for k, v in list(getattr(e, 'vars', {}).items()):
                if not k.startswith('__'):
                    walk(k, v, 0)
            e = getattr(e, 'parent', None)
        for k, v in self.heap.items():
            walk(k, v, 0)
        return out

    def havoc_value(self, v, ty, name):
        if ty is not None:
            if isinstance(ty, (TSeq, TMap, TSet)):
                return self.fresh_box(ty, name)
            return self.fresh_val(ty, name)
        if isinstance(v, Box):
            return self.fresh_box(v.ty, name)
        if isinstance(v, SV):
            return self.fresh_val(v.ty, name)
        if isinstance(v, tuple):
            return tuple(self.havoc_value(x, None, name) for x in v)
        t = type_of(v)
        if t is None:
            if isinstance(v, (Obj, Closure, Builtin, ClassV, ModuleV, ExcClass)):
                return v
            raise EngineError('cannot infer the type of loop-modified variable %r (declare it in locals)' % name)
        return self.fresh_val(t, name)

    # ------------------------------------------------------------------ statements
    def exec_block(self, stmts, env):
        i = 0
        while i < len(stmts):
            s = stmts[i]
            hit = self.block_nodes.get(id(s)) if self.block_nodes else None
            if hit is not None:
                blk, n = hit
                self.apply_block(blk, env, s, stmts[i:i + n])        # the statements of a block contract are replaced by the contract
                i += n
                continue
            if self.stmt_ghosts:
                self._stmt_ghost('before:stmt:', s, env)
            self.exec(s, env)
            if self.stmt_ghosts:
                self._stmt_ghost('after:stmt:', s, env)
            i += 1

    def apply_block(self, blk, env, node, stmts):
        self.line = getattr(node, 'lineno', self.line)
        self.blocks_used.add(blk.name)
        # the state at the beginning of the block: what old() means in its clauses (in its precondition too)
        fenv = env
        while fenv.parent is not None and '__locals__' not in fenv.vars:
            fenv = fenv.parent
        snap = {k: self.snapshot(v) for k, v in fenv.vars.items() if not k.startswith('__')}
        snap.update({k: self.snapshot(v) for k, v in self.heap.items()})
        old_env = Env(self.spec_fallback, snap)
        saved = self.cur_old_env
        self.cur_old_env = old_env
        try:
            for k, r in enumerate(blk.requires):
                self.oblige(self._b(self.spec_truth(r, Env(env, {'__old_env__': old_env}))), 'block-pre:%s:%d' % (blk.name, k))
        finally:
            self.cur_old_env = saved
        for name, ty in sorted(blk.assigns.items()):
            if name in self.heap:
                continue
            if callable(ty) and not isinstance(ty, Ty):
                env.vars[name] = ty(env)          # an object-valued local (e.g. a new abstract object the block creates): given by the contract
            else:
                env.vars[name] = self.havoc_value(env.vars.get(name), ty, name)
        for name in sorted(assigned_names(stmts) - set(blk.assigns)):
            if not name.startswith('g_'):
                env.vars[name] = _Forgotten(blk.name)
        saved_hv = getattr(self, '_hv_ids', set())
        self._hv_ids = set()
        for m in blk.modifies:
            self.havoc_path(m, env, blk.assigns)
        self._hv_ids = saved_hv | self._hv_ids
        outcomes = ['normal'] + ['raise:' + k for k in sorted(blk.raises)] + ['raise:' + k for k in blk.allow_exc if k not in blk.raises]
        which = self.choose(outcomes) if len(outcomes) > 1 else 'normal'
        sub = Env(env, {'__old_env__': old_env})
        saved = self.cur_old_env
        self.cur_old_env = old_env
        before = self.check_light(None) if which == 'normal' else None
        try:
            if which == 'normal':
                for e in blk.ensures:
                    self.assume(self._b(self.spec_truth(e, sub)))
            else:
                for c in blk.raises.get(which[6:], []):
                    self.assume(self._b(self.spec_truth(c, sub)))
        finally:
            self.cur_old_env = saved
        if which == 'normal' and before != z3.unsat and self.check_light(None) == z3.unsat:
            # the assumed postcondition contradicts what is known at this place: everything after it would hold vacuously
            raise EngineError('the postcondition of block contract %r contradicts the state at its place' % blk.name)
        self.feasible()
        if which != 'normal':
            raise PyExc(which[6:], (), self.line)
        self.ghost_hook('after:block:' + blk.name, env)

    def _stmt_ghost(self, prefix, st, env):
        """ghost code attached to a statement, located by the beginning of its source text (never by line number)"""
        src = None
        for key, code in self.ghost_at.items():
            if key.startswith(prefix):
                if src is None:
                    src = ' '.join(ast.unparse(st).split())
                if src.startswith(' '.join(key[len(prefix):].split())):
                    self.exec_src(code, env)

    def exec(self, node, env):
        self.line = getattr(node, 'lineno', self.line)
        m = getattr(self, 'exec_' + node.__class__.__name__, None)
        if m is None:
            raise EngineError('unsupported statement %s at line %s' % (node.__class__.__name__, self.line))
        return m(node, env)

    def exec_Pass(self, node, env):
        pass

    def exec_Expr(self, node, env):
        if isinstance(node.value, ast.Constant):
            return
        if isinstance(node.value, (ast.Yield, ast.YieldFrom)):
            return self.do_yield(node.value, env)
        self.eval(node.value, env)

    def do_yield(self, node, env):
        y = env.lookup('__yielded__')
        from .builtins import list_append
        if isinstance(node, ast.Yield):
            list_append(self, y, self.eval(node.value, env) if node.value else None)
        else:
            # yield from xs: the elements of xs, in order (values sent into the generator are not modelled)
            from .builtins import list_extend
            list_extend(self, y, self.eval(node.value, env))

    def exec_Return(self, node, env):
        raise _Return(self.eval(node.value, env) if node.value else None)

    def exec_Break(self, node, env):
        raise _Break()

    def exec_Continue(self, node, env):
        raise _Continue()

    def exec_Global(self, node, env):
        raise EngineError('global statement')

    def exec_Import(self, node, env):
        for a in node.names:
            env.vars[(a.asname or a.name).split('.')[0]] = self.module_value(a.name)

    def exec_ImportFrom(self, node, env):
        for a in node.names:
            mv = self.module_value(node.module or '')
            env.vars[a.asname or a.name] = mv.attrs.get(a.name, ModuleV((node.module or '') + '.' + a.name))

    def module_value(self, name):
        from .builtins import EXTERNAL_MODULES
        return EXTERNAL_MODULES.get(name, ModuleV(name))

    def exec_FunctionDef(self, node, env):
        qn = (env.vars.get('__qual__', '') + '.' if env.vars.get('__qual__') else '') + node.name
        clo = Closure(node, env, qn, defaults=[self.eval(d, env) for d in node.args.defaults],
                      kwdefaults={a.arg: self.eval(d, env) for a, d in zip(node.args.kwonlyargs, node.args.kw_defaults)
                                  if d is not None})
        env.vars[node.name] = clo

    def exec_Assert(self, node, env):
        t = self.truth(self.eval(node.test, env))
        self.maybe_raise(t, 'AssertionError')

    def exec_Raise(self, node, env):
        if node.exc is None:
            cur = env.lookup('__cur_exc__') if env.has('__cur_exc__') else None
            if cur is None:
                raise EngineError('bare raise outside handler')
            raise cur
        v = self.eval(node.exc, env)
        if isinstance(v, ExcClass):
            raise PyExc(v.name, (), self.line)
        if isinstance(v, ExcValue):
            raise PyExc(v.name, v.args, self.line)
        raise EngineError('raise of %r' % (v,))

    def exec_Try(self, node, env):
        try:
            try:
                self.exec_block(node.body, env)
            except PyExc as ex:
                for h in node.handlers:
                    names = []
                    if h.type is None:
                        names = ['BaseException']
                    else:
                        tv = self.eval(h.type, env)
                        for t in (tv if isinstance(tv, tuple) else (tv,)):
                            if not isinstance(t, ExcClass):
                                raise EngineError('except clause with non-exception %r' % (t,))
                            names.append(t.name)
                    if any(exc_isinstance(ex.name, n) or n == 'BaseException' for n in names):
                        if h.name:
                            env.vars[h.name] = ExcValue(ex.name, ex.exc_args)
                        env.vars['__cur_exc__'] = ex
                        self.exec_block(h.body, env)
                        break
                else:
                    raise
            else:
                self.exec_block(node.orelse, env)
        finally:
            if node.finalbody:
                # NB: also runs when a control-flow signal or PathEnd passes; PathEnd must not execute code
                import sys
                et = sys.exc_info()[0]
                if et is None or not issubclass(et, (PathEnd, EngineError)):
                    self.exec_block(node.finalbody, env)

    def exec_If(self, node, env):
        t = self.truth(self.eval(node.test, env))
        tv = t if isinstance(t, bool) else self.branch(t)
        self.refine_none(node.test, tv, env)
        self.exec_block(node.body if tv else node.orelse, env)

    def refine_none(self, test, tv, env):
        """after `x is None` / `x is not None` has been decided on this path, an Opt-typed x that is known not to be None
        is re-bound to its payload (same python value, sharper static type)."""
        if isinstance(test, ast.Compare) and len(test.ops) == 1 and isinstance(test.left, ast.Attribute) \
                and isinstance(test.left.value, ast.Name) and isinstance(test.comparators[0], ast.Constant) \
                and test.comparators[0].value is None:
            # `obj.attr is not None`: the same refinement on the attribute slot of an interpreter object
            is_none = tv if isinstance(test.ops[0], ast.Is) else (not tv if isinstance(test.ops[0], ast.IsNot) else None)
            base = env.lookup(test.left.value.id) if env.has(test.left.value.id) else None
            if is_none is False and isinstance(base, Obj):
                v = base.attrs.get(test.left.attr)
                if isinstance(v, SV) and isinstance(v.ty, TOpt):
                    base.attrs[test.left.attr] = wrap(v.ty.t, v.ty.get(v.e))
            return
        if isinstance(test, ast.Compare) and len(test.ops) == 1 and isinstance(test.left, ast.Name) \
                and isinstance(test.comparators[0], ast.Constant) and test.comparators[0].value is None:
            is_none = tv if isinstance(test.ops[0], ast.Is) else (not tv if isinstance(test.ops[0], ast.IsNot) else None)
            name = test.left.id
            v = env.vars.get(name)
            if is_none is False and isinstance(v, SV) and isinstance(v.ty, TOpt):
                env.vars[name] = wrap(v.ty.t, v.ty.get(v.e))

    def exec_Assign(self, node, env):
        v = self.eval(node.value, env)
        for tgt in node.targets:
            self.assign(tgt, v, env)

    def exec_AnnAssign(self, node, env):
        if node.value is not None:
            self.assign(node.target, self.eval(node.value, env), env)

    def exec_AugAssign(self, node, env):
        from .builtins import binop, inplace
        tgt = node.target
        load = _as_load(tgt)
        cur = self.eval(load, env)
        rhs = self.eval(node.value, env)
        if isinstance(cur, PArr):
            from .builtins import inplace_parr
            inplace_parr(self, node.op.__class__.__name__, cur, rhs)     # numpy arrays are updated in place
            return
        if isinstance(cur, Box):
            if inplace(self, node.op.__class__.__name__, cur, rhs):
                return
        self.assign(tgt, binop(self, node.op.__class__.__name__, cur, rhs), env)

    def exec_Delete(self, node, env):
        from .builtins import delitem
        for t in node.targets:
            if isinstance(t, ast.Subscript):
                delitem(self, self.eval(t.value, env), self.eval(t.slice, env))
            elif isinstance(t, ast.Name):
                env.vars.pop(t.id, None)
            else:
                raise EngineError('del target')

    def exec_With(self, node, env):
        for item in node.items:
            v = self.eval(item.context_expr, env)
            if item.optional_vars is not None:
                self.assign(item.optional_vars, v, env)
        self.exec_block(node.body, env)

    def assign(self, tgt, v, env):
        from .builtins import setitem, setattr_value
        if isinstance(tgt, ast.Name):
            ty = self.local_types.get(tgt.id) if hasattr(self, 'local_types') else None
            if ty is not None:
                v = self.coerce_local(v, ty)
            env.vars[tgt.id] = v
        elif isinstance(tgt, (ast.Tuple, ast.List)):
            star = [i for i, t in enumerate(tgt.elts) if isinstance(t, ast.Starred)]
            if star:
                from .builtins import ConcreteList
                items = self.concrete_list(v)
                k = star[0]
                after = len(tgt.elts) - k - 1
                if len(items) < len(tgt.elts) - 1:
                    self.maybe_raise(False, 'ValueError')
                for t, x in zip(tgt.elts[:k], items[:k]):
                    self.assign(t, x, env)
                self.assign(tgt.elts[k].value, ConcreteList(items[k:len(items) - after]), env)
                for t, x in zip(tgt.elts[k + 1:], items[len(items) - after:]):
                    self.assign(t, x, env)
                return
            vs = self.unpack(v, len(tgt.elts))
            for t, x in zip(tgt.elts, vs):
                self.assign(t, x, env)
        elif isinstance(tgt, ast.Subscript):
            if isinstance(tgt.slice, ast.Slice):
                raise EngineError('slice assignment')
            setitem(self, self.eval(tgt.value, env), self.eval(tgt.slice, env), v)
        elif isinstance(tgt, ast.Attribute):
            setattr_value(self, self.eval(tgt.value, env), tgt.attr, v)
        else:
            raise EngineError('assignment target %s' % tgt.__class__.__name__)

    def coerce_local(self, v, ty):
        """give an (empty/untyped) literal container or a concrete value the declared type."""
        if isinstance(v, Box) and v.ty is None:
            want = {TSeq: 'list', TMap: 'dict', TSet: 'set'}.get(type(ty))
            if want is not None and v.kind is not None and v.kind != want:
                # the (changed) code builds another kind of container than the contract declares for this local
                raise EngineError('a %s literal where the contract declares a %s local' % (v.kind, want))
            v.set_type(ty)
            return v
        if isinstance(v, (Box, SV)):
            return v
        if isinstance(ty, TOpt) and (v is None or isinstance(v, (int, float, str)) and not isinstance(v, bool)):
            # a local the contract declares Optional holds one typed value on every path
            return SV(ty, ty.none() if v is None else ty.some(to_z3(v, ty.t)))
        return v

    def unpack(self, v, n):
        if isinstance(v, tuple):
            if len(v) != n:
                self.maybe_raise(False, 'ValueError')
                raise EngineError('unpack arity (spec)')
            return list(v)
        from .builtins import make_iter
        it = make_iter(self, v)
        if it.concrete is not None:
            if len(it.concrete) != n:
                self.maybe_raise(False, 'ValueError')
            return list(it.concrete)
        self.maybe_raise(it.n == n if not isinstance(it.n, int) else it.n == n, 'ValueError')
        return [it.get(i) for i in range(n)]

    # ------------------------------------------------------------------ loops
    def next_loop_id(self, node=None):
        # loops are numbered statically, in source order per nesting level (number_loops), so that a loop keeps its
        # number on paths that skip an earlier loop; the dynamic counter is the fallback for unnumbered code
        sid = getattr(node, '_loop_static', None)
        if sid is not None:
            return sid
        self.loop_ctr[-1] += 1
        return '.'.join(str(x) for x in self.loop_ctr)

    def exec_For(self, node, env):
        from .builtins import make_iter
        lid = self.next_loop_id(node)
        src = self.eval(node.iter, env)
        spec0 = self.loop_specs.get('L' + lid)
        if spec0 is not None and spec0.live:
            if not (isinstance(src, Box) and isinstance(src.ty, TSeq) and src._fwd is None):
                raise EngineError('a live loop needs a list variable to iterate')
            itv = IterV(None, lambda i, _b=src: wrap(_b.ty.t, _b.ty.at(_b.e, _int(i))))
            itv.live = src
        else:
            itv = make_iter(self, src)
        itv.src_box = src if isinstance(src, Box) else None
        if getattr(itv, 'live', None) is None and (itv.concrete is not None or isinstance(itv.n, int)):
            items = itv.concrete if itv.concrete is not None else [itv.get(i) for i in range(itv.n)]
            self.loop_ctr.append(0)
            try:
                broke = False
                for x in items:
                    self.loop_ctr[-1] = 0
                    self.assign(node.target, x, env)
                    try:
                        self.exec_block(node.body, env)
                    except _Continue:
                        continue
                    except _Break:
                        broke = True
                        break
                if not broke:
                    self.exec_block(node.orelse, env)
            finally:
                self.loop_ctr.pop()
            return
        spec = self.loop_specs.get('L' + lid)
        if spec is None:
            raise EngineError('loop L%s (line %d) over a symbolic sequence needs an invariant' % (lid, node.lineno))
        self.ghost_hook('before:L' + lid, env)
        if self.run_loop(node, env, lid, spec, itv) != 'break':
            self.ghost_hook('after:L' + lid, env)

    def exec_While(self, node, env):
        lid = self.next_loop_id(node)
        spec = self.loop_specs.get('L' + lid)
        if spec is None:
            # concrete unrolling as long as the guard is concrete
            self.loop_ctr.append(0)
            try:
                for _ in range(100000):
                    self.loop_ctr[-1] = 0
                    t = self.truth(self.eval(node.test, env))
                    if not isinstance(t, bool):
                        raise EngineError('while loop L%s (line %d) with symbolic guard needs an invariant'
                                          % (lid, node.lineno))
                    if not t:
                        self.exec_block(node.orelse, env)
                        return
                    try:
                        self.exec_block(node.body, env)
                    except _Continue:
                        continue
                    except _Break:
                        return
                raise EngineError('while loop does not terminate concretely')
            finally:
                self.loop_ctr.pop()
        self.ghost_hook('before:L' + lid, env)
        if self.run_loop(node, env, lid, spec, None) != 'break':
            self.ghost_hook('after:L' + lid, env)

    def ghost_hook(self, tag, env):
        src = self.ghost_at.get(tag)
        if src:
            self.exec_src(src, env)

    def run_loop(self, node, env, lid, spec, itv):
        tag = 'L' + lid
        is_for = itv is not None
        ln = node.lineno
        outer_i = env.vars.get('_i')
        if spec.ghost_init:
            self.exec_src(spec.ghost_init, env)
        if is_for:
            env.vars['_i'] = 0
            env.vars['_i' + tag.replace('.', '_')] = 0
            if getattr(itv, 'live', None) is None:
                env.vars['_n' + tag.replace('.', '_')] = self.numval(itv.n)
            # _it<loop>(q): the q-th element of the traversal (e.g. of the arbitrary enumeration of a set)
            env.vars['_it' + tag.replace('.', '_')] = Builtin(
                lambda e, q, _itv=itv: _itv.get(q.e if isinstance(q, SV) else (z3.IntVal(q) if isinstance(q, int) else q)), '_it' + tag)
            if getattr(itv, 'pos', None) is not None:
                # _pos<loop>(x): the place of x in the enumeration of a set (meaningful for members)
                env.vars['_pos' + tag.replace('.', '_')] = Builtin(
                    lambda e, x, _itv=itv: SV(TInt, _itv.pos(to_z3(x, _itv.pos_ty))), '_pos' + tag)
        for k, inv in enumerate(spec.inv):
            self.oblige(self._b(self.spec_truth(inv, env)), 'inv-init:%s:%d' % (tag, k), ln)
        which = self.choose(['iter', 'exit'])
        # havoc
        body_names = assigned_names(node.body)
        if spec.ghost_end:
            body_names |= assigned_names(ast.parse(_dedent(spec.ghost_end)).body)
        if spec.ghost_pre:
            body_names |= assigned_names(ast.parse(_dedent(spec.ghost_pre)).body)
        tnames = assigned_names([node.target]) if is_for else set()
        tnames -= body_names      # a target that the body also assigns is treated as an ordinary modified variable
        for name in sorted(body_names - tnames):
            if name in env.vars:
                env.vars[name] = self.havoc_value(env.vars[name], spec.locals.get(name), name)
        # the loop variable: at an arbitrary iteration its value before the assignment is that of the previous
        # element (unknown here), on exit it is the last element or, for an empty sequence, the value before the loop
        pre_target = {name: env.vars[name] for name in tnames if name in env.vars}
        if which == 'iter':
            for name in sorted(pre_target):
                try:
                    env.vars[name] = self.havoc_value(env.vars[name], spec.locals.get(name), name)
                except EngineError:
                    del env.vars[name]
        self._hv_ids = set()
        for m in spec.modifies:
            self.havoc_path(m, env, spec.locals)
        hv_ids = set(self._hv_ids)
        live = getattr(itv, 'live', None) if is_for else None
        if is_for and live is None and getattr(itv, 'src_box', None) is not None and id(itv.src_box) in hv_ids:
            raise EngineError('loop %s changes the list it iterates: its specification has to say live=True' % tag)
        if which == 'iter':
            if is_for:
                k = self.fresh(TInt, 'k' + tag)
                if live is None:
                    self.assume(z3.And(0 <= k, k < itv.n))
                else:
                    self.assume(z3.And(0 <= k, k < live.ty.len(live.e)))
                kv = SV(TInt, k)
                env.vars['_i'] = kv
                env.vars['_i' + tag.replace('.', '_')] = kv
            for inv in spec.inv:
                self.assume(self._b(self.spec_truth(inv, env)))
            dec0 = None
            if is_for:
                self.feasible()
                self.assign(node.target, itv.get(k), env)
                if spec.decreases and live is not None:
                    # a `for` over a list that the body changes ends only if the list does not outgrow the index: a measure
                    # over _i (the index) and the list, as for `while`
                    dec0 = self.num(self.eval_spec(spec.decreases, env))
            else:
                t = self.truth(self.eval(node.test, env))
                if isinstance(t, bool):
                    if not t:
                        raise PathEnd()
                elif not self.branch(t):
                    raise PathEnd()
                if spec.decreases:
                    dec0 = self.num(self.eval_spec(spec.decreases, env))
            # frame: a container that the loop specification does not list in `modifies` must come out of an arbitrary
            # iteration as it went in (otherwise the code after the loop would be verified against its value before the loop)
            frame0 = {i: (nm, b, b._e, b.ty, repr(sorted(b.cd)) if b.cd is not None else None)
                      for i, (nm, b) in self.frame_boxes(env).items()
                      if i not in hv_ids and nm.split('.')[0].split('[')[0] not in (body_names | tnames)}
            if spec.ghost_pre:
                self.exec_src(spec.ghost_pre, env)
            self.loop_ctr.append(0)
            try:
                try:
                    self.exec_block(node.body, env)
                except _Continue:
                    pass
                except _Break:
                    self.loop_ctr.pop()
                    self.loop_ctr.append(0)
                    self._restore_i(env, outer_i)
                    self.loop_ctr.pop()
                    return 'break'
            finally:
                if self.loop_ctr and len(self.loop_ctr) > 1:
                    pass
            self.loop_ctr.pop()
            if spec.ghost_end:
                self.exec_src(spec.ghost_end, env)
            if is_for:
                nv = SV(TInt, k + 1)
                env.vars['_i'] = nv
                env.vars['_i' + tag.replace('.', '_')] = nv
            for i_, (nm, b, e0, ty0, cd0) in sorted(frame0.items(), key=lambda kv: kv[1][0]):
                cd1 = repr(sorted(b.cd)) if b.cd is not None else None
                if b.ty is ty0 and cd1 == cd0 and (ty0 is None or e0 is b._e or z3.eq(e0, b._e)):
                    continue
                if ty0 is not None and b.ty == ty0 and cd1 == cd0:
                    self.oblige(b._e == e0, 'frame:%s:%s' % (tag, nm), ln)
                else:
                    self.oblige(False, 'frame:%s:%s' % (tag, nm), ln)
            for j, inv in enumerate(spec.inv):
                self.oblige(self._b(self.spec_truth(inv, env)), 'inv-preserve:%s:%d' % (tag, j), ln)
            if dec0 is not None:
                dec1 = self.num(self.eval_spec(spec.decreases, env))
                self.oblige(z3.And(dec0 >= 0, dec1 < dec0), 'decreases:%s' % tag, ln)
            raise PathEnd()
        # exit path
        if live is not None:
            m_ = self.fresh(TInt, 'm' + tag)
            mv = SV(TInt, m_)
            env.vars['_i'] = mv
            env.vars['_i' + tag.replace('.', '_')] = mv
            for name in sorted(tnames):
                if name in env.vars:
                    try:
                        env.vars[name] = self.havoc_value(env.vars[name], spec.locals.get(name), name)
                    except EngineError:
                        del env.vars[name]
            for inv in spec.inv:
                self.assume(self._b(self.spec_truth(inv, env)))
            self.assume(z3.And(m_ >= 0, m_ >= live.ty.len(live.e)))
            self.feasible()
            self.exec_block(node.orelse, env)
            self._restore_i(env, outer_i)
            return
        if is_for and tnames:
            # the loop variable keeps the last element (if there was one)
            nz = _int(itv.n) > 0 if not isinstance(itv.n, int) else itv.n > 0
            if (nz if isinstance(nz, bool) else self.branch(nz)):
                self.assign(node.target, itv.get(_int(itv.n) - 1), env)
        if is_for:
            nv = self.numval(itv.n)
            env.vars['_i'] = nv
            env.vars['_i' + tag.replace('.', '_')] = nv
        for inv in spec.inv:
            self.assume(self._b(self.spec_truth(inv, env)))
        if not is_for:
            t = self.truth(self.eval(node.test, env))
            if isinstance(t, bool):
                if t:
                    raise PathEnd()
            elif self.branch(t):
                raise PathEnd()
        self.feasible()
        self.exec_block(node.orelse, env)
        self._restore_i(env, outer_i)

    def _restore_i(self, env, outer_i):
        if outer_i is not None:
            env.vars['_i'] = outer_i
        else:
            env.vars.pop('_i', None)


def _int(x):
    return z3.IntVal(x) if isinstance(x, int) else x


def _as_load(node):
    n = ast.parse(ast.unparse(node), mode='eval').body
    return n


def _dedent(src):
    import textwrap
    return textwrap.dedent(src).strip('\n')

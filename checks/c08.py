from contracts.c08 import CONTRACTS, LEMMAS
from bounded.c08 import bounded, replay_model

PROP = 'C08'
LEVEL = 'proof'
TRUSTED = [
    "spec vocabulary numeric/lim/named defined from `specifications` by Skolemised comprehension axioms (contracts/c08.py DEF_AXIOMS)",
    "logging.WARNING == 30; getattr(record, attr, default) on a LogRecord",
    "z3 define-fun-rec for the prefix sums ST/SL/SG/EX/RS",
]
ASSUMPTIONS = [
    "counts are non-negative (they only ever grow by +1 in handle, proved) ",
    "a type both waived by name and given a numeric limit is excluded (the property leaves it unspecified)",
    "the wiring of the handler into the logging stack is exercised by the bounded layer only",
]
NOT_PROVED = []
EXPLANATION = ("handle, number_of_counts_by, ignore_warnings_and_count and maxwarn proved for all inputs against the statement "
               "of C08 (nested loop invariants with ghost witnesses, one induction lemma); the caller uses the callee's "
               "contract, not its body")

from checks._base import setup
setup(globals(), "C19")

from contracts.c05 import CONTRACTS, LEMMAS
try:
    from bounded.c05 import bounded, replay_model
except ImportError:
    pass

PROP = 'C05'
LEVEL = 'other'
TRUSTED = ["numpy.sign(x) = 1 if x > 0, -1 if x < 0, else 0", "len(set(s)) == 1 iff s is non-empty and all characters are equal",
           "numbers.Number contains int; `x is True` is false for every int",
           "networkx GraphMatcher (VF2) yields exactly the induced subgraph isomorphisms (not verified)"]
ASSUMPTIONS = ["order attributes are ints or strings (floats / other sequences are outside the verified domain)"]
NOT_PROVED = ["match_link filter body, _is_valid_non_edges, _pattern_match, attributes_match, DoLinks.run_molecule: bounded layer only"]
EXPLANATION = ("_interpret_order and match_order proved for all ints and all strings against the documented comparison matrix "
               "(transcribed in contracts/c05.py 'matrix'); the rest of link application is decided by the bounded stand-in")

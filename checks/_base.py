"""glue shared by checks/cXX.py: pulls in contracts.cXX (deductive layer) and bounded.cXX (bounded stand-in) when they
exist and the per-property metadata from checks/registry.json."""
import importlib
import json
import os

HERE = os.path.dirname(os.path.abspath(__file__))


def setup(g, prop):
    low = prop.lower()
    g['PROP'] = prop
    g['CONTRACTS'], g['LEMMAS'] = [], []
    if os.path.exists(os.path.join(HERE, '..', 'contracts', low + '.py')):
        c = importlib.import_module('contracts.' + low)
        g['CONTRACTS'], g['LEMMAS'] = c.CONTRACTS, getattr(c, 'LEMMAS', [])
        if hasattr(c, 'extra_obligations'):
            g['extra_obligations'] = c.extra_obligations
    if os.path.exists(os.path.join(HERE, '..', 'bounded', low + '.py')):
        b = importlib.import_module('bounded.' + low)
        g['bounded'] = b.bounded
        if hasattr(b, 'replay_model'):
            g['replay_model'] = b.replay_model
    reg = json.load(open(os.path.join(HERE, 'registry.json'))).get(prop, {})
    g['LEVEL'] = reg.get('level', 'exploration')
    g['TRUSTED'] = reg.get('trusted', [])
    g['ASSUMPTIONS'] = reg.get('assumptions', [])
    g['NOT_PROVED'] = reg.get('not_proved', [])
    g['EXPLANATION'] = reg.get('explanation', reg.get('text', ''))

"""C12 bounded stand-in: the real Molecule / Block / System code of the working tree runs natively on histories of
editing operations; every live molecule is paired with a naive model (plain lists and dicts, c12_model.py) written
from the property statement, and compared with it after every step.

Statement clauses checked after every operation, on every live molecule:
  */wf-interaction, */wf-bond          every interaction / bond mentions present atoms only
  <copy|subgraph|...>/independence     editing one molecule leaves every molecule that is not an operand unchanged
  merge_molecule/fresh-keys, /existing-atoms, /atoms-kept, /bonds-kept, /interactions-kept, /newcomer-attributes,
  /resid-shift, /charge-group-shift    the merge clauses
  <operation>/effect, /raises, /no-error   the documented effect of the single operations (whole view)
Out of the view (as in DESIGN.md): citations, log entries, meta.
"""
import hashlib
import json
import logging
import random
import time

from .common import Collector, REPO, load_cli  # noqa: F401  (REPO/load_cli: sys.path handling lives in common)
from .c12_model import Model, well_formed, diff
from .c12_world import World, Stop, real_view, merge_clauses, restrict, _jsonable, _model_from_view

INT_POOL = [0, 1, 2, 3, 4, 5, 6, 7, 8, 9, 11, 14, 20, 33, -2]
NAME_POOL = ['BB', 'SC1', 'SC2', 'CA', 'N', '+BB']
TYPES = ['bonds', 'angles', 'constraints', 'impropers']
HOWS = ['list', 'tuple', 'set', 'gen', 'iter', 'dictkeys']


# --------------------------------------------------------------------------------------------- running histories
def run_history(ops, col):
    """replay concrete operations in a fresh world. Returns (keys of violations hit, world)."""
    world = World(col)
    try:
        for op in ops:
            world.apply(op)
    except Stop:
        pass
    return world.keys_hit, world


def fingerprint(ops):
    return hashlib.sha1(json.dumps(ops, sort_keys=True, default=str).encode()).hexdigest()[:16]


def shrink(ops, key, budget=400):
    """greedy removal of operations while the same violation key is still reported."""
    ops = list(ops)
    changed = True
    while changed and budget > 0:
        changed = False
        for i in range(len(ops) - 1, -1, -1):
            trial = ops[:i] + ops[i + 1:]
            budget -= 1
            hits, _w = run_history(trial, Collector('scratch'))
            if key in hits:
                ops = trial
                changed = True
            if budget <= 0:
                break
    return ops


def record(ops, col, known):
    """run a history; on a new violation, shrink it and record the short version."""
    scratch = Collector('scratch')
    hits, world = run_history(ops, scratch)
    col.case(fingerprint(ops), world.structural, dict(operations=len(ops), last_operations=ops[-6:], violations=hits))
    for key in hits:
        if key not in known:
            known.add(key)
            small = shrink(world.done, key)
            hits2, _w = run_history(small, col)
            if key not in hits2:   # should not happen; keep the long one
                run_history(world.done, col)
    return hits


# --------------------------------------------------------------------------------------------- exhaustive part
def base_prefix():
    """A: molecule 0..2 with two bonds and an angle (resid/charge group 1..3); B: molecule with 2 atoms and a bond."""
    ops = [['new', 'Molecule'], ['new', 'Molecule']]
    for k in (0, 1, 2):
        ops.append(['add_node', 0, k, dict(atomname='A%d' % k, resid=k + 1, charge_group=k + 1)])
    ops += [['add_edge', 0, 0, 1, {}], ['add_edge', 0, 1, 2, {}],
            ['add_interaction', 0, 'bonds', [0, 1], ['1', '0.3'], {}],
            ['add_interaction', 0, 'bonds', [1, 2], ['1', '0.4'], {}],
            ['add_interaction', 0, 'angles', [0, 1, 2], ['2', '120'], {}]]
    for k in (0, 1):
        ops.append(['add_node', 1, k, dict(atomname='B%d' % k, resid=1, charge_group=k + 1)])
    ops += [['add_edge', 1, 0, 1, {'order': 1}], ['add_interaction', 1, 'bonds', [0, 1], ['1', '0.5'], {}]]
    return ops


ALPHABET = [
    ['add_node', 0, 7, dict(atomname='X', resid=9, charge_group=9)],
    ['add_node', 0, 1, dict(atomname='Y')],                       # existing key: attributes updated
    ['add_nodes_from', 0, [[9, dict(resid=7, charge_group=7)], [8, dict(resid=6, charge_group=6)]], 'list'],
    ['add_nodes_from', 0, [[6, dict(resid=8, charge_group=8)], 5], 'gen'],
    ['add_nodes_from', 0, [[9, dict(resid=4, charge_group=7)]], 'list'],   # same resid as atom 4 after a merge, other charge group
    ['remove_node', 0, 2],
    ['remove_node', 0, 4],                                        # present only after a merge
    ['remove_nodes_from', 0, [1], 'list'],
    ['remove_nodes_from', 0, [1, 3], 'gen'],
    ['add_interaction', 0, 'bonds', [0, 2], ['1', '0.6'], {}],
    ['add_interaction', 0, 'bonds', [0, 4], ['1', '0.7'], {}],   # KeyError unless 4 exists
    ['add_or_replace', 0, 'bonds', [0, 1], ['1', '0.9'], {}],
    ['remove_interaction', 0, 'bonds', [1, 2], 0],
    ['merge', 0, 1],
    ['merge', 1, 0],
    ['copy', 0],
    ['subgraph', 0, [0, 1], 'list'],
    ['set_attr', 2, 0, 'resid', 77],                              # edits the first copy / subgraph, if any
    ['remove_node', 2, 1],
    ['merge', 2, 1],
]


def boundary_prefix():
    """two empty molecules and a molecule with the bonded atoms 0 and 1."""
    return [['new', 'Molecule'], ['new', 'Molecule'], ['new', 'Molecule'],
            ['add_node', 2, 0, dict(atomname='S', resid=1, charge_group=1)],
            ['add_node', 2, 1, dict(atomname='T', resid=2, charge_group=1)],
            ['add_edge', 2, 0, 1, {}], ['add_interaction', 2, 'bonds', [0, 1], ['1', '0.2'], {}]]


BOUNDARY_ALPHABET = [
    ['merge', 0, 1],                                              # empty newcomer
    ['merge', 0, 2],
    ['add_node', 0, -2, dict(resid=2, charge_group=2)],           # negative key
    ['add_node', 0, 0, dict(resid=1, charge_group=1)],
    ['add_node', 0, 3, dict(resid=3, charge_group=3)],
    ['remove_node', 0, 3],
    ['remove_nodes_from', 0, [0, 1], 'gen'],
    ['add_nodes_from', 0, [-5, [2, dict(resid=5, charge_group=5)]], 'list'],
    ['copy', 0],
    ['merge', 3, 2],                                              # into the first copy, if any
]


def exhaustive(col, known, prefix, alphabet, depth, deadline):
    n = 0

    def rec(seq):
        nonlocal n
        if time.time() > deadline:
            return False
        if seq:
            record(prefix + seq, col, known)
            n += 1
        if len(seq) < depth:
            for op in alphabet:
                if not rec(seq + [op]):
                    return False
        return True
    complete = rec([])
    return complete, n


# --------------------------------------------------------------------------------------------- random histories
def rand_attrs(rng, named=None):
    attrs = {}
    if named is not None:
        attrs['atomname'] = named
    elif rng.random() < 0.7:
        attrs['atomname'] = rng.choice(['C', 'N', 'O', 'BB', 'SC1'])
    if rng.random() < 0.85:
        attrs['resid'] = rng.randint(1, 6)
    if rng.random() < 0.8:
        attrs['charge_group'] = rng.randint(1, 5)
    if rng.random() < 0.5:
        attrs['chain'] = rng.choice(['A', 'B'])
    return attrs


def rand_inter(rng, model, allow_missing=True):
    type_ = rng.choice(TYPES)
    n = {'bonds': 2, 'constraints': 2, 'angles': 3, 'impropers': 4}[type_]
    pool = list(model.order)
    if allow_missing and rng.random() < 0.15:
        pool = pool + [rng.choice(INT_POOL + NAME_POOL)]
    if len(pool) < n:
        n = max(1, len(pool))
    if not pool:
        pool = [rng.choice(INT_POOL)]
        n = 1
    atoms = rng.sample(pool, n)
    params = [str(rng.randint(1, 3)), rng.choice(['0.3', '0.47', '120'])][:rng.randint(0, 2)]
    meta = {}
    if rng.random() < 0.25:
        meta['version'] = rng.randint(0, 2)
    if rng.random() < 0.15:
        meta['edge'] = False
    if rng.random() < 0.15:
        meta['comment'] = 'c'
    return type_, atoms, params, meta


def gen_op(rng, world):
    slots = world.slots
    if not slots:
        return ['new', rng.choice(['Molecule', 'Molecule', 'Block'])]
    m = rng.randrange(len(slots))
    mod = slots[m].model
    named = mod.kind == 'Block' or any(isinstance(k, str) for k in mod.order)
    pool = NAME_POOL if named else INT_POOL
    present = list(mod.order)
    some = lambda: rng.choice(present) if present and rng.random() < 0.9 else rng.choice(pool)
    kind = rng.choices(
        ['new', 'add_node', 'add_atom', 'add_nodes_from', 'set_attr', 'remove_node', 'remove_nodes_from', 'add_edge',
         'remove_edge', 'prune_edges', 'add_interaction', 'add_or_replace', 'remove_interaction', 'remove_matching',
         'make_edges', 'copy', 'subgraph', 'merge', 'to_molecule', 'add_block'],
        [2, 10, 3, 4, 5, 7, 6, 7, 2, 1, 10, 4, 4, 3, 2, 4, 5, 20, 3, 3])[0]
    if kind == 'new':
        return ['new', rng.choice(['Molecule', 'Molecule', 'Block'])]
    if kind == 'add_node':
        if named:
            key = rng.choice(pool)
            return ['add_node', m, key, rand_attrs(rng, key)]
        r = rng.random()
        if present and r < 0.3 and all(isinstance(k, int) for k in present):
            key = max(present) + rng.choice([1, 1, 2, 5])
        elif present and r < 0.45:
            key = rng.choice(present)
        else:
            key = rng.choice(pool)
        return ['add_node', m, key, rand_attrs(rng)]
    if kind == 'add_atom':
        attrs = rand_attrs(rng, rng.choice(NAME_POOL))
        if rng.random() < 0.1:
            del attrs['atomname']
        return ['add_atom', m, attrs]
    if kind == 'add_nodes_from':
        items = []
        for _ in range(rng.randint(1, 3)):
            key = rng.choice(pool)
            items.append([key, rand_attrs(rng, key if named else None)] if rng.random() < 0.6 else key)
        return ['add_nodes_from', m, items, rng.choice(['list', 'gen'])]
    if kind == 'set_attr':
        return ['set_attr', m, some(), rng.choice(['resid', 'charge_group', 'atomname', 'mass']), rng.randint(1, 9)]
    if kind == 'remove_node':
        if present and all(isinstance(k, int) for k in present) and rng.random() < 0.3:
            return ['remove_node', m, max(present)]
        return ['remove_node', m, some()]
    if kind == 'remove_nodes_from':
        keys = [some() for _ in range(rng.randint(0, 3))]
        return ['remove_nodes_from', m, keys, rng.choice(HOWS)]
    if kind == 'add_edge':
        return ['add_edge', m, some(), some(), rng.choice([{}, {}, {'order': 2}])]
    if kind == 'remove_edge':
        if mod.edges:
            u, v = tuple(rng.choice(sorted(mod.edges, key=repr)))
            return ['remove_edge', m, u, v]
        return ['remove_edge', m, some(), some()]
    if kind == 'prune_edges':
        return ['prune_edges', m, [some() for _ in range(rng.randint(0, 2))], [some() for _ in range(rng.randint(0, 3))]]
    if kind == 'add_interaction':
        return ['add_interaction', m] + list(rand_inter(rng, mod))
    if kind in ('add_or_replace', 'remove_interaction', 'remove_matching'):
        existing = [(t, x) for t, lst in mod.inter.items() for x in lst]
        if existing and rng.random() < 0.75:
            t, (atoms, params, meta) = rng.choice(existing)
            atoms, params, meta = list(atoms), list(params), dict(meta)
        else:
            t, atoms, params, meta = rand_inter(rng, mod)
        if kind == 'add_or_replace':
            return ['add_or_replace', m, t, atoms, [str(rng.randint(4, 9))], meta]
        if kind == 'remove_interaction':
            return ['remove_interaction', m, t, atoms, meta.get('version', 0) if rng.random() < 0.85 else 1]
        return ['remove_matching', m, t, atoms, params if rng.random() < 0.5 else []]
    if kind == 'make_edges':
        return ['make_edges', m]
    if kind == 'copy':
        return ['copy', m]
    if kind == 'subgraph':
        keys = [k for k in present if rng.random() < 0.6]
        rng.shuffle(keys)
        return ['subgraph', m, keys, rng.choice(['list', 'list', 'tuple', 'set', 'dictkeys', 'gen'])]
    if kind == 'merge':
        return ['merge', m, rng.randrange(len(slots))]
    if kind == 'to_molecule':
        return ['to_molecule', m, rng.choice([0, 0, 1, 5]), rng.choice([0, 0, 3]), rng.choice([0, 2]),
                rng.choice([{}, {}, {'resname': 'ALA'}])]
    if kind == 'add_block':
        return ['add_block', rng.choice([None, rng.randrange(len(slots))]), m]
    raise AssertionError(kind)


def seed_molecule(rng, slot, kind):
    """operations that build a small molecule in a fresh slot."""
    ops = [['new', kind]]
    n = rng.randint(0, 4)
    if kind == 'Block':
        keys = rng.sample(NAME_POOL, n)
    else:
        style = rng.random()
        if style < 0.35:
            keys = list(range(n))
        elif style < 0.55:
            start = rng.choice([1, 3, 10])
            keys = list(range(start, start + n))
        else:
            keys = rng.sample(INT_POOL, n)           # sparse, unordered
    for k in keys:
        if kind == 'Block':
            ops.append(['add_atom', slot, rand_attrs(rng, k)])
        else:
            ops.append(['add_node', slot, k, rand_attrs(rng)])
    model = Model(kind)
    model.order = list(keys)
    for _ in range(rng.randint(0, 3)):
        if len(keys) >= 2:
            u, v = rng.sample(keys, 2)
            ops.append(['add_edge', slot, u, v, rng.choice([{}, {'order': 2}])])
    for _ in range(rng.randint(0, 4)):
        if keys:
            ops.append(['add_interaction', slot] + list(rand_inter(rng, model, allow_missing=False)))
    return ops


def random_history(rng, length):
    """generate while executing (operations are chosen with a view on the current state). Returns the operations."""
    world = World(Collector('scratch'))
    ops = []
    try:
        for slot in range(rng.randint(1, 3)):
            for op in seed_molecule(rng, slot, rng.choice(['Molecule', 'Molecule', 'Molecule', 'Block'])):
                ops.append(op)
                world.apply(op)
        done = 0
        tries = 0
        while done < length and tries < 5 * length:
            tries += 1
            op = gen_op(rng, world)
            ops.append(op)
            if world.apply(op) == 'done':
                done += 1
            else:
                ops.pop()
    except Stop:
        pass
    return ops


# --------------------------------------------------------------------------------------------- processors
def build_molecules(rng, n_min=1, n_max=4):
    """molecules (numbered keys, not empty) that went through a short clean editing history: [(real, model)]."""
    for _attempt in range(20):
        world = World(Collector('scratch'))
        ops = []
        try:
            for slot in range(rng.randint(n_min, n_max)):
                for op in seed_molecule(rng, slot, 'Molecule'):
                    ops.append(op)
                    world.apply(op)
            for _ in range(rng.randint(0, 6)):
                op = gen_op(rng, world)
                if op[0] in ('new', 'add_block', 'to_molecule', 'add_atom'):
                    continue
                if world.apply(op) == 'done':
                    ops.append(op)
        except Stop:
            continue
        good = [i for i, s in enumerate(world.slots)
                if s.model.order and all(isinstance(k, int) for k in s.model.order)]
        if len(good) >= n_min:
            return ops, [(world.slots[i].real, world.slots[i].model) for i in good], good
    return None, [], []


def direct_fold_clause(ops, slots, fresh_base):
    """attribution of a failed processor check: rebuild the molecules, merge them directly with merge_molecule in the
    documented order and say which clause (if any) merge_molecule itself violates."""
    from vermouth.molecule import Molecule
    _hits, world = run_history(ops, Collector('scratch'))
    try:
        parts = [world.slots[i] for i in slots]
    except IndexError:
        return None
    if fresh_base:
        recv, before = Molecule(nrexcl=1), Model()
    else:
        recv, before, parts = parts[0].real, parts[0].model.clone(), parts[1:]
    for part in parts:
        try:
            corr = recv.merge_molecule(part.real)
        except Exception:  # pylint: disable=broad-except
            return 'raises'
        problem, exp = merge_clauses(before, part.model, real_view(recv), corr)
        if problem:
            return problem[0]
        if diff(real_view(part.real), part.model.view()):
            return 'independence'
        before = exp
    return None


def blame(col, stage, function, clause, text, inp, observed, expected, fold):
    """report under the processor's key unless merge_molecule on its own violates the same clause on these inputs."""
    direct = direct_fold_clause(*fold) if fold is not None else None
    if direct is not None:
        col.violation('merge_molecule/%s' % direct, 'Molecule.merge_molecule',
                      'merge_molecule on its own already fails on these molecules; seen through %s as: %s' % (stage, text),
                      inp, observed, expected)
    else:
        col.violation('%s/%s' % (stage, clause), function, text, inp, observed, expected)


def fold_check(col, stage, function, base, others, got, inp, fold):
    """`got` (view) must be `base` (model, may be empty) with `others` (models) merged in, in that order.
    Returns the expected model or None after reporting."""
    cur = base.clone()
    pos = len(cur.order)
    total = pos + sum(len(o.order) for o in others)
    if len(got['order']) != total:
        blame(col, stage, function, 'atoms-kept', 'the merged molecule does not hold every atom of its parts', inp,
              _jsonable(got['order']), '%d atoms' % total, fold)
        return None
    for other in others:
        part = restrict(got, got['order'][:pos + len(other.order)])
        problem, exp = merge_clauses(cur, other, part, None)
        if problem:
            clause, text, observed, expected = problem
            blame(col, stage, function, clause, text, inp, observed, expected, fold)
            return None
        cur = exp
        pos += len(other.order)
    return cur


def unchanged(col, stage, function, pairs, inp, skip=()):
    for i, (real, model) in enumerate(pairs):
        if i in skip:
            continue
        d = diff(real_view(real), model.view())
        if d:
            col.violation('%s/source-changed' % stage, function, 'molecule #%d given to the operation was modified: %s' % (i, d),
                          inp, _jsonable(real_view(real)), _jsonable(model.view()))
            return False
    return True


def describe(ops, **extra):
    d = dict(history=ops)
    d.update(extra)
    return d


def processors_case(rng, col):
    from vermouth.system import System
    from vermouth.processors.merge_chains import merge_chains
    from vermouth.processors.merge_all_molecules import MergeAllMolecules
    from vermouth.edge_tuning import add_inter_molecule_edges
    ops, pairs, slot_ids = build_molecules(rng)
    if not pairs:
        return
    which = rng.choice(['merge_all', 'merge_chains', 'inter_edges', 'system_copy'])
    models = [m for _r, m in pairs]
    reals = [r for r, _m in pairs]
    nontrivial = len(pairs) > 1 and any(any(m.inter.values()) for m in models)
    system = System()
    system.molecules = list(reals)
    if which == 'merge_all':
        inp = describe(ops, then='MergeAllMolecules().run_system(System(molecules=the %d numbered non-empty molecules))' % len(pairs))
        col.case(fingerprint([which, ops]), nontrivial, inp)
        try:
            MergeAllMolecules().run_system(system)
        except Exception as err:  # pylint: disable=broad-except
            blame(col, 'MergeAllMolecules', 'MergeAllMolecules.run_system', 'raises', 'merging all molecules failed',
                  inp, '%s: %s' % (type(err).__name__, err), 'no error', (ops, slot_ids, False))
            return
        if len(system.molecules) != 1 or system.molecules[0] is not reals[0]:
            col.violation('MergeAllMolecules/result', 'MergeAllMolecules.run_system', 'the system does not hold the first molecule only',
                          inp, len(system.molecules), 1)
            return
        got = real_view(reals[0])
        exp = fold_check(col, 'MergeAllMolecules', 'MergeAllMolecules.run_system', models[0], models[1:], got, inp,
                         (ops, slot_ids, False))
        if exp is not None:
            unchanged(col, 'MergeAllMolecules', 'MergeAllMolecules.run_system', pairs, inp, skip={0})
    elif which == 'merge_chains':
        chains_of = [set(a.get('chain') for a in m.attrs.values()) for m in models]
        if rng.random() < 0.4:
            chains, all_chains = [], True
            wanted = set().union(*chains_of)
        else:
            chains, all_chains = rng.choice([['A'], ['B'], ['A', 'B'], ['A', 'Z']]), False
            wanted = set(chains)
        selected = [i for i, c in enumerate(chains_of) if c <= wanted]
        inp = describe(ops, then='merge_chains(system, %r, %r)' % (chains, all_chains))
        col.case(fingerprint([which, chains, all_chains, ops]), nontrivial and len(selected) > 1, inp)
        try:
            merge_chains(system, chains, all_chains)
        except Exception as err:  # pylint: disable=broad-except
            blame(col, 'merge_chains', 'merge_chains', 'raises', 'merging chains failed', inp,
                  '%s: %s' % (type(err).__name__, err), 'no error', (ops, [slot_ids[j] for j in selected], True))
            return
        expected_len = len(pairs) - len(selected) + (1 if selected else 0)
        if len(system.molecules) != expected_len:
            col.violation('merge_chains/result', 'merge_chains', 'wrong number of molecules afterwards', inp,
                          len(system.molecules), expected_len)
            return
        out = iter(system.molecules)
        merged_seen = False
        for i, real in enumerate(reals):
            if i in selected:
                if merged_seen:
                    continue
                merged_seen = True
                merged = next(out)
                if any(merged is r for r in reals):
                    col.violation('merge_chains/result', 'merge_chains', 'the merged molecule is one of the inputs', inp, i, 'a new molecule')
                    return
                if fold_check(col, 'merge_chains', 'merge_chains', Model(), [models[j] for j in selected],
                              real_view(merged), inp, (ops, [slot_ids[j] for j in selected], True)) is None:
                    return
            elif next(out) is not real:
                col.violation('merge_chains/result', 'merge_chains', 'a molecule outside the selection was replaced or moved', inp, i, i)
                return
        unchanged(col, 'merge_chains', 'merge_chains', pairs, inp)
    elif which == 'inter_edges':
        edges = []
        for _ in range(rng.randint(0, 3)):
            a, b = rng.randrange(len(pairs)), rng.randrange(len(pairs))
            ka, kb = rng.choice(models[a].order), rng.choice(models[b].order)
            if (a, ka) == (b, kb):
                continue
            edge = [[a, ka], [b, kb]]
            if rng.random() < 0.3:
                edge.append({'via': 'x'})
            edges.append(edge)
        inp = describe(ops, then='add_inter_molecule_edges(molecules, %r)' % (edges,))
        col.case(fingerprint([which, edges, ops]), nontrivial and bool(edges), inp)
        arg = [tuple([tuple(e[0]), tuple(e[1])] + e[2:]) for e in edges]
        try:
            result = add_inter_molecule_edges(list(reals), arg)
        except Exception as err:  # pylint: disable=broad-except
            # which group failed is not known: try them all
            comp = list(range(len(pairs)))
            for e in edges:
                a, b = comp[e[0][0]], comp[e[1][0]]
                if a != b:
                    comp = [min(a, b) if c in (a, b) else c for c in comp]
            direct = [direct_fold_clause(ops, [slot_ids[i] for i in range(len(pairs)) if comp[i] == b], False)
                      for b in sorted(set(comp))]
            direct = [d for d in direct if d]
            if direct:
                col.violation('merge_molecule/%s' % direct[0], 'Molecule.merge_molecule', 'merge_molecule on its own already '
                              'fails on these molecules; seen through add_inter_molecule_edges', inp,
                              '%s: %s' % (type(err).__name__, err), 'no error')
            else:
                col.violation('add_inter_molecule_edges/raises', 'add_inter_molecule_edges', 'linking molecules failed', inp,
                              '%s: %s' % (type(err).__name__, err), 'no error')
            return
        # components, naively
        comp = list(range(len(pairs)))
        for e in edges:
            a, b = comp[e[0][0]], comp[e[1][0]]
            if a != b:
                comp = [min(a, b) if c in (a, b) else c for c in comp]
        bases = sorted(set(comp))
        if len(result) != len(bases) or any(result[i] is not reals[b] for i, b in enumerate(bases)):
            col.violation('add_inter_molecule_edges/result', 'add_inter_molecule_edges',
                          'the result is not the first molecule of every linked group, in order', inp, len(result), len(bases))
            return
        for b in bases:
            members = [i for i in range(len(pairs)) if comp[i] == b]
            got = real_view(reals[b])
            # the requested bonds, expressed on the merged molecule (positional correspondence)
            where = {}
            pos = 0
            for i in members:
                for j, k in enumerate(models[i].order):
                    where[(i, k)] = pos + j
                pos += len(models[i].order)
            fold = (ops, [slot_ids[i] for i in members], False)
            if len(got['order']) != pos:
                blame(col, 'add_inter_molecule_edges', 'add_inter_molecule_edges', 'atoms-kept',
                      'a linked group does not hold every atom of its molecules', inp, len(got['order']), pos, fold)
                return
            extra = {}
            for e in edges:
                if comp[e[0][0]] != b:
                    continue
                u, v = got['order'][where[tuple(e[0])]], got['order'][where[tuple(e[1])]]
                extra.setdefault(frozenset((u, v)), {}).update(e[2] if len(e) > 2 else {})
            # bonds the operands had, expressed on the merged molecule
            from_parts = set()
            for i in members:
                for ed in models[i].edges:
                    u, v = tuple(ed)
                    from_parts.add(frozenset((got['order'][where[(i, u)]], got['order'][where[(i, v)]])))
            missing = [sorted(ed, key=repr) for ed in extra if ed not in got['edges'] or
                       any(got['edges'][ed].get(k) != v for k, v in extra[ed].items())]
            if missing:
                col.violation('add_inter_molecule_edges/bonds-added', 'add_inter_molecule_edges',
                              'a requested bond (or its attributes) is missing', inp, _jsonable(got['edges']), missing)
                return
            # without the requested bonds (attribute 'via' is only ever set by a request) the rest is the plain merge
            stripped = dict(got)
            stripped['edges'] = {}
            for ed, d in got['edges'].items():
                if ed in extra and ed not in from_parts:
                    continue
                if ed in extra:
                    d = {k: v for k, v in d.items() if k not in extra[ed]}
                stripped['edges'][ed] = d
            if fold_check(col, 'add_inter_molecule_edges', 'add_inter_molecule_edges', models[members[0]],
                          [models[i] for i in members[1:]], stripped, inp, fold) is None:
                return
        unchanged(col, 'add_inter_molecule_edges', 'add_inter_molecule_edges', pairs, inp, skip=set(bases))
    else:
        inp = describe(ops, then='copy = system.copy(); edit every molecule of the copy')
        col.case(fingerprint([which, ops]), any(any(m.inter.values()) for m in models), inp)
        new = system.copy()
        if len(new.molecules) != len(reals) or any(a is b for a, b in zip(new.molecules, reals)):
            col.violation('System.copy/effect', 'System.copy', 'the copy does not hold one new molecule per molecule', inp,
                          len(new.molecules), len(reals))
            return
        for cp, model in zip(new.molecules, models):
            d = diff(real_view(cp), model.view())
            if d:
                col.violation('System.copy/effect', 'System.copy', 'a copied molecule differs from its source: ' + d, inp,
                              _jsonable(real_view(cp)), _jsonable(model.view()))
                return
            first = model.order[0]
            cp.nodes[model.order[-1]]['resid'] = 99
            cp.add_node(first, atomname='edited')
            cp.add_interaction('bonds', (first, model.order[-1]), ['9'])
            cp.remove_node(first)
        if not unchanged(col, 'System.copy', 'System.copy', pairs, inp):
            return


# --------------------------------------------------------------------------------------------- entry points
def bounded(tier, seed):
    logging.disable(logging.CRITICAL)
    try:
        return _bounded(tier, seed)
    finally:
        logging.disable(logging.NOTSET)


def _bounded(tier, seed):
    rng = random.Random(seed)
    quick = tier != 'thorough'
    col = Collector(
        'histories of editing operations on up to 6 live molecules/blocks (add_node, add_atom, add_nodes_from, attribute '
        'assignment, remove_node, remove_nodes_from with list/tuple/set/generator/iterator/dict-keys, add/remove/prune '
        'edges, add/add_or_replace/remove/remove_matching interaction, make_edges_from_interactions, copy, subgraph, '
        'merge_molecule, Block.to_molecule, MappingBuilder._add_block), the real objects paired with a naive model and '
        'all live molecules compared after every step; exhaustive: every sequence of <= depth operations from an '
        'alphabet of %d concrete operations after a fixed two-molecule prefix, and the same for a second alphabet on '
        'empty molecules / negative keys; then seeded random histories (<= 14 '
        'operations, sparse/unordered/negative/named keys, missing resid/charge_group) and MergeAllMolecules / '
        'merge_chains / add_inter_molecule_edges / System.copy on molecules that went through an editing history. '
        'non-trivial = some remove/merge/copy/subgraph acted on a molecule that has interactions' % len(ALPHABET), max_violations=20)
    known = set()
    t0 = time.time()
    depth = 3 if quick else 4
    complete, n = exhaustive(col, known, base_prefix(), ALPHABET, depth, t0 + (25 if quick else 420))
    depth2 = 3 if quick else 5
    complete2, n2 = exhaustive(col, known, boundary_prefix(), BOUNDARY_ALPHABET, depth2, t0 + (32 if quick else 600))
    if complete and complete2:
        col.exhaustive = True
        col.bound = ('all %d sequences of 1..%d operations over an alphabet of %d operations after a prefix building a '
                     '3-atom and a 2-atom molecule; all %d sequences of 1..%d operations over an alphabet of %d operations '
                     'on two empty molecules and a 2-atom molecule (empty operands, negative keys)' % (
                         n, depth, len(ALPHABET), n2, depth2, len(BOUNDARY_ALPHABET)))
    else:
        col.bound = 'exhaustive part cut by its time budget after %d + %d sequences (depths %d, %d)' % (n, n2, depth, depth2)
    n_rand = 1800 if quick else 30000
    limit = t0 + (42 if quick else 720)
    for i in range(n_rand):
        if time.time() > limit:
            break
        rng = random.Random(seed * 1000003 + i)     # one stream per history: what is generated does not depend on
        ops = random_history(rng, rng.randint(3, 14))  # how earlier histories ended
        record(ops, col, known)
    n_proc = 1200 if quick else 15000
    limit = t0 + (52 if quick else 840)
    for i in range(n_proc):
        if time.time() > limit:
            break
        processors_case(random.Random(seed * 1000003 + 500000 + i), col)
    return col.result()


def replay_input(inp):
    """re-run the `input` of a reported violation (its history of operations) on the working tree.
    Returns the violation found now (dict) or None if the history passes."""
    if not isinstance(inp, dict) or 'history' not in inp or 'then' in inp:
        return None
    logging.disable(logging.CRITICAL)
    try:
        col = Collector('replay')
        run_history([list(op) for op in inp['history']], col)
    finally:
        logging.disable(logging.NOTSET)
    return col.violations[0] if col.violations else None


def replay_model(function, model):
    """a counter-model that carries a concrete history of operations (key 'history') is re-run natively; the abstract
    counter-models of the per-method contracts do not determine a history and are not replayed here."""
    if isinstance(model, dict) and 'history' in model:
        return replay_input(model)
    return None

"""C07 bounded stand-in: the real deferred writer, the real library writers and the real bin/martinize2 run natively
on small inputs; the oracle is a ghost file system (dict path -> bytes) evolved straight from the property statement.

Three stages
  A  histories of deferred open/write/append followed by close()/write() over 4 destinations with pre-existing files
     and pre-existing backups (also with gaps), every spelling of a path, cwd changed before finalisation; fault
     injection before/after/in the middle of every effectful call made during finalisation
  B  every library writer called with its default arguments: nothing on disk until finalisation, nothing at all
     after discarding, destination + byte-exact backup after finalisation
  C  bin/martinize2 as a subprocess: warnings read back from its log, allowance computed from the statement,
     then: leftover > 0  =>  exit != 0, no new file (except -write-*), nothing changed;  exit 0  =>  outputs there,
     pre-existing files byte for byte under the first free backup name
"""
import builtins
import itertools
import locale
import logging
import os
import pathlib
import random
import re
import shutil
import subprocess
import sys
import tempfile
import threading

from .common import Collector, REPO, load_cli

ENC = locale.getpreferredencoding(False)
NAMES = ['a.txt', 'b.itp', 'sub/c.pdb', 'd']
W_FN = 'DeferredFileWriter.write'


# ---------------------------------------------------------------------------------------------------------------
# ghost file system helpers (oracle side: plain dicts, nothing from /repo)
# ---------------------------------------------------------------------------------------------------------------
def snap(root):
    out = {}
    for dp, _dn, fn in os.walk(root):
        for f in fn:
            p = os.path.join(dp, f)
            try:
                with builtins.open(p, 'rb') as h:
                    out[os.path.relpath(p, root)] = h.read()
            except OSError:
                out[os.path.relpath(p, root)] = None
    return out


def backup_name(rel, k):
    d, n = os.path.split(rel)
    return os.path.join(d, '#%s.%d#' % (n, k))


def first_free_backup(rel, files):
    k = 1
    while backup_name(rel, k) in files:
        k += 1
    return backup_name(rel, k)


_BACKUP_RE = re.compile(r'^#(.*)\.(\d+)#$')


def in_universe(rel, names):
    """is `rel` one of the destination names or a backup-looking name of one of them"""
    if rel in names:
        return True
    d, n = os.path.split(rel)
    m = _BACKUP_RE.match(n)
    return bool(m) and os.path.join(d, m.group(1)) in names


def restrict(files, names, also=()):
    return {k: v for k, v in files.items() if in_universe(k, names) or k in also}


def short(b, n=40):
    if b is None:
        return None
    if isinstance(b, bytes):
        s = b.decode('latin-1')
    else:
        s = str(b)
    return s if len(s) <= n else s[:n] + '...(%d)' % len(s)


def show(files):
    return {k: short(v) for k, v in sorted(files.items())}


def tobytes(data):
    return data if isinstance(data, bytes) else data.encode(ENC)


# ---------------------------------------------------------------------------------------------------------------
# stage A: oracle of a history
# ---------------------------------------------------------------------------------------------------------------
def flat_ops(ops):
    for op in ops:
        if op[0] == 'pair':
            yield op[1]
            yield op[2]
        elif op[0] == 'w':
            yield op


def model(pre, ops):
    """pending table by the statement: destination -> [kind, acceptable contents].  kind 'w': the destination
    ends up holding what was written; kind 'a': old content followed by what was written."""
    pend = {}
    for _t, rel, _sp, mode, data in flat_ops(ops):
        b = tobytes(data)
        base = mode.replace('b', '').replace('t', '')
        if rel not in pend:
            if base in ('w', 'w+'):
                pend[rel] = ['w', [b]]
            elif base == 'a':
                pend[rel] = ['a', [b]]
            elif base == 'r+':
                old = pre[rel]
                # r+ starts from the old content; the statement only speaks of 'what was written', so a writer that
                # starts r+ from nothing is tolerated too
                pend[rel] = ['w', [b + old[len(b):], b]]
            else:
                raise AssertionError(mode)
        else:
            kind, bufs = pend[rel]
            if base in ('w', 'w+'):
                assert kind == 'w'
                pend[rel][1] = [b]
            elif base == 'a':
                pend[rel][1] = [x + b for x in bufs]
            elif base == 'r+':
                assert kind == 'w'
                pend[rel][1] = [b + x[len(b):] for x in bufs]
    return pend


def expected_after_write(pre, pend):
    exp = dict(pre)
    new_backups = {}
    for rel, (kind, bufs) in pend.items():
        if kind == 'w':
            if rel in pre:
                bk = first_free_backup(rel, pre)
                exp[bk] = pre[rel]
                new_backups[rel] = bk
            exp[rel] = bufs[0]
        else:
            exp[rel] = pre.get(rel, b'') + bufs[0]
    return exp, new_backups


def judge_final(col, pre, pend, got, inp, tag=''):
    """compare the directory after finalisation with the statement; one violation key per clause"""
    names = set(NAMES)
    exp, new_backups = expected_after_write(pre, pend)
    got = restrict(got, names, also=pre)
    ok = True
    for rel, (kind, bufs) in pend.items():
        if kind == 'w':
            acc = bufs
            key = 'DeferredFileWriter.write/content'
            fn = 'DeferredFileWriter._write_file'
        else:
            acc = [pre.get(rel, b'') + x for x in bufs]
            key = 'DeferredFileWriter.write/append-content'
            fn = 'DeferredFileWriter._append_file'
        if got.get(rel) not in acc:
            ok = False
            col.violation(key + tag, fn, 'destination does not hold what was written for it after finalisation',
                          inp, {rel: short(got.get(rel), 120)}, {rel: short(acc[0], 120)})
    for rel, bk in new_backups.items():
        if got.get(bk) != pre[rel]:
            ok = False
            col.violation('DeferredFileWriter.write/backup' + tag, 'DeferredFileWriter._write_file',
                          'pre-existing destination is not kept byte for byte under the first free #name.N# name',
                          inp, show(got), show(exp))
    for rel in pre:
        if rel in pend:
            continue
        if got.get(rel) != pre[rel]:
            ok = False
            what = 'a pre-existing backup file was changed or removed' if _BACKUP_RE.match(os.path.basename(rel)) \
                else 'a pre-existing file that is no destination was changed or removed'
            key = 'DeferredFileWriter.write/backup-overwritten' if _BACKUP_RE.match(os.path.basename(rel)) \
                else 'DeferredFileWriter.write/other-file-changed'
            col.violation(key + tag, 'DeferredFileWriter._write_file', what, inp, show(got), show(exp))
    for rel in got:
        if rel in exp:
            continue
        # tolerated: append mode that also keeps the old content under the first free backup name
        m = [d for d, (kind, _b) in pend.items() if kind == 'a' and d in pre and rel == first_free_backup(d, pre)
             and got[rel] == pre[d]]
        if m:
            continue
        ok = False
        col.violation('DeferredFileWriter.write/unexpected-file' + tag, W_FN,
                      'finalisation produced a file that is neither a destination nor the first free backup',
                      inp, show(got), show(exp))
    return ok


def safe(pre, pend, got):
    """every pre-existing file still exists intact under its own or a backup name (append destinations: the old
    content is still the beginning of the file). returns the list of lost files."""
    lost = []
    for rel, content in pre.items():
        if got.get(rel) == content:
            continue
        d, n = os.path.split(rel)
        if any(v == content for p, v in got.items()
               if os.path.dirname(p) == d and _BACKUP_RE.match(os.path.basename(p))
               and _BACKUP_RE.match(os.path.basename(p)).group(1) == n):
            continue
        if rel in pend and pend[rel][0] == 'a' and got.get(rel) is not None and got[rel].startswith(content):
            continue
        lost.append(rel)
    return lost


# ---------------------------------------------------------------------------------------------------------------
# stage A: fault injection
# ---------------------------------------------------------------------------------------------------------------
class Injected(OSError):
    pass


class InjectedInterrupt(KeyboardInterrupt):
    pass


class _PartialHandle:
    """file handle that writes the first half of the first chunk and then fails (crash in the middle of a write)"""

    def __init__(self, handle, inj):
        self._h = handle
        self._inj = inj

    def write(self, data):
        half = data[:len(data) // 2]
        self._h.write(half)
        self._h.flush()
        self._inj.fired = True
        raise self._inj.exc('injected: crash in the middle of a write')

    def __enter__(self):
        self._h.__enter__()
        return self

    def __exit__(self, *a):
        return self._h.__exit__(*a)

    def __getattr__(self, name):
        return getattr(self._h, name)


class Injector:
    """counts the outermost effectful file-system calls made while armed and fails the k-th one"""

    def __init__(self, fw):
        self.fw = fw
        self.armed = False
        self.depth = 0
        self.count = 0
        self.k = 0
        self.when = 'before'
        self.exc = Injected
        self.fired = False
        self.saved = []
        self.thread = threading.get_ident()

    def install(self):
        targets = [(os, 'rename'), (os, 'replace'), (os, 'remove'), (os, 'unlink'), (os, 'link'), (os, 'symlink'),
                   (os, 'truncate'), (shutil, 'move'), (shutil, 'copy'), (shutil, 'copy2'), (shutil, 'copyfile'),
                   (builtins, 'open')]
        if hasattr(self.fw, '_open'):
            targets.append((self.fw, '_open'))
        for mod, name in targets:
            orig = getattr(mod, name)
            self.saved.append((mod, name, orig))
            setattr(mod, name, self._wrap(orig, name))

    def uninstall(self):
        for mod, name, orig in reversed(self.saved):
            setattr(mod, name, orig)
        self.saved = []

    def arm(self, k, when, exc):
        self.armed, self.depth, self.count, self.k, self.when, self.exc, self.fired = True, 0, 0, k, when, exc, False

    def disarm(self):
        self.armed = False

    def _wrap(self, orig, name):
        inj = self
        is_open = name in ('open', '_open')
        is_copy = name in ('move', 'copy', 'copy2', 'copyfile')

        def wrapper(*a, **kw):
            if not inj.armed or inj.depth > 0 or threading.get_ident() != inj.thread:
                return orig(*a, **kw)
            if is_open:
                mode = kw.get('mode', a[1] if len(a) > 1 else 'r')
                if not any(ch in mode for ch in 'wa+x'):
                    return orig(*a, **kw)
            inj.count += 1
            me = inj.count == inj.k
            if me and inj.when == 'before':
                inj.fired = True
                raise inj.exc('injected: before %s' % name)
            if me and inj.when == 'during' and is_copy:
                # a move across file systems is copy-then-unlink: crash with the copy half done, source intact
                src, dst = str(a[0]), str(a[1])
                inj.depth += 1
                try:
                    if os.path.isdir(dst):
                        dst = os.path.join(dst, os.path.basename(src))
                    with builtins.open(src, 'rb') as s:
                        data = s.read()
                    with builtins.open(dst, 'wb') as d:
                        d.write(data[:len(data) // 2])
                finally:
                    inj.depth -= 1
                inj.fired = True
                raise inj.exc('injected: in the middle of %s' % name)
            inj.depth += 1
            try:
                res = orig(*a, **kw)
            finally:
                inj.depth -= 1
            if me and inj.when == 'during' and is_open:
                return _PartialHandle(res, inj)
            if me and inj.when in ('after', 'during'):
                inj.fired = True
                raise inj.exc('injected: after %s' % name)
            return res
        return wrapper


# ---------------------------------------------------------------------------------------------------------------
# stage A: running a history against the real writer
# ---------------------------------------------------------------------------------------------------------------
def spell(rel, root, kind):
    if kind == 'rel':
        return rel
    if kind == 'abs':
        return os.path.join(root, rel)
    if kind == 'path':
        return pathlib.Path(root) / rel
    if kind == 'relpath':
        return pathlib.Path(rel)
    if kind == 'dot':
        return './' + rel
    if kind == 'dotdot':
        return 'sub/../' + rel
    raise AssertionError(kind)


SPELLINGS = ['rel', 'abs', 'path', 'relpath', 'dot', 'dotdot']


class StageA:
    def __init__(self, col, scratch):
        import vermouth.file_writer as fw
        self.fw = fw
        self.col = col
        self.scratch = scratch
        self.root = os.path.realpath(os.path.join(scratch, 'A'))
        self.tmp = os.path.realpath(os.path.join(scratch, 'A_tmp'))
        os.makedirs(self.tmp, exist_ok=True)
        self.inj = Injector(fw)
        self.n_inject = 0
        self.sampled = set()

    def writer(self):
        return self.fw.DeferredFileWriter()

    def reset(self, pre):
        os.chdir(self.scratch)
        if not os.path.isdir(self.root):
            os.makedirs(os.path.join(self.root, 'sub'))
            os.makedirs(os.path.join(self.root, 'elsewhere'))
        for dp, _dn, fn in os.walk(self.root):      # (removing directories is what is slow on this file system)
            for f in fn:
                os.remove(os.path.join(dp, f))
        for rel, content in pre.items():
            with builtins.open(os.path.join(self.root, rel), 'wb') as h:
                h.write(content)
        os.chdir(self.root)

    def discard(self):
        try:
            self.writer().close()
        except BaseException:  # pylint: disable=broad-except
            pass
        # a writer that lost track of its pending table must not leak into the next history
        try:
            self.writer().open_files.clear()
        except Exception:  # pylint: disable=broad-except
            pass
        for f in os.listdir(self.tmp):
            try:
                os.remove(os.path.join(self.tmp, f))
            except OSError:
                pass

    def do_op(self, op):
        opener = self.fw.deferred_open
        if op[0] == 'w':
            _t, rel, sp, mode, data = op
            with opener(spell(rel, self.root, sp), mode) as h:
                # two chunks: 'what was written' is the concatenation
                h.write(data[:len(data) // 3])
                h.write(data[len(data) // 3:])
        elif op[0] == 'pair':
            (_t1, rel1, sp1, mode1, data1), (_t2, rel2, sp2, mode2, data2) = op[1], op[2]
            h1 = opener(spell(rel1, self.root, sp1), mode1)
            h2 = opener(spell(rel2, self.root, sp2), mode2)
            try:
                h2.write(data2[:len(data2) // 2])
                h1.write(data1)
                h2.write(data2[len(data2) // 2:])
            finally:
                h2.close()
                h1.close()
        elif op[0] == 'r':
            _t, rel, sp = op
            with opener(spell(rel, self.root, sp), 'rb') as h:
                return h.read()
        return None

    def run(self, scen, inject=None):
        """returns 'ok' | 'violation' | 'fired' | 'notfired'"""
        col, pre, ops, end = self.col, scen['pre'], scen['ops'], scen['end']
        names = set(NAMES)
        inp = dict(pre=show(pre), ops=[describe(o) for o in ops], end=end, chdir=scen.get('chdir', False))
        if inject:
            inp['inject'] = dict(call=inject[0], when=inject[1], exc=inject[2].__name__)
        pend = model(pre, ops)
        self.reset(pre)
        status = 'ok'
        try:
            # ---- opens / writes: destinations untouched (history invariant H)
            for i, op in enumerate(ops):
                try:
                    res = self.do_op(op)
                except Exception as err:  # pylint: disable=broad-except
                    col.violation('DeferredFileWriter.open/exception', 'DeferredFileWriter.open',
                                  'a deferred open/write raised', dict(inp, at=i), repr(err), 'no exception')
                    return 'violation'
                if op[0] == 'r' and res != pre[op[1]]:
                    col.violation('DeferredFileWriter.open/read-passthrough', 'DeferredFileWriter.open',
                                  "mode 'r' on a file that is not pending does not give the file itself",
                                  dict(inp, at=i), short(res), short(pre[op[1]]))
                    status = 'violation'
                now = restrict(snap(self.root), names, also=pre)
                if now != pre:
                    col.violation('DeferredFileWriter.open/destination-touched', 'DeferredFileWriter.open',
                                  'the directory changed before finalisation', dict(inp, at=i), show(now), show(pre))
                    return 'violation'
            if scen.get('chdir'):
                os.chdir(os.path.join(self.root, 'elsewhere'))
            # ---- endings
            if end in ('close', 'close+write'):
                self.writer().close()
                now = restrict(snap(self.root), names, also=pre)
                if now != pre:
                    col.violation('DeferredFileWriter.close/destination-touched', 'DeferredFileWriter.close',
                                  'discarding the writer changed the directory', inp, show(now), show(pre))
                    return 'violation'
                if end == 'close+write':
                    self.writer().write()
                    now = restrict(snap(self.root), names, also=pre)
                    if now != pre:
                        col.violation('DeferredFileWriter.close/not-for-good', 'DeferredFileWriter.close',
                                      'a finalisation after discarding still changed the directory', inp, show(now),
                                      show(pre))
                        return 'violation'
                return status
            # end in ('write', 'write+write')
            if inject is None:
                try:
                    self.writer().write()
                except Exception as err:  # pylint: disable=broad-except
                    col.violation('DeferredFileWriter.write/exception', W_FN, 'finalisation raised', inp, repr(err),
                                  'no exception')
                    return 'violation'
                got = snap(self.root)
                if not judge_final(col, pre, pend, got, inp):
                    return 'violation'
                if end == 'write+write':
                    self.writer().write()
                    again = snap(self.root)
                    if restrict(again, names, also=pre) != restrict(got, names, also=pre):
                        col.violation('DeferredFileWriter.write/repeat', W_FN,
                                      'a second finalisation with nothing pending changed the directory', inp,
                                      show(again), show(got))
                        return 'violation'
                return status
            # ---- interrupted finalisation
            k, when, exc = inject
            self.inj.arm(k, when, exc)
            raised = None
            try:
                self.writer().write()
            except BaseException as err:  # pylint: disable=broad-except
                raised = err
            finally:
                self.inj.disarm()
            if not self.inj.fired:
                if raised is not None:
                    col.violation('DeferredFileWriter.write/exception', W_FN, 'finalisation raised', inp,
                                  repr(raised), 'no exception')
                    return 'violation'
                return 'notfired'
            self.n_inject += 1
            got = snap(self.root)
            lost = safe(pre, pend, got)
            if lost:
                kinds = {pend[r][0] if r in pend else 'o' for r in lost}
                fn = 'DeferredFileWriter._append_file' if kinds == {'a'} else 'DeferredFileWriter._write_file'
                col.violation('DeferredFileWriter.write/interrupted-loss', fn,
                              'finalisation interrupted: a pre-existing file no longer exists intact under its own '
                              'or a backup name', inp, dict(lost=lost, directory=show(got)), show(pre))
                return 'violation'
            # afterwards: discard (even k) or retry the finalisation (odd k); the old files must survive both
            try:
                if k % 2:
                    self.writer().write()
                self.writer().close()
            except Exception:  # pylint: disable=broad-except
                pass
            got = snap(self.root)
            lost = safe(pre, pend, got)
            if lost:
                col.violation('DeferredFileWriter.write/interrupted-loss-after-%s' % ('retry' if k % 2 else 'discard'),
                              W_FN, 'after an interrupted finalisation followed by %s a pre-existing file is gone'
                              % ('a second write()' if k % 2 else 'close()'), inp,
                              dict(lost=lost, directory=show(got)), show(pre))
                return 'violation'
            return 'fired'
        finally:
            self.inj.disarm()
            os.chdir(self.scratch)
            self.discard()

    def check(self, scen, inject_all, tag):
        pre, ops = scen['pre'], scen['ops']
        pend = model(pre, ops)
        nontriv = bool(pend) and (scen['end'].startswith('write') or bool(pre))
        fp = (tuple(sorted((k, v) for k, v in pre.items())), repr(ops), scen['end'], scen.get('chdir', False))
        r = self.run(scen)
        sample = None
        if tag not in self.sampled and scen['end'] == 'write' and len(ops) > 1 and any(k in pre for k in pend):
            self.sampled.add(tag)
            sample = dict(stage='A/' + tag, pre=show(pre), ops=[describe(o) for o in ops], end=scen['end'], result=r)
        self.col.case(fp, nontriv, sample)
        if r != 'ok' or not inject_all or not scen['end'].startswith('write') or not pend:
            return
        excs = (Injected, InjectedInterrupt)
        for when in ('before', 'after', 'during'):
            k = 0
            while k < 40:
                k += 1
                r = self.run(scen, inject=(k, when, excs[k % 2]))
                if r == 'notfired':
                    break
                self.col.case(fp + (k, when), True)
                if r == 'violation':
                    return


def describe(op):
    if op[0] == 'w':
        return ['open', op[1], op[2], op[3], short(op[4], 60)]
    if op[0] == 'pair':
        return ['interleaved', describe(op[1]), describe(op[2])]
    return ['read', op[1], op[2]]


def rand_text(rng, n):
    alphabet = 'abcXYZ 019;[]#\n\n\t'
    return ''.join(rng.choice(alphabet) for _ in range(n))


def rand_data(rng, mode, big=False):
    n = rng.choice([0, 1, 2, 5, 17, 40]) if not big else rng.randint(3000, 9000)
    if 'b' in mode:
        return bytes(rng.choice([0, 10, 13, 35, 65, 97, 200, 255]) for _ in range(n))
    s = rand_text(rng, n)
    if n and rng.random() < 0.15:
        s += 'µé'
    return s


def exhaustive_histories(quick):
    """one destination a.txt: {absent, present} x pre-existing backups subset of {1,2} x every sequence of <= 2 opens
    over the modes x every ending"""
    modes = ['w', 'a', 'r+'] if quick else ['w', 'a', 'r+', 'wb', 'ab', 'w+']
    rel = 'a.txt'
    for present in (False, True):
        for bset in ((), (1,), (2,), (1, 2)):
            pre = {'keep.me': b'unrelated\n'}
            if present:
                pre[rel] = b'OLD a\nline 2\n'
            for k in bset:
                pre[backup_name(rel, k)] = b'older %d\n' % k
            for n in (1, 2):
                for ms in itertools.product(modes, repeat=n):
                    if ms[0] == 'r+' and not present:
                        continue
                    if ms[0].startswith('a') and n == 2 and not ms[1].startswith('a'):
                        continue   # reopening an append entry for (over)writing: not specified
                    ops = []
                    for i, m in enumerate(ms):
                        d = ('first %s\n' % m if i == 0 else '2nd\n')
                        ops.append(('w', rel, 'rel' if i == 0 else 'abs', m, d.encode() if 'b' in m else d))
                    for end in ('write', 'close', 'close+write', 'write+write'):
                        yield dict(pre=pre, ops=ops, end=end)


def random_history(rng):
    pre = {}
    if rng.random() < 0.7:
        pre['keep.me'] = b'unrelated\n'
    for rel in NAMES:
        if rng.random() < 0.6:
            pre[rel] = tobytes(rand_data(rng, rng.choice(['w', 'wb'])) or 'old of %s\n' % rel)
        for k in (1, 2, 3):
            if rng.random() < (0.45 if k < 3 else 0.15):
                pre[backup_name(rel, k)] = b'backup %d of %s\n' % (k, rel.encode())
    kinds = {}
    ops = []

    def one(rel):
        if rel not in kinds:
            choices = ['w', 'w', 'a', 'a', 'wb', 'ab', 'w+', 'wt']
            if rel in pre:
                choices += ['r+', 'r+', 'rb+']
            mode = rng.choice(choices)
            kinds[rel] = ('ab' if 'b' in mode else 'a') if mode.startswith('a') else 'w'
        elif kinds[rel] == 'a':
            # an append entry opened as text is carried over as text: reopening it in binary mode (bytes that are
            # no text, carriage returns) is a mix the statement does not speak about
            mode = 'a'
        elif kinds[rel] == 'ab':
            mode = rng.choice(['a', 'ab'])
        else:
            mode = rng.choice(['w', 'a', 'a', 'ab', 'wb', 'r+'])
        return ('w', rel, rng.choice(SPELLINGS), mode, rand_data(rng, mode, big=rng.random() < 0.05))

    for _ in range(rng.randint(1, 6)):
        r = rng.random()
        if r < 0.12:
            cands = [x for x in pre if x in NAMES and x not in kinds]
            if cands:
                ops.append(('r', rng.choice(cands), rng.choice(SPELLINGS)))
                continue
        if r < 0.3:
            a, b = rng.sample(NAMES, 2)
            ops.append(('pair', one(a), one(b)))
        else:
            ops.append(one(rng.choice(NAMES)))
    end = rng.choice(['write', 'write', 'write', 'write+write', 'close', 'close+write'])
    return dict(pre=pre, ops=ops, end=end, chdir=rng.random() < 0.3)


def stage_a(col, scratch, tier, rng):
    quick = tier != 'thorough'
    st = StageA(col, scratch)
    old_tmp = tempfile.tempdir
    old_cwd = os.getcwd()
    tempfile.tempdir = st.tmp
    st.inj.install()
    try:
        st.discard()
        n_ex = 0
        for scen in exhaustive_histories(quick):
            st.check(scen, inject_all=True, tag='exhaustive')
            n_ex += 1
        col.exhaustive = True
        col.bound = ('stage A only: %d histories = one destination {absent,present} x pre-existing backups subset of '
                     '{#.1#,#.2#} x every sequence of <= 2 opens over modes %s (specified combinations) x endings '
                     '{write, close, close+write, write+write}, each finalisation interrupted before/after/inside '
                     'every effectful call' % (n_ex, 'w,a,r+' if quick else 'w,a,r+,wb,ab,w+'))
        # text written with a carriage return in append mode (kept apart: its own clause)
        for pre in ({}, {'a.txt': b'OLD\n'}):
            scen = dict(pre=pre, ops=[('w', 'a.txt', 'rel', 'a', 'x\r\ny\n')], end='write')
            pend = model(pre, scen['ops'])
            st.reset(pre)
            try:
                st.do_op(scen['ops'][0])
                st.writer().write()
                got = snap(st.root)
                col.case(('cr', bool(pre)), True)
                judge_final(col, pre, pend, got, dict(pre=show(pre), ops=[describe(o) for o in scen['ops']],
                                                      end='write'), tag='/carriage-return')
            finally:
                os.chdir(scratch)
                st.discard()
        n_rand = 250 if quick else 5000
        for i in range(n_rand):
            scen = random_history(rng)
            st.check(scen, inject_all=(i % 3 == 0) if quick else (i % 2 == 0), tag='random')
            if len(col.violations) >= 8:
                break
    finally:
        st.inj.uninstall()
        tempfile.tempdir = old_tmp
        os.chdir(old_cwd)
    return st.n_inject


# ---------------------------------------------------------------------------------------------------------------
# stage B: the library writers, default arguments
# ---------------------------------------------------------------------------------------------------------------
def tiny_system():
    import numpy as np
    import vermouth
    import vermouth.forcefield
    from vermouth.molecule import Molecule, Interaction
    from vermouth.system import System
    from vermouth.gmx.topology import Atomtype, NonbondParam
    ff = vermouth.forcefield.ForceField(name='c07ff')
    system = System(force_field=ff)
    mol = None
    for m in range(2):
        mol = Molecule(nrexcl=1, meta={'moltype': 'mol_%d' % m}, force_field=ff)
        for i in range(3):
            mol.add_node(i, atomname='BB', resname='ALA', resid=i + 1, chain='AB'[m], atype='P1', charge_group=i + 1,
                         charge=0.0, mass=72.0, element='C', position=np.array([0.1 * i, 0.2 * m, 0.3]))
        mol.add_edge(0, 1)
        mol.add_edge(1, 2)
        mol.interactions['bonds'] = [Interaction(atoms=(0, 1), parameters=['1', '0.35', '1250'], meta={}),
                                     Interaction(atoms=(1, 2), parameters=['1', '0.35', '1250'], meta={})]
        system.add_molecule(mol)
    system.meta['header'] = ['c07 bounded layer']
    system.gmx_topology_params['atomtypes'].append(Atomtype(molecule=mol, node=0, sigma=0.0, epsilon=0.0, meta={}))
    system.gmx_topology_params['nonbond_params'].append(NonbondParam(atoms=('P1', 'P1'), sigma=0.47, epsilon=2.0,
                                                                     meta={}))
    return system


FAKE_DSSP = r'''#!/bin/sh
if [ "$1" = "--version" ]; then echo "mkdssp version 3.0.0"; exit 0; fi
cat <<'EOF'
==== Secondary Structure Definition by the program DSSP, fake ==== DATE=2026-01-01        .
  #  RESIDUE AA STRUCTURE BP1 BP2  ACC     N-H-->O    O-->H-N    N-H-->O    O-->H-N    TCO  KAPPA ALPHA  PHI   PSI    X-CA   Y-CA   Z-CA
    1    1 A A              0   0  100      0, 0.0     0, 0.0     0, 0.0     0, 0.0   0.000 360.0 360.0 360.0 360.0    0.0    0.0    0.0
    2    2 A A  H           0   0  100      0, 0.0     0, 0.0     0, 0.0     0, 0.0   0.000 360.0 360.0 360.0 360.0    0.0    0.0    0.0
    3    3 A A              0   0  100      0, 0.0     0, 0.0     0, 0.0     0, 0.0   0.000 360.0 360.0 360.0 360.0    0.0    0.0    0.0
EOF
'''


def library_writers(scratch):
    """(name, qualified function, callable(system) writing into the cwd, list of destinations relative to the cwd)"""
    import networkx as nx
    import numpy as np
    import vermouth
    import vermouth.pdb
    import vermouth.gmx
    from vermouth.gmx import gro
    from vermouth.gmx.topology import write_gmx_topology, write_atomtypes, write_nonbond_params
    from vermouth.rcsu import contact_map
    from vermouth.dssp import dssp
    fake = os.path.join(scratch, 'fake_dssp.sh')
    with builtins.open(fake, 'w') as h:
        h.write(FAKE_DSSP)
    os.chmod(fake, 0o755)

    def w_contacts(_system):
        graph = nx.Graph()
        for i in range(2):
            graph.add_node(i, resname='ALA', chain='A', resid=i + 1)
        contact_map._write_contacts('contacts.out', [[1, 2, 0, 1, 1, 1, 1, 1]],  # pylint: disable=protected-access
                                    [np.zeros(3), np.ones(3)], graph)

    def w_dssp(system):
        one = system.copy()
        one.molecules = one.molecules[:1]
        dssp.run_dssp(one, executable=fake, savedir='.')

    return [
        ('write_pdb', 'vermouth.pdb.pdb.write_pdb', lambda s: vermouth.pdb.write_pdb(s, 'out.pdb'), ['out.pdb']),
        ('write_pdb(Path,sub)', 'vermouth.pdb.pdb.write_pdb',
         lambda s: vermouth.pdb.write_pdb(s, str(pathlib.Path('sub') / 'o.pdb'), conect=False), ['sub/o.pdb']),
        ('write_gro', 'vermouth.gmx.gro.write_gro', lambda s: gro.write_gro(s, 'out.gro'), ['out.gro']),
        ('write_gmx_topology', 'vermouth.gmx.topology.write_gmx_topology',
         lambda s: write_gmx_topology(s, pathlib.Path('topol.top'),
                                      itp_paths={'atomtypes': 'at.itp', 'nonbond_params': 'nb.itp'}),
         ['topol.top', 'mol_0.itp', 'mol_1.itp', 'at.itp', 'nb.itp']),
        ('write_gmx_topology(defaults)', 'vermouth.gmx.topology.write_gmx_topology',
         lambda s: write_gmx_topology(s, 'sub/t.top'),
         ['sub/t.top', 'mol_0.itp', 'mol_1.itp', 'extra_atomtypes.itp', 'extra_nbparams.itp']),
        ('write_atomtypes', 'vermouth.gmx.topology.write_atomtypes', lambda s: write_atomtypes(s, 'at.itp'),
         ['at.itp']),
        ('write_nonbond_params', 'vermouth.gmx.topology.write_nonbond_params',
         lambda s: write_nonbond_params(s, 'nb.itp'), ['nb.itp']),
        ('_write_contacts', 'vermouth.rcsu.contact_map._write_contacts', w_contacts, ['contacts.out']),
        ('run_dssp(savedir)', 'vermouth.dssp.dssp.run_dssp', w_dssp, ['chain_A.ssd']),
    ]


def stage_b(col, scratch, tier, rng):
    import vermouth.file_writer as fw
    root = os.path.realpath(os.path.join(scratch, 'B'))
    tmp = os.path.realpath(os.path.join(scratch, 'B_tmp'))
    os.makedirs(tmp, exist_ok=True)
    old_tmp, old_cwd = tempfile.tempdir, os.getcwd()
    tempfile.tempdir = tmp
    writer = fw.DeferredFileWriter()
    system = tiny_system()

    def fresh(pre):
        os.chdir(scratch)
        if not os.path.isdir(root):
            os.makedirs(os.path.join(root, 'sub'))
        for dp, _dn, fn in os.walk(root):
            for f in fn:
                os.remove(os.path.join(dp, f))
        for rel, content in pre.items():
            with builtins.open(os.path.join(root, rel), 'wb') as h:
                h.write(content)
        os.chdir(root)

    try:
        for name, fn, call, dests in library_writers(scratch):
            kname = fn.rsplit('.', 1)[-1]       # violation keys: one per function and clause, not per scenario
            # reference content: a deferred + finalised run into an empty directory
            reference = None
            pres = [('empty', {})]
            pre_all = {'keep.me': b'unrelated\n'}
            for d in dests:
                pre_all[d] = b'OLD content of %s\n' % d.encode()
            pre_all[backup_name(dests[0], 1)] = b'older backup\n'
            pres.append(('pre-existing', pre_all))
            if tier == 'thorough':
                pre_gap = dict(pre_all)
                del pre_gap[backup_name(dests[0], 1)]
                pre_gap[backup_name(dests[0], 2)] = b'older backup 2\n'
                pres.append(('pre-existing, gap', pre_gap))
            for pname, pre in pres:
                for end in ('write', 'close'):
                    inp = dict(writer=name, directory=pname, pre=show(pre), end=end)
                    fresh(pre)
                    try:
                        try:
                            call(system)
                        except Exception as err:  # pylint: disable=broad-except
                            col.violation('library/%s/exception' % kname, fn, 'the writer raised on a minimal system',
                                          inp, repr(err), 'no exception')
                            continue
                        col.case(('B', name, pname, end), True,
                                 dict(stage='B', **inp) if (name, pname, end) == ('write_gmx_topology', 'pre-existing',
                                                                                  'write') else None)
                        now = snap(root)
                        if now != pre:
                            col.violation('library/%s/undeferred' % kname, fn,
                                          'a library writer called with default arguments changed the directory '
                                          'before finalisation', inp, show(now), show(pre))
                            continue
                        if end == 'close':
                            writer.close()
                            now = snap(root)
                            if now != pre:
                                col.violation('library/%s/discard' % kname, fn,
                                              'discarding after a library writer changed the directory', inp,
                                              show(now), show(pre))
                            continue
                        writer.write()
                        now = snap(root)
                        exp = dict(pre)
                        bad = False
                        for d in dests:
                            if d in pre:
                                exp[first_free_backup(d, pre)] = pre[d]
                            if not now.get(d):
                                bad = True
                                col.violation('library/%s/missing-output' % kname, fn,
                                              'destination missing or empty after finalisation', inp, show(now), d)
                            exp[d] = now.get(d)
                        if bad:
                            continue
                        if now != exp:
                            col.violation('library/%s/backup' % kname, 'DeferredFileWriter._write_file',
                                          'after finalisation: pre-existing files are not kept byte for byte under '
                                          'the first free backup name, or other files changed', inp, show(now),
                                          show(exp))
                            continue
                        out = {d: now[d] for d in dests}
                        if reference is None:
                            reference = out
                        elif out != reference:
                            col.violation('library/%s/content' % kname, fn,
                                          'what ends up in the destination depends on whether it existed before',
                                          inp, show(out), show(reference))
                    finally:
                        os.chdir(scratch)
                        try:
                            writer.close()
                        except Exception:  # pylint: disable=broad-except
                            pass
        # the non-deferred twins write the same bytes directly (what 'was written' for the deferred ones)
        import vermouth.pdb
        from vermouth.gmx import gro
        for name, fn, direct, deferred in (
                ('write_pdb', 'vermouth.pdb.pdb.write_pdb',
                 lambda: vermouth.pdb.write_pdb(system, 'direct.pdb', defer_writing=False),
                 lambda: vermouth.pdb.write_pdb(system, 'deferred.pdb')),
                ('write_gro', 'vermouth.gmx.gro.write_gro',
                 lambda: gro.write_gro(system, 'direct.gro', defer_writing=False),
                 lambda: gro.write_gro(system, 'deferred.gro'))):
            fresh({})
            try:
                direct()
                deferred()
                writer.write()
                now = snap(root)
                col.case(('B-twin', name), True)
                vals = list(now.values())
                if len(now) != 2 or vals[0] != vals[1] or not vals[0]:
                    col.violation('library/%s/content-vs-direct' % name, fn,
                                  'deferred and direct writing give different bytes', name, show(now),
                                  'two identical files')
            except Exception as err:  # pylint: disable=broad-except
                col.violation('library/%s/exception' % name, fn, 'the writer raised on a minimal system', name,
                              repr(err), 'no exception')
            finally:
                os.chdir(scratch)
                writer.close()
    finally:
        tempfile.tempdir = old_tmp
        os.chdir(old_cwd)


# ---------------------------------------------------------------------------------------------------------------
# stage C: the command line
# ---------------------------------------------------------------------------------------------------------------
def parse_maxwarn(word):
    """documented grammar: 'n' | 'type' | 'type:n'"""
    if ':' in word:
        t, n = word.split(':')
        return (t, int(n))
    try:
        return (None, int(word))
    except ValueError:
        return (word, None)


def leftover_by_statement(warn_counts, n_errors, specs):
    """C08 statement, recomputed naively: named types are waived entirely, 'type:n' waives n of that type, a bare
    number waives that many of all the remaining types together; errors are never waived.
    None = combination the statement leaves open."""
    named = {t for t, c in specs if c is None}
    lim = {}
    for t, c in specs:
        if c is not None:
            lim[t] = max(lim.get(t, 0), c, 0)
    if named & set(lim):
        return None
    blanket = lim.pop(None, 0)
    left = n_errors
    rest = 0
    for t, c in warn_counts.items():
        if t in named:
            continue
        if t in lim:
            left += max(0, c - lim[t])
        else:
            rest += c
    return left + max(0, rest - blanket)


_LOG_RE = re.compile(r'^\s*(WARNING|ERROR|CRITICAL) - (\S+) - (.*)$')


def read_log(stderr):
    warns, errors = {}, 0
    gate_msg = False
    for line in stderr.splitlines():
        m = _LOG_RE.match(line)
        if not m:
            continue
        if m.group(1) == 'WARNING':
            warns[m.group(2)] = warns.get(m.group(2), 0) + 1
        elif 'warnings were encountered after accounting for the' in m.group(3):
            gate_msg = True     # the refusal message itself is emitted after the decision
        else:
            errors += 1
    return warns, errors, gate_msg


def data_dir():
    import vermouth
    return pathlib.Path(vermouth.DATA_PATH).parent / 'tests' / 'data'


def make_inputs(scratch):
    src = data_dir() / 'tri_alanine.pdb'
    text = src.read_text()
    atoms = [l for l in text.splitlines() if l.startswith('ATOM')]
    two = atoms + ['TER',
                   'HETATM   31  X1  XYZ B   9      30.000  30.000  30.000  1.00  0.00           C  ',
                   'HETATM   32  X2  XYZ B   9      31.200  30.000  30.000  1.00  0.00           C  ',
                   'END', '']
    p_two = os.path.join(scratch, 'tri_plus_unknown.pdb')
    with builtins.open(p_two, 'w') as h:
        h.write('\n'.join(two))
    inputs = {'tri': str(src), 'two': p_two}
    dipro = data_dir() / 'integration_tests' / 'tier-0' / 'dipro-termini' / 'aa.pdb'
    if dipro.exists():
        inputs['dipro'] = str(dipro)
    return inputs


# flags that make the run log warnings with martini3001 (found by running it; the oracle reads the log anyway)
WARN_FLAGS = [['-scfix'], ['-ed'], ['-collagen'], ['-mutate', 'PHE999:ALA']]


def _case(name, inp, flags, maxwarn=(), pre=None, x='out.pdb', o='topol.top', dbg=(), group=None, how='fork'):
    return dict(name=name, input=inp, flags=list(flags), maxwarn=[list(p) for p in maxwarn], pre=dict(pre or {}),
                x=x, o=o, dbg=list(dbg), group=group, how=how)


PRE_STD = {'out.pdb': b'OLD pdb\n', '#out.pdb.1#': b'older pdb\n', 'topol.top': b'OLD top\n',
           'molecule_0.itp': b'OLD itp\n', 'notes.txt': b'unrelated\n'}


def curated_cli_cases():
    """how='subprocess': python bin/martinize2 as a child process (the real thing, slow);
    how='fork': the same entry() run in a forked child with the three force-field/mapping loader calls memoised"""
    pre_std = PRE_STD
    c = []

    def add(*a, **kw):
        c.append(_case(*a, **kw))
    add('clean', 'tri', [], group='g0')
    add('clean/pre-existing', 'tri', [], pre=pre_std, group='g0')
    add('1 warning', 'tri', ['-scfix'], pre=pre_std, how='subprocess')
    add('1 warning, -maxwarn 1', 'tri', ['-scfix'], [['1']], pre=pre_std, how='subprocess')
    add('2 warnings, -maxwarn 1', 'tri', ['-scfix', '-ed'], [['1']])
    add('2 warnings, -maxwarn general missing-feature:1', 'tri', ['-scfix', '-ed'], [['general', 'missing-feature:1']],
        pre=pre_std)
    add('1 warning, -maxwarn other type', 'tri', ['-scfix'], [['missing-feature']], pre=pre_std)
    add('1 warning, -maxwarn 0', 'tri', ['-ed'], [['0']])
    add('input warnings', 'two', [], pre=pre_std)
    add('input warnings, -maxwarn 2', 'two', [], [['2']], pre=pre_std)
    add('input warnings, -maxwarn unknown-residue:1', 'two', [], [['unknown-residue:1']])
    add('1 warning + -write-*', 'tri', ['-scfix'], pre=pre_std, dbg=['g.pdb', 'r.pdb', 'c.pdb'])
    add('1 warning, -dssp', 'tri', ['-scfix', '-dssp'], pre=pre_std)
    add('1 warning, -dssp -v', 'tri', ['-scfix', '-dssp', '-v'])
    add('3 warnings, -maxwarn 1 -maxwarn 1, outputs in sub/', 'tri', ['-scfix', '-ed', '-collagen'], [['1'], ['1']],
        pre={'sub/cg.pdb': b'OLD\n', 'sub/t.top': b'OLD top\n', 'molecule_0.itp': b'OLD itp\n'}, x='sub/cg.pdb',
        o='sub/t.top')
    add('3 warnings, -maxwarn general:1 -maxwarn missing-feature:2', 'tri', ['-scfix', '-ed', '-collagen'],
        [['general:1'], ['missing-feature:2']],
        pre={'sub/cg.pdb': b'OLD\n', 'sub/#cg.pdb.1#': b'1\n', 'sub/#cg.pdb.3#': b'3\n'}, x='sub/cg.pdb',
        o='sub/t.top')
    return c


def grid_cli_cases(rng, quick):
    """warning flag sets x -maxwarn forms (every combination in the thorough tier, a seeded half in the quick one)"""
    flagsets = [[], ['-scfix'], ['-ed'], ['-scfix', '-ed'], ['-ed', '-collagen'], ['-scfix', '-ed', '-collagen'],
                ['-scfix', '-mutate', 'PHE999:ALA', '-ed']]
    forms = [[], [['1']], [['2']], [['3']], [['general']], [['general:1']], [['general:2']], [['general:3']],
             [['missing-feature:1']], [['missing-feature:2']], [['missing-feature:3']],
             [['general:1', 'missing-feature:1']], [['general:2'], ['missing-feature:2']], [['nonsense:2']],
             [['general', '1']]]
    c = []
    for fs in flagsets:
        for form in forms:
            if not fs and form and rng.random() < 0.7:
                continue
            c.append(_case('grid %s / -maxwarn %s' % (' '.join(fs) or '-', ' '.join(' '.join(p) for p in form) or '-'),
                           'tri', fs, form, pre=PRE_STD if rng.random() < 0.5 else {}))
    for form in ([], [['1']], [['2']], [['unknown-residue']], [['unknown-residue:1']], [['unknown-residue:3']],
                 [['general:2']]):
        for fs in ([], ['-scfix']):
            c.append(_case('grid(two) %s / -maxwarn %s' % (' '.join(fs) or '-',
                                                           ' '.join(' '.join(p) for p in form) or '-'),
                           'two', fs, form, pre=PRE_STD if rng.random() < 0.5 else {}))
    if quick:
        rng.shuffle(c)
        c = c[:len(c) // 2]
    return c


def random_cli_cases(rng, n, inputs, n_sub=0):
    pool = ['0', '1', '2', '3', '5', 'general', 'missing-feature', 'unknown-residue', 'general:1', 'general:2',
            'missing-feature:1', 'missing-feature:2', 'unknown-residue:1', 'unknown-residue:2', 'nonsense',
            'nonsense:4']
    c = []
    for i in range(n):
        inp = rng.choice(sorted(inputs))
        flags = []
        for f in WARN_FLAGS:
            if rng.random() < 0.35:
                flags += f
        if rng.random() < 0.15:
            flags += ['-dssp']
        if rng.random() < 0.1:
            flags += ['-v']
        maxwarn = []
        for _ in range(rng.choice([0, 0, 1, 1, 1, 2])):
            maxwarn.append(rng.sample(pool, rng.randint(1, 2)))
        x, o = rng.choice([('out.pdb', 'topol.top'), ('sub/cg.pdb', 'sub/t.top'), ('x.pdb', 'x.top')])
        pre = {}
        for f in (x, o, 'molecule_0.itp', 'molecule_1.itp', 'notes.txt'):
            if rng.random() < 0.5:
                pre[f] = ('OLD %s %d\n' % (f, i)).encode()
                for k in (1, 2):
                    if rng.random() < 0.4:
                        pre[backup_name(f, k)] = b'backup %d\n' % k
        dbg = ['g.pdb', 'r.pdb', 'c.pdb'][:rng.choice([0, 0, 0, 1, 3])]
        c.append(_case('random %d' % i, inp, flags, maxwarn, pre=pre, x=x, o=o, dbg=dbg,
                       how='subprocess' if i < n_sub else 'fork'))
    return c


def prepare_cli_case(case, scratch, idx):
    wd = os.path.realpath(os.path.join(scratch, 'C', '%03d' % idx))
    tmp = os.path.join(scratch, 'C_tmp', '%03d' % idx)
    os.makedirs(os.path.join(wd, 'sub'))
    os.makedirs(tmp)
    for rel, content in case['pre'].items():
        with builtins.open(os.path.join(wd, rel), 'wb') as h:
            h.write(content)


def cli_argv(case, inputs):
    argv = ['-f', inputs[case['input']], '-x', case['x'], '-o', case['o'], '-ff', 'martini3001'] + case['flags']
    for opt, f in zip(('-write-graph', '-write-repair', '-write-canon'), case['dbg']):
        argv += [opt, f]
    for part in case['maxwarn']:
        argv += ['-maxwarn'] + part
    return argv


def run_cli_subprocess(argv, wd, tmp):
    env = dict(os.environ)
    env['PYTHONPATH'] = REPO + (os.pathsep + env['PYTHONPATH'] if env.get('PYTHONPATH') else '')
    env['TMPDIR'] = tmp
    env['PYTHONWARNINGS'] = 'ignore'
    env['PYTHONHASHSEED'] = '0'     # (the order of the citations in the itp header follows set iteration order)
    try:
        proc = subprocess.run([sys.executable, os.path.join(REPO, 'bin', 'martinize2')] + argv, cwd=wd, env=env,
                              stdout=subprocess.DEVNULL, stderr=subprocess.PIPE, timeout=600, check=False)
        return proc.returncode, proc.stderr.decode('utf-8', 'replace')
    except subprocess.TimeoutExpired:
        return 'timeout', ''


def wait_pid(pid, timeout):
    import time
    end = time.time() + timeout
    while True:
        done, status = os.waitpid(pid, os.WNOHANG)
        if done:
            return os.waitstatus_to_exitcode(status)
        if time.time() > end:
            try:
                os.kill(pid, 9)
            except OSError:
                pass
            os.waitpid(pid, 0)
            return 'timeout'
        time.sleep(0.01)


def run_cli_forked(cli, argv, wd, tmp):
    """entry() of the real bin/martinize2 in a forked child: own cwd, argv, stderr, temp dir, fresh module state"""
    log = os.path.join(tmp, 'stderr.log')
    sys.stdout.flush()
    sys.stderr.flush()
    pid = os.fork()
    if pid == 0:
        code = 1
        try:
            os.chdir(wd)
            fd = os.open(log, os.O_WRONLY | os.O_CREAT | os.O_TRUNC)
            null = os.open(os.devnull, os.O_WRONLY)
            os.dup2(fd, 2)
            os.dup2(null, 1)
            tempfile.tempdir = tmp
            os.environ['TMPDIR'] = tmp
            logging.disable(logging.NOTSET)
            sys.argv = [os.path.join(REPO, 'bin', 'martinize2')] + argv
            try:
                cli.entry()
                code = 0
            except SystemExit as err:
                code = err.code if isinstance(err.code, int) else (0 if err.code is None else 1)
            except BaseException:  # pylint: disable=broad-except
                import traceback
                traceback.print_exc()
                code = 1
            try:
                sys.stderr.flush()
                sys.stdout.flush()
            except Exception:  # pylint: disable=broad-except
                pass
        finally:
            os._exit(code)  # pylint: disable=protected-access
    code = wait_pid(pid, 600)
    try:
        with builtins.open(log, 'rb') as h:
            err = h.read().decode('utf-8', 'replace')
        os.remove(log)
    except OSError:
        err = ''
    return code, err


def cli_manager(cases, inputs, scratch, nworkers):
    """runs in a process forked off at the very start of bounded(): loads the command line module once, memoises the
    three loader calls entry() makes for the shipped force fields and mappings (find_force_fields,
    read_mapping_directory, generate_all_self_mappings: pure functions of vermouth's data directory, 6 s per run
    otherwise), forks `nworkers` workers that take the cases round robin and leave one
    pickle per case."""
    import pickle
    import warnings
    warnings.simplefilter('ignore')
    need_fork = any(c['how'] == 'fork' for c in cases)
    cli = None
    if need_fork:
        import vermouth
        import vermouth.forcefield
        cli = load_cli()
        ff_dir = pathlib.Path(vermouth.DATA_PATH) / 'force_fields'
        map_dir = pathlib.Path(vermouth.DATA_PATH) / 'mappings'
        orig_ff = vermouth.forcefield.find_force_fields
        orig_map = cli.read_mapping_directory
        ffs = orig_ff(ff_dir)
        maps = orig_map(map_dir, ffs)

        def ff_memo(*a, **kw):
            if len(a) == 1 and not kw and str(a[0]) == str(ff_dir):
                return ffs
            return orig_ff(*a, **kw)

        def map_memo(*a, **kw):
            if len(a) == 2 and not kw and str(a[0]) == str(map_dir) and a[1] is ffs:
                return maps
            return orig_map(*a, **kw)
        orig_self = cli.generate_all_self_mappings
        self_maps = orig_self(ffs.values())

        def self_memo(*a, **kw):
            if len(a) == 1 and not kw:
                given = list(a[0])
                if len(given) == len(ffs) and all(x is y for x, y in zip(given, ffs.values())):
                    return self_maps
                return orig_self(given)
            return orig_self(*a, **kw)
        vermouth.forcefield.find_force_fields = ff_memo
        cli.read_mapping_directory = map_memo
        cli.generate_all_self_mappings = self_memo
    # slow ones first so that they overlap with everything else
    order = sorted(range(len(cases)), key=lambda i: (cases[i]['how'] != 'subprocess', i))
    pids = []
    for w in range(nworkers):
        mine = order[w::nworkers]
        if not mine:
            continue
        pid = os.fork()
        if pid == 0:
            try:
                for i in mine:
                    case = cases[i]
                    wd = os.path.realpath(os.path.join(scratch, 'C', '%03d' % i))
                    tmp = os.path.join(scratch, 'C_tmp', '%03d' % i)
                    argv = cli_argv(case, inputs)
                    try:
                        before = snap(wd)
                        if case['how'] == 'subprocess':
                            code, err = run_cli_subprocess(argv, wd, tmp)
                        else:
                            code, err = run_cli_forked(cli, argv, wd, tmp)
                        after = snap(wd)
                    except Exception:  # pylint: disable=broad-except
                        continue        # (e.g. fork failing on an overloaded machine: the case counts as not run)
                    res = dict(case=case, argv=argv, code=code, stderr=err, before=before, after=after)
                    with builtins.open(os.path.join(scratch, 'C_res', '%03d.pkl' % i), 'wb') as h:
                        pickle.dump(res, h)
            finally:
                os._exit(0)  # pylint: disable=protected-access
        pids.append(pid)
    for pid in pids:
        os.waitpid(pid, 0)


def start_cli(cases, inputs, scratch, nworkers=8):
    os.makedirs(os.path.join(scratch, 'C'))
    os.makedirs(os.path.join(scratch, 'C_res'))
    for i, c in enumerate(cases):
        prepare_cli_case(c, scratch, i)
    sys.stdout.flush()
    sys.stderr.flush()
    pid = os.fork()
    if pid == 0:
        try:
            cli_manager(cases, inputs, scratch, nworkers)
        except BaseException:  # pylint: disable=broad-except
            import traceback
            with builtins.open(os.path.join(scratch, 'C_res', 'manager.err'), 'w') as h:
                traceback.print_exc(file=h)
        finally:
            os._exit(0)  # pylint: disable=protected-access
    return pid


def collect_cli(pid, cases, scratch, timeout):
    import pickle
    wait_pid(pid, timeout)
    out = []
    for i in range(len(cases)):
        p = os.path.join(scratch, 'C_res', '%03d.pkl' % i)
        if os.path.exists(p):
            with builtins.open(p, 'rb') as h:
                out.append(pickle.load(h))
        else:
            out.append(None)
    err = os.path.join(scratch, 'C_res', 'manager.err')
    note = None
    if os.path.exists(err):
        with builtins.open(err) as h:
            note = h.read()
    return out, note


def role_of(rel, case):
    n = os.path.basename(rel)
    if rel == case['x']:
        return '-x', 'vermouth.pdb.pdb.write_pdb'
    if rel == case['o']:
        return '-o', 'vermouth.gmx.topology.write_gmx_topology'
    if n.startswith('dssp_in_') and n.endswith('.pdb'):
        return 'dssp_in_*.pdb', 'vermouth.dssp.dssp.run_mdtraj'
    if n.endswith('.itp'):
        return '*.itp', 'vermouth.gmx.topology.write_gmx_topology'
    if n.endswith('.ssd'):
        return '*.ssd', 'vermouth.dssp.dssp.run_dssp'
    return 'other', 'entry'


def judge_cli(col, res, groups):
    case, code, before, after = res['case'], res['code'], res['before'], res['after']
    inp = dict(case=case['name'], argv=[a if not os.path.isabs(a) else '<%s>' % os.path.basename(a)
                                        for a in res['argv']], pre=show(before))
    if code == 'timeout':
        return
    warns, errors, gate_msg = read_log(res['stderr'])
    specs = [parse_maxwarn(w) for part in case['maxwarn'] for w in part]
    left = leftover_by_statement(warns, errors, specs)
    crashed = code != 0 and ('Traceback (most recent call last)' in res['stderr'] or not gate_msg)
    nontriv = bool(warns) or bool(before)
    sample = None
    if warns and case['maxwarn'] and before and not groups.get('sampled'):
        groups['sampled'] = True
        sample = dict(stage='C', how=case['how'], argv=inp['argv'], pre=sorted(before), warnings=warns, errors=errors,
                      leftover=left, exit=code, new=sorted(set(after) - set(before)))
    col.case(('C', case['name'], tuple(res['argv'][2:])), nontriv, sample)
    if left is None:
        return
    obs = dict(exit=code, warnings=warns, errors=errors, leftover_by_statement=left,
               new_files=sorted(set(after) - set(before)))
    dbg = set(case['dbg'])
    if left > 0 and code == 0:
        col.violation('cli.gate/exit-zero-with-leftover-warnings', 'entry',
                      'warnings are left after -maxwarn but martinize2 exited with status 0', inp, obs,
                      'exit status != 0 and no output')
    if left == 0 and code != 0 and not crashed:
        col.violation('cli.gate/refused-without-leftover-warnings', 'entry',
                      'no warning is left after -maxwarn but martinize2 refused to write', inp, obs, 'exit status 0')
    if code != 0 or left > 0:
        # nothing may have been finalised: no new file (-write-* aside), nothing changed
        for rel in sorted(set(after) - set(before) - dbg):
            role, fn = role_of(rel, case)
            col.violation('cli.refused/new-file/%s' % role, fn,
                          'a run that %s left a new file behind' %
                          ('has warnings left after -maxwarn' if left > 0 else 'exited non-zero'), inp, obs,
                          'no new file except the -write-* dumps %s' % sorted(dbg))
        changed = sorted(r for r in before if after.get(r) != before[r] and r not in dbg)
        if changed:
            col.violation('cli.refused/existing-file-changed', 'entry',
                          'a run that did not finalise changed or removed an existing file', inp,
                          dict(obs, changed=changed, after=show(after)), show(before))
        return
    # finalised run
    for rel, opt in ((case['x'], '-x'), (case['o'], '-o')):
        if not after.get(rel):
            col.violation('cli.finalised/missing-output/%s' % opt, 'entry',
                          'exit status 0 but the %s target is missing or empty' % opt, inp, obs, rel)
    for rel, content in before.items():
        if after.get(rel) == content:
            continue
        bk = first_free_backup(rel, before)
        if after.get(bk) != content:
            col.violation('cli.finalised/backup', 'DeferredFileWriter._write_file',
                          'a file that was already there is not kept byte for byte under the first free backup name',
                          inp, dict(obs, file=rel, after=show(after)), {bk: short(content)})
    if case.get('group'):
        outs = {k: v for k, v in after.items() if k not in before or after[k] != before[k]}
        outs = {k: v for k, v in outs.items() if not _BACKUP_RE.match(os.path.basename(k))}
        ref = groups.setdefault(case['group'], outs)
        if ref is not outs and ref != outs:
            col.violation('cli.finalised/content', 'DeferredFileWriter.write',
                          'the same command writes different bytes depending on whether the outputs existed before',
                          inp, show(outs), show(ref))


# ---------------------------------------------------------------------------------------------------------------
def bounded(tier, seed):
    rng = random.Random(seed)
    quick = tier != 'thorough'
    col = Collector(
        'A: exhaustive one-destination histories (see bound) + seeded random histories of deferred open/write/append '
        '(modes w,a,wb,ab,w+,r+; 6 spellings of a path; interleaved handles; cwd changed before finalisation) over 4 '
        'destinations with pre-existing files and backups (gaps included), ending in write / close / close+write / '
        'write+write, ghost-file-system oracle after every step; finalisation interrupted (OSError and '
        'KeyboardInterrupt) before, after and in the middle of every effectful call, then retried or discarded. '
        'B: 9 library writer entry points with default arguments on a 2-molecule system x {empty dir, pre-existing '
        'outputs + backup} x {finalise, discard}. C: bin/martinize2 runs (a few as real subprocesses, the rest as '
        'entry() in a forked child with the force-field loading memoised): inputs x warning flags x '
        '-maxwarn forms x pre-existing outputs; warnings read from the log, allowance recomputed from the statement. '
        'non-trivial = something pending and (finalised or files pre-exist); CLI: warnings logged or files pre-exist',
        max_violations=8)
    scratch = os.path.realpath(tempfile.mkdtemp(prefix='verif_c07_'))
    old_cwd = os.getcwd()
    old_disable = logging.root.manager.disable
    manager = None
    try:
        inputs = make_inputs(scratch)
        cases = curated_cli_cases() + grid_cli_cases(rng, quick)
        if not quick:
            cases += random_cli_cases(rng, 400, inputs, n_sub=24)
        # the command line runs go to a process tree of their own, forked before anything else happens here
        start_error = None
        try:
            manager = start_cli(cases, inputs, scratch)
        except OSError as err:      # no process to be had: stages A and B still run, stage C is reported as not run
            start_error = repr(err)
        logging.disable(logging.CRITICAL)       # (the property is about warnings only on the command line: stage C)
        n_inj = stage_a(col, scratch, tier, rng)
        stage_b(col, scratch, tier, rng)
        if manager is not None:
            results, note = collect_cli(manager, cases, scratch, 240 if quick else 3000)
        else:
            results, note = [], start_error
        manager = None
        groups = {}
        n_cli = 0
        for res in results:
            if res is not None:
                n_cli += 1
                judge_cli(col, res, groups)
        col.rule += ' [%d interrupted finalisations, %d of %d CLI runs completed%s]' % (
            n_inj, n_cli, len(cases), '' if not note else '; CLI manager failed: ' + note.strip().splitlines()[-1])
    finally:
        if manager is not None:
            try:
                os.kill(manager, 9)
                os.waitpid(manager, 0)
            except OSError:
                pass
        os.chdir(old_cwd)
        logging.disable(old_disable)
        shutil.rmtree(scratch, ignore_errors=True)
    return col.result()


def replay_model(function, model):  # pylint: disable=unused-argument,redefined-outer-name
    """counter-models of the C07 contracts live on a ghost file system; they are replayed by stage A's generator
    (same clauses), not one by one."""
    return None

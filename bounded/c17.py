"""C17 bounded stand-in: the real per-residue annotation code (AnnotateResidues, annotate_residues_from_sequence,
AnnotateDSSP with an injected DSSP callable, AnnotateMartiniSecondaryStructures, convert_dssp_to_martini) runs natively
on many small systems / strings and is compared with an oracle written from the property statement.

Oracle (nothing of vermouth is called in it; it works on the plain description of the generated input):
  residues of a molecule   = groups of atoms with the same (chain, resid, resname, insertion_code), ordered by their
                             lowest node key (the documented order of the residue graph);
  selected molecules       = known by construction (a flag in molecule.meta, or "every residue name is an amino acid");
  reconciliation           = with n_r the residue counts of the selected molecules in system order, N their sum, L the
                             sequence length:  L == N -> the sequence as is;  all n_r equal and L == n_0 -> repeated once
                             per molecule;  L == 1 -> repeated once per residue;  anything else -> an error, and nothing
                             is written;
  assignment               = selected molecule r receives elements [sum_{q<r} n_q, sum_{q<=r} n_q); its k-th residue
                             gets the k-th of them ON EVERY ATOM; every other attribute, node and edge is unchanged;
                             unselected molecules are unchanged altogether;
  DSSP -> Martini          = same length; B,E -> E; T -> T; S -> S; C -> C; every maximal run of helical classes
                             (H, G, I) of length n becomes  n<=4: '3'*n;  5: 13332;  6: 113322;  7: 1113222;
                             n>=8: 1111 + 'H'*(n-8) + 2222.
Inputs the statement leaves open are not generated: a non-empty one-element sequence with no selected molecule, two
non-adjacent atom groups with the same full residue identity, characters outside the DSSP alphabet HBEGITSC, a
one-element sequence handed directly to annotate_residues_from_sequence for a molecule of several residues, empty
molecules under the is_protein selector.
"""
import hashlib
import itertools
import json
import logging
import random

from .common import Collector, REPO, load_cli  # noqa: F401  (sys.path handling for VERIF_REPO lives in common)

FN_RUN = 'AnnotateResidues.run_system'
FN_ARS = 'annotate_residues_from_sequence'
FN_CONV = 'convert_dssp_to_martini'
FN_CONVA = 'convert_dssp_annotation_to_martini'
FN_DSSP = 'annotate_dssp'

DSSP_ALPHABET = 'HBEGITSC'
O_HELICAL = 'HGI'
O_TABLE = {'B': 'E', 'E': 'E', 'T': 'T', 'S': 'S', 'C': 'C'}
AMINO = ['ALA', 'GLY', 'LYS', 'HIS', 'TRP', 'SER', 'VAL', 'GLU']
OTHER = ['POPC', 'W', 'NA', 'CHOL', 'DPPC']
LABELS = 'abcdefghijklmnopqrstuvwxyzABCDEFGHIJKLMNOPQRSTUVWXYZ0123456789'


# --------------------------------------------------------------------------------------------------------------
# oracle
# --------------------------------------------------------------------------------------------------------------
def digest(prefix, spec):
    """short stable fingerprint of a JSON-able description."""
    text = json.dumps(spec, sort_keys=True, default=str)
    return prefix + hashlib.blake2b(text.encode(), digest_size=10).hexdigest()


def o_run(n):
    if n <= 4:
        return '3' * n
    if n == 5:
        return '13332'
    if n == 6:
        return '113322'
    if n == 7:
        return '1113222'
    return '1111' + 'H' * (n - 8) + '2222'


def o_convert(seq):
    out = []
    i, n = 0, len(seq)
    while i < n:
        if seq[i] in O_HELICAL:
            j = i
            while j < n and seq[j] in O_HELICAL:
                j += 1
            out.append(o_run(j - i))
            i = j
        else:
            out.append(O_TABLE[seq[i]])
            i += 1
    return ''.join(out)


def o_residues(atoms):
    """atoms: [[key, chain, resid, resname, icode, old, pos], ...] -> list of key lists, k-th entry = k-th residue."""
    groups = {}
    for atom in atoms:
        groups.setdefault((atom[1], atom[2], atom[3], atom[4]), []).append(atom[0])
    return sorted(groups.values(), key=min)


def o_selected(selector, mol):
    if selector == 'all':
        return True
    if selector == 'flag':
        return bool(mol['sel'])
    return all(atom[3] in AMINO for atom in mol['atoms'])  # 'is_protein'


def o_reconcile(seq, lengths):
    """per selected molecule the slice it receives; 'ERR' for a length mismatch; None = left open by the statement."""
    total, size = sum(lengths), len(seq)
    if not lengths:
        if size == 0:
            return []
        return None if size == 1 else 'ERR'
    if size == total:
        whole = list(seq)
    elif size == lengths[0] and all(n == lengths[0] for n in lengths):
        whole = list(seq) * len(lengths)
    elif size == 1:
        whole = list(seq) * total
    else:
        return 'ERR'
    out, start = [], 0
    for n in lengths:
        out.append(whole[start:start + n])
        start += n
    return out


# --------------------------------------------------------------------------------------------------------------
# building the real objects from a plain description
# --------------------------------------------------------------------------------------------------------------
def build_system(spec, attribute):
    from vermouth.molecule import Molecule
    from vermouth.system import System
    system = System()
    for idx, mol in enumerate(spec['molecules']):
        molecule = Molecule()
        molecule.meta['sel'] = bool(mol.get('sel'))
        for key, chain, resid, resname, icode, old, pos in mol['atoms']:
            attrs = dict(resid=resid, resname=resname, atomname='X%d' % key, tag=idx)
            if chain is not None:
                attrs['chain'] = chain
            if icode is not None:
                attrs['insertion_code'] = icode
            if old is not None:
                attrs[attribute] = old
            if pos is not None:
                attrs['position'] = tuple(pos)
            molecule.add_node(key, **attrs)
        for left, right in mol.get('edges', ()):
            molecule.add_edge(left, right)
        system.add_molecule(molecule)
    return system


def snapshot(system):
    return [({key: dict(mol.nodes[key]) for key in mol.nodes},
             sorted(tuple(sorted(edge)) for edge in mol.edges)) for mol in system.molecules]


def view(nodes, residues, attribute):
    """per residue the value carried by each of its atoms (collapsed when uniform)."""
    out = []
    for keys in residues:
        vals = [nodes.get(key, {}).get(attribute) for key in keys]
        out.append(vals[0] if all(v == vals[0] for v in vals) else vals)
    return out


def selector_for(kind):
    from vermouth.selectors import is_protein
    if kind == 'flag':
        return lambda molecule: molecule.meta.get('sel', False)
    if kind == 'is_protein':
        return is_protein
    return None


def compare_state(spec, attribute, before, after, selected, expected_slices, residues):
    """-> [(clause, observed, expected)] for every clause that fails (empty = agreement)."""
    sel_rank = 0
    exp_nodes = []
    for idx in range(len(spec['molecules'])):
        nodes = {key: dict(val) for key, val in before[idx][0].items()}
        if selected[idx] and expected_slices is not None:
            for keys, value in zip(residues[idx], expected_slices[sel_rank]):
                for key in keys:
                    nodes[key][attribute] = value
        if selected[idx]:
            sel_rank += 1
        exp_nodes.append(nodes)
    obs_view = [view(after[idx][0], residues[idx], attribute) for idx in range(len(residues))]
    exp_view = [view(exp_nodes[idx], residues[idx], attribute) for idx in range(len(residues))]
    failed = []
    indices = range(len(residues))
    if any(not selected[idx] and (after[idx][0] != exp_nodes[idx] or after[idx][1] != before[idx][1])
           for idx in indices):
        failed.append(('unselected-untouched', obs_view, exp_view))
    if any(selected[idx] and obs_view[idx] != exp_view[idx] for idx in indices):
        failed.append(('residue-assignment', obs_view, exp_view))
    elif any(selected[idx] and (after[idx][0] != exp_nodes[idx] or after[idx][1] != before[idx][1])
             for idx in indices):
        failed.append(('other-attributes-untouched', obs_view, exp_view))
    return failed


# --------------------------------------------------------------------------------------------------------------
# AnnotateResidues.run_system
# --------------------------------------------------------------------------------------------------------------
def check_run_system(col, spec, fingerprint=None):
    """spec: dict(molecules=[dict(sel, atoms, edges)], sequence, selector, attribute). Returns the system when the
    assignment matched the oracle (so that later stages may be checked on it), else None."""
    from vermouth.dssp.dssp import AnnotateResidues
    attribute = spec['attribute']
    seq = spec['sequence']
    residues = [o_residues(mol['atoms']) for mol in spec['molecules']]
    selected = [o_selected(spec['selector'], mol) for mol in spec['molecules']]
    lengths = [len(res) for res, sel in zip(residues, selected) if sel]
    expected = o_reconcile(seq, lengths)
    if expected is None:
        return None
    system = build_system(spec, attribute)
    before = snapshot(system)
    selector = selector_for(spec['selector'])
    real_seq = tuple(seq) if spec.get('seqtype') == 'tuple' else seq
    if selector is None:
        processor = AnnotateResidues(attribute, real_seq)
    else:
        processor = AnnotateResidues(attribute, real_seq, molecule_selector=selector)
    error = None
    try:
        processor.run_system(system)
    except Exception as exc:  # pylint: disable=broad-except
        error = '%s: %s' % (type(exc).__name__, exc)
    after = snapshot(system)
    nontrivial = bool(sum(lengths)) and len(seq) > 0
    if fingerprint is None:
        fingerprint = digest('sys:', spec)
    col.case(fingerprint, nontrivial,
             dict(stage='AnnotateResidues.run_system', residues_per_molecule=[len(r) for r in residues],
                  selected=selected, sequence=seq if isinstance(seq, str) else list(seq),
                  expected='error' if expected == 'ERR' else expected) if len(col.samples) < 2 else None)
    if expected == 'ERR':
        if error is None:
            col.violation('AnnotateResidues.run_system/length-mismatch-accepted', FN_RUN,
                          'a sequence whose length is neither the residue total, nor the common molecule length, nor 1 '
                          'was applied instead of raising an error',
                          spec, [view(after[i][0], residues[i], attribute) for i in range(len(residues))], 'error')
        elif after != before:
            col.violation('AnnotateResidues.run_system/length-mismatch-partial-write', FN_RUN,
                          'a length mismatch raised an error but attributes had already been written',
                          spec, [view(after[i][0], residues[i], attribute) for i in range(len(residues))],
                          [view(before[i][0], residues[i], attribute) for i in range(len(residues))])
        return None
    if error is not None:
        col.violation('AnnotateResidues.run_system/valid-sequence-rejected', FN_RUN,
                      'a sequence of a documented length (total / one molecule / one element) for the SELECTED molecules '
                      'raised an error', spec, error, dict(slices_for_the_selected_molecules=expected))
        return None
    bad = compare_state(spec, attribute, before, after, selected, expected, residues)
    for clause, observed, wanted in bad:
        what = {'unselected-untouched': 'an unselected molecule was modified',
                'residue-assignment': 'the k-th element did not land on every atom of the k-th residue of the '
                                      'selected molecules (system order)',
                'other-attributes-untouched': 'attributes other than the annotated one, nodes or edges changed'}[clause]
        col.violation('AnnotateResidues.run_system/' + clause, FN_RUN, what, spec, observed, wanted)
    return None if bad else system


def det_molecule(index, nres, sel, offset):
    """deterministic small molecule: residue k has 1 + (index + k) % 2 atoms, keys contiguous from `offset`, odd keys
    already carry the attribute."""
    atoms = []
    key = offset
    for k in range(nres):
        for _ in range(1 + (index + k) % 2):
            atoms.append([key, 'ABCDEFG'[index], k + 1, 'ALA' if sel else 'POPC', None, 'old' if key % 2 else None, None])
            key += 1
    edges = [[atoms[i][0], atoms[i + 1][0]] for i in range(len(atoms) - 1)]
    return dict(sel=sel, atoms=atoms, edges=edges)


def exhaustive_systems(col, mol_numbers, counts):
    n_sys = 0
    for n_mol in mol_numbers:
        for shape in itertools.product(counts, repeat=n_mol):
            for flags in itertools.product((False, True), repeat=n_mol):
                n_sys += 1
                total = sum(n for n, f in zip(shape, flags) if f)
                for size in range(0, total + 3):
                    mols = [det_molecule(i, n, f, 10 * i if (n_mol + i) % 2 else 0)
                            for i, (n, f) in enumerate(zip(shape, flags))]
                    spec = dict(molecules=mols, sequence=LABELS[:size], selector='flag', attribute='aasecstruct')
                    check_run_system(col, spec, fingerprint=('sys', shape, flags, size))
    return n_sys


# --------------------------------------------------------------------------------------------------------------
# random molecules with unusual shapes
# --------------------------------------------------------------------------------------------------------------
def gen_identities(rng, nres, names):
    style = rng.choice(['seq', 'gap', 'icode', 'chains', 'sameid', 'desc', 'seq'])
    start = rng.choice([1, 1, 5, -3, 9998, 0])
    chain = rng.choice(['A', 'B', '', None])
    name = rng.choice(names)
    out = []
    for k in range(nres):
        if style == 'gap':
            start += rng.randint(1, 5)
            out.append((chain, start, rng.choice(names), None))
        elif style == 'icode':
            out.append((chain, start + k // 2, name, 'A' if k % 2 else ''))
        elif style == 'chains':
            half = (nres + 1) // 2
            out.append(('A' if k < half else 'B', start + (k if k < half else k - half), rng.choice(names), None))
        elif style == 'sameid' and nres <= len(names):
            out.append((chain, start, names[k], None))
        elif style == 'desc':
            out.append((chain, start - k, rng.choice(names), None))
        else:
            out.append((chain, start + k, rng.choice(names), None))
    if len(set(out)) != len(out):
        out = [(chain, start + k, name, None) for k in range(nres)]
    return out


def gen_molecule(rng, nres, names, sel, positions=False):
    idents = gen_identities(rng, nres, names)
    per_res = [rng.randint(1, 3) for _ in range(nres)]
    natoms = sum(per_res)
    keystyle = rng.choice(['contig', 'contig', 'sparse', 'shuffled', 'reversed'])
    base = rng.choice([0, 1, 100])
    if keystyle == 'contig':
        keys = [base + i for i in range(natoms)]
    else:
        keys, cur = [], base
        for _ in range(natoms):
            keys.append(cur)
            cur += rng.randint(1, 4)
        if keystyle == 'shuffled':
            rng.shuffle(keys)
        elif keystyle == 'reversed':
            keys.reverse()
    oldmode = rng.choice(['none', 'all', 'some'])
    atoms, pos_i = [], 0
    for ident, count in zip(idents, per_res):
        for a in range(count):
            key = keys[pos_i]
            old = 'old' if oldmode == 'all' or (oldmode == 'some' and rng.random() < 0.4) else None
            pos = None
            if positions and (a == 0 or rng.random() < 0.7):
                pos = [round(rng.uniform(-2, 2), 2) for _ in range(3)]
            atoms.append([key, ident[0], ident[1], ident[2], ident[3], old, pos])
            pos_i += 1
    edges = []
    if rng.random() < 0.5:
        edges = [[atoms[i][0], atoms[i + 1][0]] for i in range(len(atoms) - 1)]
    if rng.random() < 0.3:
        rng.shuffle(atoms)  # insertion order differs from residue order
    return dict(sel=sel, atoms=atoms, edges=edges)


def gen_system(rng, max_mols, max_res, selector, positions=False, allow_empty=False):
    n_mol = rng.randint(1, max_mols)
    mols = []
    for _ in range(n_mol):
        sel = rng.random() < 0.55
        nres = rng.randint(1, max_res)
        if allow_empty and rng.random() < 0.05:
            nres = 0
        if selector == 'is_protein':
            if sel:
                names = AMINO
            else:
                names = OTHER
            mol = gen_molecule(rng, nres, names, sel, positions)
            if not sel and nres > 1 and rng.random() < 0.2:
                # a mixed molecule (amino acids plus something else) is not a protein
                first = mol['atoms'][0]
                for atom in mol['atoms']:
                    if (atom[1], atom[2], atom[3], atom[4]) != (first[1], first[2], first[3], first[4]):
                        atom[3] = 'ALA'
                if len(o_residues(mol['atoms'])) != nres:
                    mol = gen_molecule(rng, nres, OTHER, sel, positions)
        else:
            mol = gen_molecule(rng, nres, AMINO + OTHER, sel, positions)
        mols.append(mol)
    if rng.random() < 0.3 and n_mol > 1:
        # make the shape the existing tests never have: something unselected ahead of something selected
        mols.sort(key=lambda m: m['sel'])
    if rng.random() < 0.3 and selector != 'is_protein':
        # equal residue counts over the selected molecules, for the per-molecule repetition
        sel_mols = [m for m in mols if m['sel']]
        if len(sel_mols) > 1:
            nres = len(o_residues(sel_mols[0]['atoms']))
            for i, m in enumerate(mols):
                if m['sel']:
                    mols[i] = gen_molecule(rng, nres, AMINO + OTHER, True, positions)
    return mols


def strip_old(mols):
    """the pipelines read the annotated attribute back, so no molecule may carry a made-up earlier value of it."""
    for mol in mols:
        for atom in mol['atoms']:
            atom[5] = None
    return mols


def gen_sequence(rng, mols, selector, alphabet=None):
    residues = [o_residues(m['atoms']) for m in mols]
    selected = [o_selected(selector, m) for m in mols]
    lengths = [len(r) for r, s in zip(residues, selected) if s]
    total = sum(lengths)
    choices = [total, total, total, 1, lengths[0] if lengths else 0, total + 1, max(total - 1, 0),
               rng.randint(0, total + 3), len(residues[0]), sum(len(r) for r in residues)]
    if len(lengths) > 1:
        choices += [lengths[0] * len(lengths), lengths[-1]]
    size = rng.choice(choices)
    if alphabet is None:
        pool = list(LABELS)
        rng.shuffle(pool)
        return ''.join(pool[i % len(pool)] for i in range(size))
    return gen_dssp_string(rng, size, alphabet)


def gen_dssp_string(rng, size, alphabet=DSSP_ALPHABET):
    """run-structured: helical runs of varied length (mixing the helical classes) between non-helical stretches."""
    helical = [c for c in alphabet if c in O_HELICAL] or ['H']
    other = [c for c in alphabet if c not in O_HELICAL] or ['C']
    out = []
    in_helix = rng.random() < 0.5
    while len(out) < size:
        if in_helix:
            n = rng.choice([1, 2, 3, 4, 5, 6, 7, 8, 9, 10, 12, 15])
            mode = rng.random()
            if mode < 0.5:
                out.extend(rng.choice(helical) * n)
            else:
                out.extend(rng.choice(helical) for _ in range(n))
        else:
            n = rng.choice([1, 1, 1, 2, 3, 5])
            out.extend(rng.choice(other) for _ in range(n))
        in_helix = not in_helix
    return ''.join(out[:size])


# --------------------------------------------------------------------------------------------------------------
# convert_dssp_to_martini
# --------------------------------------------------------------------------------------------------------------
def check_convert(col, seq, fingerprint=None, as_list=False):
    from vermouth.dssp.dssp import convert_dssp_to_martini
    expected = o_convert(seq)
    try:
        got = convert_dssp_to_martini(list(seq) if as_list else seq)
    except Exception as exc:  # pylint: disable=broad-except
        col.case(seq if fingerprint is None else fingerprint, True)
        col.violation('convert_dssp_to_martini/total', FN_CONV, 'a string over the DSSP alphabet raised an error',
                      seq, '%s: %s' % (type(exc).__name__, exc), expected)
        return False
    nontrivial = 'H' in seq or 'G' in seq or 'I' in seq
    col.case(seq if fingerprint is None else fingerprint, nontrivial,
             dict(stage='convert_dssp_to_martini', dssp=seq, martini=got)
             if len(col.samples) < 4 and nontrivial and len(seq) > 9 else None)
    if got == expected:
        return True
    got = ''.join(got) if not isinstance(got, str) else got
    if len(got) != len(seq):
        col.violation('convert_dssp_to_martini/length', FN_CONV, 'the translation does not preserve the length',
                      seq, got, expected)
    elif any(g != e for c, g, e in zip(seq, got, expected) if c not in O_HELICAL):
        col.violation('convert_dssp_to_martini/table', FN_CONV,
                      'a non-helical class is not translated by the fixed table (B,E->E T->T S->S C->C)',
                      seq, got, expected)
    else:
        col.violation('convert_dssp_to_martini/helix-run', FN_CONV,
                      'a maximal run of helical classes (H, G, I) is not rewritten by the start/end/short-helix rules',
                      seq, got, expected)
    return False


DIGITS = str.maketrans(DSSP_ALPHABET, '12345678')


def exhaustive_strings(col, alphabet, max_len):
    count = 0
    for n in range(0, max_len + 1):
        for tup in itertools.product(alphabet, repeat=n):
            seq = ''.join(tup)
            # compact fingerprint (the same string met in two enumerations counts once)
            check_convert(col, seq, fingerprint=int(seq.translate(DIGITS) or '0'))
            count += 1
    return count


# --------------------------------------------------------------------------------------------------------------
# the two pipelines of the command line: -ss (AnnotateResidues on proteins) and -dssp (AnnotateDSSP), each followed
# by AnnotateMartiniSecondaryStructures
# --------------------------------------------------------------------------------------------------------------
def check_martini_stage(col, system, spec, aa_per_molecule, fingerprint):
    """system carries the (verified) aasecstruct; run the real second stage and compare cgsecstruct per residue."""
    from vermouth.dssp.dssp import AnnotateMartiniSecondaryStructures
    residues = [o_residues(mol['atoms']) for mol in spec['molecules']]
    # a wrong translation of the plain string is reported once, under the key of convert_dssp_to_martini; this stage
    # then only answers for what it adds (per-molecule strings, every atom of the residue, molecules left alone)
    if not all([check_convert(col, ''.join(aa)) for aa in aa_per_molecule if aa is not None]):
        return
    before = snapshot(system)
    error = None
    try:
        AnnotateMartiniSecondaryStructures().run_system(system)
    except Exception as exc:  # pylint: disable=broad-except
        error = '%s: %s' % (type(exc).__name__, exc)
    after = snapshot(system)
    annotated = [aa is not None for aa in aa_per_molecule]
    expected = [list(o_convert(''.join(aa))) for aa in aa_per_molecule if aa is not None]
    col.case(fingerprint, any(c in O_HELICAL for aa in aa_per_molecule if aa for c in aa))
    if error is not None:
        col.violation('convert_dssp_annotation_to_martini/total', FN_CONVA,
                      'translating a fully annotated system raised an error', spec, error, expected)
        return
    for clause, observed, wanted in compare_state(spec, 'cgsecstruct', before, after, annotated, expected, residues):
        col.violation('convert_dssp_annotation_to_martini/' + clause, FN_CONVA,
                      'after the DSSP -> Martini stage the Martini class of the k-th residue is not the translation of '
                      'the molecule\'s DSSP string at k (or a molecule without annotation was modified)',
                      spec, observed, wanted)


def check_ss_pipeline(col, rng):
    mols = strip_old(gen_system(rng, 5, 9, 'is_protein'))
    seq = gen_sequence(rng, mols, 'is_protein', alphabet=DSSP_ALPHABET)
    spec = dict(molecules=mols, sequence=seq, selector='is_protein', attribute='aasecstruct')
    fingerprint = digest('', spec)
    system = check_run_system(col, spec, fingerprint='ss1:' + fingerprint)
    if system is None:
        return
    selected = [o_selected('is_protein', m) for m in mols]
    lengths = [len(o_residues(m['atoms'])) for m, s in zip(mols, selected) if s]
    slices = iter(o_reconcile(seq, lengths))
    aa = [next(slices) if s else None for s in selected]
    check_martini_stage(col, system, spec, aa, 'ss2:' + fingerprint)


def check_dssp_pipeline(col, rng):
    """AnnotateDSSP with an injected callable standing for the DSSP program: it answers, for the molecule it is given,
    the string planned for that molecule."""
    from vermouth.dssp.dssp import AnnotateDSSP
    mols = strip_old(gen_system(rng, 4, 8, 'is_protein', positions=True))
    residues = [o_residues(m['atoms']) for m in mols]
    selected = [o_selected('is_protein', m) for m in mols]
    plan = {}
    first_bad = None
    for idx, (res, sel) in enumerate(zip(residues, selected)):
        size = len(res)
        if sel and rng.random() < 0.12:
            size = rng.choice([len(res) + 1, len(res) - 1, len(res) + 2, 0])
            if size == 1 or size < 0:
                size = len(res) + 1
            if first_bad is None:
                first_bad = idx
        plan[idx] = gen_dssp_string(rng, size)
    spec = dict(molecules=mols, dssp_output_per_molecule=plan, selector='is_protein', attribute='aasecstruct')
    system = build_system(spec, 'aasecstruct')
    before = snapshot(system)

    def fake_dssp(sub_system):
        molecule = sub_system.molecules[0]
        tag = molecule.nodes[next(iter(molecule.nodes))]['tag']
        return list(plan[tag])

    error = None
    try:
        AnnotateDSSP(executable=fake_dssp).run_system(system)
    except Exception as exc:  # pylint: disable=broad-except
        error = '%s: %s' % (type(exc).__name__, exc)
    after = snapshot(system)
    fingerprint = digest('', spec)
    col.case('dssp1:' + fingerprint, any(selected))
    if first_bad is not None:
        if error is None:
            col.violation('annotate_dssp/length-mismatch-accepted', FN_DSSP,
                          'DSSP answered a string whose length differs from the number of residues of the molecule and '
                          'no error was raised', spec,
                          [view(after[i][0], residues[i], 'aasecstruct') for i in range(len(residues))], 'error')
        return
    if error is not None:
        col.violation('annotate_dssp/valid-sequence-rejected', FN_DSSP,
                      'DSSP answered one class per residue and an error was raised', spec, error, 'no error')
        return
    expected = [list(plan[i]) for i in range(len(mols)) if selected[i]]
    bad = compare_state(spec, 'aasecstruct', before, after, selected, expected, residues)
    for clause, observed, wanted in bad:
        col.violation('annotate_dssp/' + clause, FN_DSSP,
                      'the k-th class answered by DSSP for a protein did not land on every atom of its k-th residue '
                      '(or a non-protein molecule was modified)', spec, observed, wanted)
    if bad:
        return
    aa = [plan[i] if selected[i] else None for i in range(len(mols))]
    check_martini_stage(col, system, spec, aa, 'dssp2:' + fingerprint)


# --------------------------------------------------------------------------------------------------------------
# annotate_residues_from_sequence directly
# --------------------------------------------------------------------------------------------------------------
def check_direct(col, rng):
    from vermouth.dssp.dssp import annotate_residues_from_sequence
    mol = gen_molecule(rng, rng.randint(1, 7), AMINO + OTHER, True)
    residues = o_residues(mol['atoms'])
    nres = len(residues)
    size = rng.choice([nres, nres, nres + 1, nres - 1, 0, nres + 3, 2 * nres])
    if size == 1 and nres != 1:
        size = nres
    pool = list(LABELS)
    rng.shuffle(pool)
    seq = [pool[i % len(pool)] for i in range(size)]
    seq = rng.choice([seq, ''.join(seq), tuple(seq)])
    spec = dict(molecules=[mol], sequence=''.join(seq), seqtype=type(seq).__name__, attribute='annot')
    system = build_system(spec, 'annot')
    before = snapshot(system)
    error = None
    try:
        annotate_residues_from_sequence(system.molecules[0], 'annot', seq)
    except ValueError as exc:
        error = 'ValueError: %s' % exc
    except Exception as exc:  # pylint: disable=broad-except
        error = '%s: %s' % (type(exc).__name__, exc)
    after = snapshot(system)
    col.case(digest('direct:', spec), size > 0)
    if size != nres:
        if error is None or after != before:
            col.violation('annotate_residues_from_sequence/length-mismatch', FN_ARS,
                          'a sequence whose length differs from the number of residues must raise an error and assign '
                          'nothing', spec, error or [view(after[0][0], residues, 'annot')], 'ValueError, nothing written')
        return
    if error is not None:
        col.violation('annotate_residues_from_sequence/valid-sequence-rejected', FN_ARS,
                      'one element per residue was rejected', spec, error, list(seq))
        return
    for clause, observed, wanted in compare_state(spec, 'annot', before, after, [True], [list(seq)], [residues]):
        col.violation('annotate_residues_from_sequence/' + clause, FN_ARS,
                      'the k-th element did not land on every atom of the k-th residue (residues ordered by lowest '
                      'node key)', spec, observed, wanted)


# --------------------------------------------------------------------------------------------------------------
# entry points
# --------------------------------------------------------------------------------------------------------------
def bounded(tier, seed):
    rng = random.Random(seed)
    quick = tier != 'thorough'
    col = Collector(
        'A) AnnotateResidues.run_system, exhaustive: every system of <= M molecules x residue counts x '
        'selected/unselected pattern (any order) x every sequence length 0..total+2 with pairwise distinct labels, vs '
        'the reconciliation/slicing oracle incl. frame (unselected molecules and other attributes untouched, nothing '
        'written on a mismatch); then seeded random systems with sparse / shuffled / descending node keys, gaps, '
        'insertion codes, chain changes, repeated resids, pre-existing values, str/tuple sequences, selectors '
        'flag / is_protein / default.  B) convert_dssp_to_martini, exhaustive over the full DSSP alphabet, over '
        '{H,G,C} and over {H,C} up to the stated lengths, then run-structured random strings up to length 80 '
        '(str and list input).  C) the -ss pipeline (AnnotateResidues on proteins + AnnotateMartiniSecondaryStructures) '
        'and the -dssp pipeline (AnnotateDSSP with an injected DSSP answer + the same second stage) on random mixed '
        'protein / non-protein systems.  D) annotate_residues_from_sequence directly.  '
        'non-trivial = a selected residue exists and the sequence is non-empty / the string contains a helical class')
    previous_disable = logging.root.manager.disable
    logging.disable(logging.CRITICAL)
    try:
        # A) exhaustive systems
        if quick:
            n_sys = exhaustive_systems(col, (1, 2, 3), (1, 2, 3))
            n_sys += exhaustive_systems(col, (4,), (1, 2))
            bound_a = '<= 3 molecules x residue counts {1,2,3}, 4 molecules x {1,2}'
        else:
            n_sys = exhaustive_systems(col, (1, 2, 3, 4), (1, 2, 3))
            n_sys += exhaustive_systems(col, (5,), (1, 2))
            bound_a = '<= 4 molecules x residue counts {1,2,3}, 5 molecules x {1,2}'
        # B) exhaustive strings
        full_len, hgc_len, hc_len = (5, 9, 17) if quick else (6, 11, 20)
        n_str = exhaustive_strings(col, DSSP_ALPHABET, full_len)
        n_str += exhaustive_strings(col, 'HGC', hgc_len)
        n_str += exhaustive_strings(col, 'HC', hc_len)
        col.exhaustive = True
        col.bound = ('systems: %s, every selection pattern, every sequence length 0..total+2 (%d systems); '
                     'DSSP strings: all over HBEGITSC of length <= %d, over HGC <= %d, over HC <= %d (%d strings)'
                     % (bound_a, n_sys, full_len, hgc_len, hc_len, n_str))
        # beyond the exhaustive scope: seeded random
        for _ in range(1500 if quick else 25000):
            selector = rng.choice(['flag', 'flag', 'is_protein', 'all'])
            mols = gen_system(rng, 6, 7, selector, allow_empty=(selector != 'is_protein'))
            spec = dict(molecules=mols, sequence=gen_sequence(rng, mols, selector), selector=selector,
                        attribute=rng.choice(['aasecstruct', 'cgsecstruct', 'note']))
            if rng.random() < 0.3:
                spec['seqtype'] = 'tuple'
            check_run_system(col, spec)
        for _ in range(20000 if quick else 400000):
            size = rng.choice([rng.randint(1, 30), rng.randint(10, 80)])
            alphabet = rng.choice([DSSP_ALPHABET, DSSP_ALPHABET, 'HGIC', 'HCE', 'GIT'])
            check_convert(col, gen_dssp_string(rng, size, alphabet), as_list=rng.random() < 0.3)
        for _ in range(600 if quick else 8000):
            check_ss_pipeline(col, rng)
        for _ in range(400 if quick else 6000):
            check_dssp_pipeline(col, rng)
        for _ in range(500 if quick else 10000):
            check_direct(col, rng)
    finally:
        logging.disable(previous_disable)
    return col.result()


def replay_model(function, model):
    """counter-model of a failed obligation -> native run against the oracle (only the string translation and the
    plain run_system shape are understood; anything else is left to the bounded run)."""
    try:
        if 'convert_dssp_to_martini' in function:
            seq = model.get('sequence')
            if isinstance(seq, (list, tuple)):
                seq = ''.join(seq)
            if not isinstance(seq, str) or any(c not in DSSP_ALPHABET for c in seq):
                return None
            col = Collector('replay')
            check_convert(col, seq)
            return col.violations[0] if col.violations else None
        if 'run_system' in function:
            shape = model.get('residue_counts')
            flags = model.get('selected')
            seq = model.get('sequence')
            if shape is None or flags is None or seq is None or len(shape) != len(flags):
                return None
            if isinstance(seq, int):
                seq = LABELS[:seq]
            if not isinstance(seq, str):
                seq = ''.join(str(s) for s in seq)
            mols = [det_molecule(i % 7, int(n), bool(f), 0) for i, (n, f) in enumerate(zip(shape, flags))]
            col = Collector('replay')
            check_run_system(col, dict(molecules=mols, sequence=seq, selector='flag', attribute='aasecstruct'))
            return col.violations[0] if col.violations else None
    except Exception:  # pylint: disable=broad-except
        return None
    return None

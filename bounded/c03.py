"""C03 bounded stand-in: small systems go through the real naming / sorting / writing code of the working tree; the
three kinds of files that come out (.pdb, .top, one .itp per molecule type) are read back by independent mini readers
and compared with each other and with the plain-data description the system was built from.

How a coordinate record is tied to an input atom without asking the library: every atom gets a unique position
(x = molecule number, y = atom number in the description), so a coordinate record *says* which atom it is."""
import itertools
import json
import logging
import os
import random
import shutil
import subprocess
import sys
import tempfile
import time
from collections import Counter

from .common import Collector, REPO, load_cli  # noqa: F401  (sys.path handling for VERIF_REPO lives in common)

# --------------------------------------------------------------------------------------------------------------
# plain-data description of a molecule (JSON-able; the oracle only ever looks at this, never at vermouth objects)
# --------------------------------------------------------------------------------------------------------------
# mol  = dict(nrexcl=int, nodes=[node, ...] (insertion order), edges=[[key, key], ...],
#             inter=[[type, [keys], [parameters], meta], ...])
# node = dict(key=int, atomname, resname, resid, atype, cgnr, charge, chain [, mass] [, atomid])
ARITY = {'bonds': 2, 'constraints': 2, 'pairs': 2, 'angles': 3, 'dihedrals': 4}
SECTION_OF = {'bonds': 'bonds', 'constraints': 'constraints', 'pairs': 'pairs', 'angles': 'angles',
              'dihedrals': 'dihedrals', 'impropers': 'dihedrals'}
NODE_WRITTEN = ('atype', 'resid', 'resname', 'atomname', 'cgnr', 'charge', 'mass')


def canon(value):
    """a field as a reader of the file sees it: a number if it reads as one, else the bare word."""
    word = value if isinstance(value, str) else str(value)
    try:
        return ('n', round(float(word), 9))
    except ValueError:
        return ('s', word)


def guard_of(meta):
    if meta.get('ifdef') is not None:
        return ['ifdef', meta['ifdef']]
    if meta.get('ifndef') is not None:
        return ['ifndef', meta['ifndef']]
    return None


def expected_topology(mol, order):
    """what a topology that is valid for `mol` has to say when its atoms are numbered 1.. in `order` (list of
    positions in mol['nodes']): (nrexcl, atom rows, multiset of interactions)."""
    number = {mol['nodes'][o]['key']: k for k, o in enumerate(order, 1)}
    rows = []
    for o in order:
        node = mol['nodes'][o]
        rows.append(tuple(canon(node[f]) if f in node else None for f in NODE_WRITTEN))
    inter = Counter()
    for type_, keys, params, meta in mol['inter']:
        inter[json.dumps([SECTION_OF[type_], [number[k] for k in keys], [canon(p) for p in params], guard_of(meta)])] += 1
    return mol['nrexcl'], rows, inter


# --------------------------------------------------------------------------------------------------------------
# independent readers (GROMACS / PDB column conventions; know nothing about vermouth)
# --------------------------------------------------------------------------------------------------------------
def read_pdb(text):
    """-> list of blocks (one per TER-terminated run of atom records); record = dict(name, resname, resid, chain, xyz)."""
    blocks, cur = [], []
    for line in text.split('\n'):
        tag = line[:6]
        if tag in ('ATOM  ', 'HETATM'):
            cur.append(dict(serial=line[6:11].strip(), name=line[12:16].strip(), resname=line[17:20].strip(),
                            chain=line[21:22].strip(), resid=line[22:26].strip(),
                            xyz=(float(line[30:38]), float(line[38:46]), float(line[46:54]))))
        elif tag.startswith('TER'):
            blocks.append(cur)
            cur = []
    if cur:
        blocks.append(cur)
    return blocks


def read_top(text):
    """-> (list of included file names, [molecules] as [(name, count)], problems)."""
    includes, molecules, problems = [], [], []
    section = None
    for raw in text.split('\n'):
        line = raw.split(';', 1)[0].strip()
        if not line:
            continue
        if line.startswith('#include'):
            rest = line[len('#include'):].strip()
            includes.append(rest.strip('"<>'))
        elif line[0] == '#':
            continue
        elif line[0] == '[':
            section = line.strip('[]').strip()
        elif section == 'molecules':
            toks = line.split()
            try:
                molecules.append((toks[0], int(toks[1])))
                if len(toks) != 2:
                    raise ValueError
            except (ValueError, IndexError):
                problems.append(raw)
    return includes, molecules, problems


def read_itp(text):
    """-> list of molecule types; each dict(name, nrexcl, atoms=[token rows], inter=Counter, problems=[...])."""
    types, cur, section, stack = [], None, None, []
    for raw in text.split('\n'):
        line = raw.split(';', 1)[0].strip()
        if not line:
            continue
        if line[0] == '#':
            toks = line.split()
            if toks[0] in ('#ifdef', '#ifndef'):
                stack.append([toks[0][1:], toks[1] if len(toks) > 1 else None])
            elif toks[0] == '#endif':
                if stack:
                    stack.pop()
                elif cur is not None:
                    cur['problems'].append('endif without guard')
            continue
        if line[0] == '[':
            section = line.strip('[]').strip()
            if section == 'moleculetype':
                cur = dict(name=None, nrexcl=None, atoms=[], inter=Counter(), problems=[])
                types.append(cur)
            elif stack and cur is not None:
                cur['problems'].append('guard open at section header')
            continue
        toks = line.split()
        if cur is None:
            continue
        if section == 'moleculetype':
            if cur['name'] is None and len(toks) == 2:
                cur['name'], cur['nrexcl'] = toks
            else:
                cur['problems'].append('moleculetype line: %r' % raw)
        elif section == 'atoms':
            cur['atoms'].append(toks)
        elif section in ARITY:
            n = ARITY[section]
            try:
                idx = [int(t) for t in toks[:n]]
                if len(idx) != n:
                    raise ValueError
            except ValueError:
                cur['problems'].append('unreadable %s line: %r' % (section, raw))
                continue
            guard = None if not stack else (stack[0] if len(stack) == 1 else stack[:])
            cur['inter'][json.dumps([section, idx, [canon(t) for t in toks[n:]], guard])] += 1
        else:
            cur['problems'].append('unexpected section %s' % section)
    return types


def atom_row(tokens):
    """an [atoms] row -> (number, (atype, resid, resname, atomname, cgnr, charge, mass)); None if unreadable."""
    if len(tokens) not in (7, 8):
        return None
    try:
        number = int(tokens[0])
    except ValueError:
        return None
    fields = [canon(t) for t in tokens[1:]]
    if len(fields) == 6:
        fields.append(None)
    return number, tuple(fields)


# --------------------------------------------------------------------------------------------------------------
# the real code
# --------------------------------------------------------------------------------------------------------------
class Crash(Exception):
    def __init__(self, stage, exc):
        super().__init__('%s: %s: %s' % (stage, type(exc).__name__, exc))
        self.stage = stage
        self.exc = exc


def build_molecule(mol, mol_idx):
    import numpy as np
    from vermouth.molecule import Molecule
    out = Molecule(nrexcl=mol['nrexcl'])
    for ordinal, node in enumerate(mol['nodes']):
        attrs = dict(atomname=node['atomname'], resname=node['resname'], resid=node['resid'], atype=node['atype'],
                     charge_group=node['cgnr'], charge=node['charge'], chain=node['chain'],
                     position=np.array([(mol_idx + 1) / 10, (ordinal + 1) / 10, 0.0]))
        for opt in ('mass', 'atomid'):
            if opt in node:
                attrs[opt] = node[opt]
        out.add_node(node['key'], **attrs)
    for a, b in mol['edges']:
        out.add_edge(a, b)
    for type_, keys, params, meta in mol['inter']:
        out.add_interaction(type_, list(keys), list(params), dict(meta))
    return out


_ORDER = {}


def sort_comes_first():
    """the library-level runs apply the naming and the atom sorting in the order the command line applies them
    (unchanged tree: NameMolType, later SortMoleculeAtoms). Read off the script so that the stand-in keeps describing
    'a system written out' if that order is ever changed there."""
    if 'sort_first' not in _ORDER:
        try:
            with open(os.path.join(REPO, 'bin', 'martinize2')) as handle:
                text = handle.read()
            name_at, sort_at = text.find('NameMolType('), text.find('SortMoleculeAtoms(')
            _ORDER['sort_first'] = 0 <= sort_at < name_at
        except OSError:
            _ORDER['sort_first'] = False
    return _ORDER['sort_first']


def run_real(mols, dedup, sort, workdir, gro=False):
    """names, sorts and writes the system with the real code. -> (names given to the molecules, {file name: text})"""
    import vermouth
    from vermouth.system import System
    from vermouth.file_writer import DeferredFileWriter
    from vermouth.gmx.topology import write_gmx_topology
    writer = DeferredFileWriter()
    if hasattr(writer, '_tmpdir'):
        writer._tmpdir = workdir  # keep the library's scratch files inside our own temporary directory
    for fname in os.listdir(workdir):
        os.remove(os.path.join(workdir, fname))
    system = System()
    system.meta['header'] = ['bounded C03']
    for mol_idx, mol in enumerate(mols):
        system.add_molecule(build_molecule(mol, mol_idx))
    old = os.getcwd()
    os.chdir(workdir)
    stage = 'name'
    try:
        if sort and sort_comes_first():
            stage = 'sort'
            vermouth.SortMoleculeAtoms().run_system(system)
            stage = 'name'
        vermouth.NameMolType(deduplicate=dedup).run_system(system)
        names = [m.meta.get('moltype') for m in system.molecules]
        if sort and not sort_comes_first():
            stage = 'sort'
            vermouth.SortMoleculeAtoms().run_system(system)
        stage = 'top'
        write_gmx_topology(system, 'system.top')
        stage = 'pdb'
        vermouth.pdb.write_pdb(system, 'system.pdb', omit_charges=True)
        stage = 'flush'
        writer.write()
        if gro:  # not a writer the property observes (see bounded()); looked at for the record only
            try:
                vermouth.gmx.gro.write_gro(system, 'system.gro', defer_writing=False)
            except Exception:  # pylint: disable=broad-except
                pass
    except Exception as exc:  # pylint: disable=broad-except
        writer.close()
        raise Crash(stage, exc)
    finally:
        os.chdir(old)
    files = {}
    for fname in sorted(os.listdir(workdir)):
        path = os.path.join(workdir, fname)
        if os.path.isfile(path):
            with open(path) as handle:
                files[fname] = handle.read()
            os.remove(path)
    return names, files


# --------------------------------------------------------------------------------------------------------------
# the comparison
# --------------------------------------------------------------------------------------------------------------
STAGE_FN = {'name': 'NameMolType.run_system', 'sort': 'SortMoleculeAtoms.run_molecule', 'top': 'write_gmx_topology',
            'pdb': 'write_pdb_string', 'flush': 'DeferredFileWriter.write'}


def atomids_unique(mol):
    ids = [node.get('atomid') for node in mol['nodes']]
    return None not in ids and len(set(ids)) == len(ids)


def evaluate(mols, dedup, sort, workdir, gro=False):
    """one system through the real code and the oracle. -> (names or None, files, [violation dict, ...])"""
    inp = dict(molecules=mols, deduplicate=dedup, sort_atoms=sort)
    found = []

    def bad(key, function, what, observed, expected):
        found.append(dict(key=key, function=function, what=what, input=inp, observed=observed, expected=expected))

    try:
        names, files = run_real(mols, dedup, sort, workdir, gro)
    except Crash as crash:
        bad('pipeline/crash-%s' % crash.stage, STAGE_FN[crash.stage],
            'a well-formed system cannot be written: %s' % crash, str(crash), 'three consistent files')
        return None, {}, found
    _compare(mols, names, files, sort, bad)
    return names, files, found


def _compare(mols, names, files, sort, bad):
    if 'system.top' not in files or 'system.pdb' not in files:
        bad('pipeline/files', 'write_gmx_topology', 'the .top or the coordinate file was not written', sorted(files),
            ['system.pdb', 'system.top', '<moltype>.itp ...'])
        return

    # ---- coordinate file: one TER-terminated block per molecule, every atom of it exactly once ----------------
    blocks = read_pdb(files['system.pdb'])
    block_mol, block_order = [], []
    for block in blocks:
        owners = {int(round(rec['xyz'][0])) - 1 for rec in block}
        order = [int(round(rec['xyz'][1])) - 1 for rec in block]
        if len(owners) != 1 or min(owners) < 0 or min(owners) >= len(mols):
            block_mol.append(None)
            block_order.append(order)
            continue
        owner = owners.pop()
        block_mol.append(owner if sorted(order) == list(range(len(mols[owner]['nodes']))) else None)
        block_order.append(order)
    if None in block_mol or sorted(block_mol) != list(range(len(mols))):
        bad('pdb/molecule-blocks', 'write_pdb_string',
            'the coordinate file does not hold every molecule as one TER-terminated block with each atom once',
            [[(int(round(r['xyz'][0])), int(round(r['xyz'][1]))) for r in b] for b in blocks],
            'one block per molecule, each (molecule, atom) pair exactly once')
        return

    # ---- .top ------------------------------------------------------------------------------------------------
    includes, molecules, problems = read_top(files['system.top'])
    if problems:
        bad('top/molecules-syntax', 'write_gmx_topology', 'unreadable line in [ molecules ]', problems, 'name count')
        return
    expanded = [name for name, count in molecules for _ in range(count)]
    if any(count < 1 for _, count in molecules):
        bad('top/molecule-count', 'write_gmx_topology', 'a [ molecules ] line with a count below 1', molecules,
            'positive counts')
        return
    if len(expanded) != len(blocks):
        bad('top/molecule-count', 'write_gmx_topology',
            '[ molecules ] describes a different number of molecules than the coordinate file holds',
            dict(molecules=molecules, total=len(expanded)), dict(coordinate_molecules=len(blocks)))
        return
    given = [names[block_mol[i]] for i in range(len(blocks))]
    if expanded != given:
        bad('top/molecule-order', 'write_gmx_topology',
            '[ molecules ] does not list the molecule type names the molecules were given, in coordinate-file order',
            molecules, given)
        return
    itp_includes = [inc for inc in includes if inc != 'martini.itp']
    for name in dict.fromkeys(expanded):
        times = itp_includes.count(name + '.itp')
        if times == 0:
            bad('top/include-missing', 'write_gmx_topology', 'the file of a listed molecule type is never included',
                dict(includes=includes, moltype=name), 'exactly one #include "%s.itp"' % name)
        elif times > 1:
            bad('top/include-once', 'write_gmx_topology',
                'the file of a molecule type is included %d times (grompp: moleculetype redefined)' % times,
                dict(includes=includes, molecules=molecules), 'exactly one #include "%s.itp"' % name)
    for inc in dict.fromkeys(itp_includes):
        if inc not in files:
            bad('top/include-dangling', 'write_gmx_topology', 'an included file was not written',
                dict(includes=includes, files=sorted(files)), 'every included file exists')
        elif inc[:-4] not in expanded:
            bad('top/include-unused', 'write_gmx_topology', 'a molecule type file is included but never listed',
                dict(includes=includes, molecules=molecules), 'includes = the listed molecule types')

    # ---- one molecule type per name ------------------------------------------------------------------------------
    moltypes = {}
    for name in dict.fromkeys(expanded):
        text = files.get(name + '.itp')
        if text is None:
            bad('itp/file-per-type', 'write_gmx_topology', 'no file written for a listed molecule type',
                dict(moltype=name, files=sorted(files)), name + '.itp')
            continue
        found = read_itp(text)
        if len(found) != 1 or found[0]['name'] != name or found[0]['problems']:
            bad('itp/file-per-type', 'write_gmx_topology',
                'the file of a molecule type does not define exactly that one molecule type',
                [(t['name'], t['problems']) for t in found], [(name, [])])
            continue
        moltypes[name] = found[0]

    # ---- atom for atom ----------------------------------------------------------------------------------------
    first_of = {}
    for i, block in enumerate(blocks):
        name = expanded[i]
        owner = block_mol[i]
        mol = mols[owner]
        is_first = name not in first_of
        first_of.setdefault(name, i)
        if name not in moltypes:
            continue
        moltype = moltypes[name]
        first_owner = block_mol[first_of[name]]
        where = dict(moltype=name, molecule=owner, written_from_molecule=first_owner)
        rows = [atom_row(tokens) for tokens in moltype['atoms']]
        if None in rows or [r[0] for r in rows] != list(range(1, len(rows) + 1)):
            if is_first:
                bad('itp/atoms-syntax', 'write_molecule_itp', 'unreadable or not consecutively numbered [ atoms ]',
                    moltype['atoms'], 'rows numbered 1..n with 7 or 8 columns')
            continue
        problems = []  # (clause, function, what, observed, expected)
        # clause 1, file against file: k-th coordinate record = k-th atom of the molecule type
        pdb_ident = [(canon(r['name']), canon(r['resname']), canon(r['resid'])) for r in block]
        itp_ident = [(r[1][3], r[1][2], r[1][1]) for r in rows]
        if pdb_ident != itp_ident:
            problems.append(('coord-vs-itp/%s/atom-identity', 'write_molecule_itp' if is_first else
                             'NameMolType._name_with_deduplication',
                             'the k-th coordinate record of a molecule is not the k-th atom of its molecule type '
                             '(atom name, residue name, residue number)',
                             dict(where, coordinate_records=[[w for _, w in ident] for ident in pdb_ident]),
                             dict(where, itp_atoms=[[w for _, w in ident] for ident in itp_ident])))
        else:
            # clause 3: the one topology written for the name is valid for this molecule (numbered in record order)
            _, exp_rows, exp_inter = expected_topology(mol, block_order[i])
            fn_content = 'write_molecule_itp' if is_first else 'Molecule.share_moltype_with'
            if [r[1] for r in rows] != exp_rows:
                problems.append(('itp-vs-molecule/%s/atoms', fn_content,
                                 'the [ atoms ] written for the molecule type do not describe the atoms of this molecule',
                                 dict(where, itp_atoms=moltype['atoms']),
                                 dict(where, atoms=[mol['nodes'][o] for o in block_order[i]])))
            if moltype['inter'] != exp_inter:
                problems.append(('itp-vs-molecule/%s/interactions', fn_content,
                                 'the interactions written for the molecule type are not the interactions of this '
                                 'molecule (atoms numbered by coordinate-record order)',
                                 dict(where, only_in_itp=sorted((moltype['inter'] - exp_inter).elements())),
                                 dict(where, only_in_molecule=sorted((exp_inter - moltype['inter']).elements()))))
        if canon(moltype['nrexcl']) != canon(mol['nrexcl']):
            bad('itp-vs-molecule/%s/nrexcl' % ('first' if is_first else 'shared'),
                'write_molecule_itp' if is_first else 'Molecule.share_moltype_with',
                'nrexcl of the molecule type is not that of this molecule',
                dict(where, nrexcl=moltype['nrexcl']), dict(where, nrexcl=mol['nrexcl']))
        if not problems:
            continue
        if is_first:
            for clause, function, what, observed, expected in problems:
                bad(clause % 'first', function, what, observed, expected)
            continue
        # a later molecule with the same name. The key says on what kind of pair it happened (atom ids usable as an
        # order or not; chain labels, which sorting looks at and deduplication does not, ordered alike or not), and
        # one root cause - the two molecules were written in different atom orders - gets one key
        first = mols[first_owner]
        flavour = ['unique-atomids' if atomids_unique(mol) and atomids_unique(first) else 'tied-or-missing-atomids']
        if sort and chain_pattern(mol) != chain_pattern(first):
            flavour.append('chains-ordered-differently')
        flavour = '[%s]' % ','.join(flavour)
        same_keys = [n['key'] for n in mol['nodes']] == [n['key'] for n in first['nodes']]
        if same_keys and block_order[i] != block_order[first_of[name]]:
            keys = [n['key'] for n in mol['nodes']]
            bad('coord-vs-itp/shared/atom-order' + flavour, 'NameMolType._name_with_deduplication',
                'two molecules carry one molecule type name but their atoms are written in different orders, so the '
                'single ITP does not describe the k-th coordinate record of the second (first symptom: %s)'
                % (problems[0][0] % 'shared'),
                dict(problems[0][3], node_keys_in_record_order=[keys[o] for o in block_order[i]]),
                dict(problems[0][4], node_keys_in_record_order_of_first=[keys[o] for o in block_order[first_of[name]]]))
            continue
        for clause, function, what, observed, expected in problems:
            bad(clause % 'shared' + flavour, function, what, observed, expected)


def chain_pattern(mol):
    """rank of every atom's chain label among the labels of the molecule, in storage order."""
    labels = sorted({nd['chain'] for nd in mol['nodes']})
    return [labels.index(nd['chain']) for nd in mol['nodes']]


# --------------------------------------------------------------------------------------------------------------
# the command line end to end (file against file only: nothing is known about the coarse-grained molecules but what
# the three kinds of files say)
# --------------------------------------------------------------------------------------------------------------
# heavy atoms of an extended three-residue backbone (+ CB), Angstrom
HEAVY = [(1, 'N', -0.677, -1.230, -0.491), (1, 'CA', -0.001, 0.064, -0.491), (1, 'C', 1.499, -0.110, -0.491),
         (1, 'O', 2.065, -0.922, 0.251), (1, 'CB', -0.509, 0.856, 0.727),
         (2, 'N', 2.311, 0.711, -1.400), (2, 'CA', 3.700, 0.321, -1.173), (2, 'C', 4.606, 1.529, -1.169),
         (2, 'O', 4.515, 2.421, -2.021), (2, 'CB', 4.079, -0.705, -2.254),
         (3, 'N', 5.629, 1.648, -0.120), (3, 'CA', 6.335, 2.900, -0.377), (3, 'C', 7.821, 2.736, -0.163),
         (3, 'O', 8.320, 1.656, 0.174), (3, 'CB', 5.718, 3.979, 0.529)]
CLI_CASES = [  # (chains as (chain id, residue name), extra arguments)
    ([('A', 'ALA'), ('B', 'GLY'), ('C', 'ALA')], []),                                # identical chains interleaved
    ([('A', 'ALA'), ('B', 'ALA'), ('C', 'GLY'), ('D', 'GLY')], []),                  # identical chains adjacent
    ([('A', 'ALA'), ('B', 'ALA'), ('C', 'GLY')], ['-sep']),                          # no deduplication
    ([('B', 'ALA'), ('A', 'GLY'), ('C', 'ALA'), ('D', 'GLY')], ['-merge', 'B,A', '-merge', 'C,D']),  # merged pairs
]


CLI_CASES_MORE = [
    ([('A', 'ALA'), ('B', 'GLY'), ('C', 'ALA'), ('D', 'GLY'), ('E', 'ALA')], []),
    ([('A', 'ALA'), ('B', 'GLY'), ('C', 'ALA')], ['-sep']),
    ([('A', 'ALA'), ('B', 'GLY'), ('C', 'ALA'), ('D', 'GLY')], ['-merge', 'A,B', '-merge', 'C,D']),
    ([('A', 'ALA'), ('B', 'GLY'), ('C', 'GLY'), ('D', 'ALA')], ['-merge', 'A,B', '-merge', 'C,D', '-resid', 'input']),
]


def cli_pdb(chains):
    lines, serial = [], 1
    for number, (chain, resname) in enumerate(chains):
        for resid, name, x, y, z in HEAVY:
            if resname == 'GLY' and name == 'CB':
                continue
            lines.append('ATOM  %5d %-4s %3s %1s%4d    %8.3f%8.3f%8.3f%6.2f%6.2f          %2s'
                         % (serial, ' ' + name, resname, chain, resid, x + 30 * number, y, z, 1, 0, name[0]))
            serial += 1
        lines.append('TER')
    lines.append('END')
    return '\n'.join(lines) + '\n'


def start_cli(root, number, chains, extra):
    workdir = os.path.join(root, 'cli%d' % number)
    os.mkdir(workdir)
    with open(os.path.join(workdir, 'in.pdb'), 'w') as handle:
        handle.write(cli_pdb(chains))
    env = dict(os.environ, TMPDIR=workdir)
    if os.environ.get('VERIF_REPO'):
        env['PYTHONPATH'] = REPO + os.pathsep + env.get('PYTHONPATH', '')
    log = open(os.path.join(workdir, 'log.txt'), 'w')
    proc = subprocess.Popen([sys.executable, '-W', 'ignore', os.path.join(REPO, 'bin', 'martinize2'), '-f', 'in.pdb',
                             '-x', 'out.pdb', '-o', 'out.top', '-ff', 'martini3001', '-ignh', '-maxwarn', '100'] + extra,
                            cwd=workdir, env=env, stdout=log, stderr=log, stdin=subprocess.DEVNULL)
    return proc, log, workdir


def finish_cli(col, proc, log, workdir, chains, extra, notes, confirmed):
    inp = dict(command_line=['martinize2', '-f', 'in.pdb', '-x', 'out.pdb', '-o', 'out.top', '-ff', 'martini3001',
                             '-ignh', '-maxwarn', '100'] + extra,
               in_pdb='three-residue chains, in file order: ' + ' '.join('%s=%s3' % c for c in chains))
    try:
        status = proc.wait(timeout=240)
    except subprocess.TimeoutExpired:
        proc.kill()
        proc.wait()
        status = 'timeout'
    log.close()
    files = {}
    for fname in sorted(os.listdir(workdir)):
        if fname.endswith(('.itp', '.top')) or fname == 'out.pdb':
            with open(os.path.join(workdir, fname)) as handle:
                files[fname] = handle.read()
    if status != 0 or 'out.pdb' not in files or 'out.top' not in files:
        # nothing was written out, so the property says nothing; kept for the record
        notes.append(dict(input=inp, exit_status=status, files=sorted(files)))
        return
    found = []
    # merged groups whose chain labels sort differently from group to group (B,A against C,D)
    groups = [g.split(',') for flag, g in zip(extra, extra[1:]) if flag == '-merge']
    chains_differ = len({tuple(sorted(g).index(c) for c in g) for g in groups}) > 1
    compare_files(files, lambda key, function, what, observed, expected: found.append(
        dict(key=key, function=function, what=what, input=inp, observed=observed, expected=expected)), chains_differ)
    blocks = read_pdb(files['out.pdb'])
    _, molecules, _ = read_top(files['out.top'])
    col.case(('cli', json.dumps(inp, sort_keys=True)), len(blocks) > 1,
             dict(inp, top_molecules=molecules, coordinate_molecules=len(blocks)))
    for violation in found:
        if any(v['key'] == violation['key'] for v in col.violations):
            # already reported from a library-level case; the command-line reproduction is kept as evidence
            confirmed.append(dict(key=violation['key'], input=inp, observed=violation['observed'],
                                  expected=violation['expected']))
        col.violation(violation['key'], violation['function'], violation['what'], violation['input'],
                      violation['observed'], violation['expected'])


def compare_files(files, bad, chains_differ=False):
    """the clauses that can be decided from out.pdb, out.top and the .itp files alone."""
    blocks = read_pdb(files['out.pdb'])
    includes, molecules, problems = read_top(files['out.top'])
    if problems:
        bad('top/molecules-syntax', 'write_gmx_topology', 'unreadable line in [ molecules ]', problems, 'name count')
        return
    expanded = [name for name, count in molecules for _ in range(count)]
    if len(expanded) != len(blocks) or any(count < 1 for _, count in molecules):
        bad('top/molecule-count', 'write_gmx_topology',
            '[ molecules ] describes a different number of molecules than the coordinate file holds',
            dict(molecules=molecules, total=len(expanded)), dict(coordinate_molecules=len(blocks)))
        return
    itp_includes = [inc for inc in includes if inc != 'martini.itp']
    for name in dict.fromkeys(expanded):
        times = itp_includes.count(name + '.itp')
        if times == 0:
            bad('top/include-missing', 'write_gmx_topology', 'the file of a listed molecule type is never included',
                dict(includes=includes, moltype=name), 'exactly one #include "%s.itp"' % name)
        elif times > 1:
            bad('top/include-once', 'write_gmx_topology',
                'the file of a molecule type is included %d times (grompp: moleculetype redefined)' % times,
                dict(includes=includes, molecules=molecules), 'exactly one #include "%s.itp"' % name)
    seen = set()
    for block, name in zip(blocks, expanded):
        is_first = name not in seen
        seen.add(name)
        found = read_itp(files.get(name + '.itp', ''))
        if len(found) != 1 or found[0]['name'] != name:
            if is_first:
                bad('itp/file-per-type', 'write_gmx_topology',
                    'the file of a molecule type does not define exactly that one molecule type',
                    [t['name'] for t in found], [name])
            continue
        rows = [atom_row(tokens) for tokens in found[0]['atoms']]
        if None in rows:
            continue
        pdb_ident = [(canon(r['name']), canon(r['resname']), canon(r['resid'])) for r in block]
        itp_ident = [(r[1][3], r[1][2], r[1][1]) for r in rows]
        if pdb_ident != itp_ident:
            # the beads the command line maps to carry no atom ids
            key = ('coord-vs-itp/first/atom-identity' if is_first
                   else 'coord-vs-itp/shared/atom-order[tied-or-missing-atomids,chains-ordered-differently]' if chains_differ
                   else 'coord-vs-itp/shared/atom-identity[tied-or-missing-atomids]')
            bad(key, 'write_molecule_itp' if is_first else 'NameMolType._name_with_deduplication',
                'the k-th coordinate record of a molecule is not the k-th atom of its molecule type '
                '(atom name, residue name, residue number)',
                dict(moltype=name, coordinate_records=[[w for _, w in ident] for ident in pdb_ident]),
                dict(moltype=name, itp_atoms=[[w for _, w in ident] for ident in itp_ident]))


def gro_observation(mols, files):
    """write_gro is not one of the writers the command line uses and it walks the nodes in storage order; whether
    its records line up with the molecule types is recorded as an observation, never as a violation."""
    if 'system.gro' not in files or 'system.top' not in files:
        return None
    lines = files['system.gro'].split('\n')
    try:
        records = [(ln[10:15].strip(), ln[5:10].strip(), ln[0:5].strip()) for ln in lines[2:2 + int(lines[1])]]
    except (ValueError, IndexError):
        return None
    _, molecules, _ = read_top(files['system.top'])
    expected = []
    for name, count in molecules:
        found = read_itp(files.get(name + '.itp', ''))
        if len(found) != 1:
            return None
        expected += [(row[4], row[3], row[2]) for row in found[0]['atoms'] if len(row) >= 5] * count
    if [tuple(canon(w) for w in r) for r in records] != [tuple(canon(w) for w in r) for r in expected]:
        return dict(gro_records=records, itp_atoms=expected)
    return None


def _variants(mols):
    """smaller systems, most aggressive first."""
    for i in range(len(mols)):
        if len(mols) > 1:
            yield mols[:i] + mols[i + 1:]
    most_nodes = max(len(m['nodes']) for m in mols)
    for o in range(most_nodes):  # the o-th atom, in every molecule at once (keeps copies identical) ...
        yield [_without_node(m, o) for m in mols]
    for k in range(max(len(m['inter']) for m in mols)):
        yield [dict(m, inter=m['inter'][:k] + m['inter'][k + 1:]) for m in mols]
    for k in range(max(len(m['edges']) for m in mols)):
        yield [dict(m, edges=m['edges'][:k] + m['edges'][k + 1:]) for m in mols]
    for i, m in enumerate(mols):  # ... then in one molecule only
        for o in range(len(m['nodes'])):
            yield mols[:i] + [_without_node(m, o)] + mols[i + 1:]
        for k in range(len(m['inter'])):
            yield mols[:i] + [dict(m, inter=m['inter'][:k] + m['inter'][k + 1:])] + mols[i + 1:]
        for k in range(len(m['edges'])):
            yield mols[:i] + [dict(m, edges=m['edges'][:k] + m['edges'][k + 1:])] + mols[i + 1:]
    if any('mass' in nd for m in mols for nd in m['nodes']):
        yield [dict(m, nodes=[{f: v for f, v in nd.items() if f != 'mass'} for nd in m['nodes']]) for m in mols]


def _without_node(mol, ordinal):
    if ordinal >= len(mol['nodes']) or len(mol['nodes']) == 1:
        return mol
    gone = mol['nodes'][ordinal]['key']
    return dict(mol, nodes=mol['nodes'][:ordinal] + mol['nodes'][ordinal + 1:],
                edges=[e for e in mol['edges'] if gone not in e],
                inter=[it for it in mol['inter'] if gone not in it[1]])


def shrink(violation, dedup, sort, workdir, max_runs=250):
    """greedy reduction of the system while the same violation key is still reported."""
    key = violation['key']
    mols = violation['input']['molecules']
    runs = 0
    progress = True
    while progress and runs < max_runs:
        progress = False
        for candidate in _variants(mols):
            if candidate == mols or not all(sortable(m) for m in candidate) and sort:
                continue
            runs += 1
            _, _, found = evaluate(candidate, dedup, sort, workdir)
            same = [v for v in found if v['key'] == key]
            if same:
                mols, violation, progress = candidate, same[0], True
                break
            if runs >= max_runs:
                break
    return violation


def check_system(col, mols, dedup, sort, workdir, tag, gro=False):
    """one system: real code, oracle, bookkeeping. Returns the observation on the GRO writer, if any."""
    names, files, found = evaluate(mols, dedup, sort, workdir, gro)
    fingerprint = json.dumps([mols, dedup, sort], sort_keys=True)
    if names is None:
        col.case(('crash', fingerprint), False)
    else:
        shared = len(set(names)) < len(names)
        scrambled = any(not atomids_unique(m) or [n['atomid'] for n in m['nodes']] != sorted(n['atomid'] for n in m['nodes'])
                        for m in mols)
        col.case((fingerprint,), len(mols) > 1 and (shared or scrambled),
                 dict(molecules=mols, deduplicate=dedup, sort_atoms=sort, names=names, top=files.get('system.top'),
                      shape=tag))
    known = {v['key'] for v in col.violations}
    for violation in found:
        if violation['key'] in known:
            continue
        known.add(violation['key'])
        violation = shrink(violation, dedup, sort, workdir)
        col.violation(violation['key'], violation['function'], violation['what'], violation['input'],
                      violation['observed'], violation['expected'])
    if gro and names is not None and not found:
        return gro_observation(mols, files)
    return None


# --------------------------------------------------------------------------------------------------------------
# generation
# --------------------------------------------------------------------------------------------------------------
def node(key, atomname, resname, resid, atype, cgnr, charge, chain='A', mass=None, atomid=None):
    out = dict(key=key, atomname=atomname, resname=resname, resid=resid, atype=atype, cgnr=cgnr, charge=charge,
               chain=chain)
    if mass is not None:
        out['mass'] = mass
    if atomid is not None:
        out['atomid'] = atomid
    return out


def template(kind):
    """the molecule shapes of the exhaustive scope."""
    if kind in ('A', 'A2', 'A3', 'A4'):
        ids = {'A': (1, 2, 3), 'A2': (1, 2, 3), 'A3': (3, 1, 2), 'A4': (1, 2, 3)}[kind]
        mol = dict(nrexcl=1,
                   nodes=[node(0, 'BB', 'GLY', 1, 'P2', 1, 0.0, atomid=ids[0]),
                          node(1, 'BB', 'LYS', 2, 'P2', 2, 0.0, atomid=ids[1]),
                          node(2, 'SC1', 'LYS', 2, 'Q1', 3, 1.0, atomid=ids[2])],
                   edges=[[0, 1], [1, 2]],
                   inter=[['bonds', [0, 1], ['1', '0.350', '4000'], {}],
                          ['bonds', [1, 2], ['1', '0.360' if kind == 'A2' else '0.330', '5000'], {}],
                          ['angles', [0, 1, 2], ['2', '100', '25'], {'group': 'BBS'}]])
        if kind == 'A4':
            mol['nodes'][2]['atomname'] = 'SC2'
        return mol
    if kind == 'B':  # sparse, unordered keys; atom ids with a gap, decreasing along the insertion order
        return dict(nrexcl=3,
                    nodes=[node(7, 'W1', 'WAT', 9999, 'P4', 1, 0, mass=72.0, atomid=20),
                           node(3, 'W2', 'WAT', 9999, 'P4', 1, 0, mass=36.0, atomid=10)],
                    edges=[[7, 3]],
                    inter=[['constraints', [7, 3], ['1', '0.25'], {'ifdef': 'FLEXIBLE'}]])
    if kind == 'C':  # no atom ids at all (what the mapped CG molecules of the command line look like)
        return dict(nrexcl=1,
                    nodes=[node(0, 'BB', 'TRP', 5, 'P2', 1, 0.0),
                           node(1, 'SC1', 'TRP', 5, 'C3', 2, 0.0),
                           node(2, 'SC2', 'TRP', 5, 'C4', 3, 0.0),
                           node(3, 'SC3', 'TRP', 5, 'C5', 4, 0.0)],
                    edges=[[0, 1], [1, 2], [1, 3], [2, 3]],
                    inter=[['bonds', [0, 1], ['1', '0.3', '5000'], {}],
                           ['constraints', [1, 2], ['1', '0.27'], {}],
                           ['dihedrals', [0, 1, 2, 3], ['1', '0', '5', '1'], {'ifndef': 'NODIH'}],
                           ['impropers', [0, 2, 3, 1], ['2', '0', '50'], {'comment': 'keep flat'}]])
    raise KeyError(kind)


def instantiate(mol, mol_idx, chains=None):
    """a fresh copy for position `mol_idx` of a system; chain label per molecule unless the template mixes chains."""
    out = json.loads(json.dumps(mol))
    for ordinal, nd in enumerate(out['nodes']):
        if chains is not None:
            nd['chain'] = chains[ordinal % len(chains)]
        elif not out.get('_keep_chains'):
            nd['chain'] = 'ABCDEFGH'[mol_idx % 8]
    out.pop('_keep_chains', None)
    return out


ATOMNAMES = ['BB', 'SC1', 'SC2', 'SC3', 'CA', 'N']
RESNAMES = ['GLY', 'LYS', 'TRP', 'A']
ATYPES = ['P2', 'Q1', 'C3', 'TN4a']


def random_molecule(rng):
    n = rng.randint(1, 6)
    keys = rng.sample(range(0, 12), n)
    if rng.random() < 0.4:
        keys.sort()
    scheme = rng.choice(['ordered', 'permuted', 'gaps', 'ties', 'none', 'none', 'some-missing'])
    if scheme == 'ordered':
        ids = list(range(1, n + 1))
    elif scheme == 'permuted':
        ids = rng.sample(range(1, n + 1), n)
    elif scheme == 'gaps':
        ids = rng.sample(range(-3, 60), n)
    elif scheme == 'ties':
        ids = [rng.randint(1, max(1, n - 1)) for _ in range(n)]
    elif scheme == 'none':
        ids = [None] * n
    else:
        ids = [rng.choice([None, i + 1]) for i in range(n)]
    mixed_chain = rng.random() < 0.35
    resid = rng.choice([-5, 1, 1, 1, 40, 9997])
    nodes = []
    for i in range(n):
        if i and rng.random() < 0.4:
            resid = min(9999, resid + rng.choice([1, 1, 1, -1, 2]))  # 4 columns in a coordinate record
        nodes.append(node(keys[i], rng.choice(ATOMNAMES), rng.choice(RESNAMES), resid, rng.choice(ATYPES),
                          rng.randint(1, 3), rng.choice([0, 0.0, 1.0, -1.0, 0.5]),
                          chain=rng.choice('AB') if mixed_chain else 'A',
                          mass=rng.choice([None, None, 72.0, 36]), atomid=ids[i]))
    edges, inter = [], []
    for _ in range(rng.randint(0, n + 1)):
        type_ = rng.choice(['bonds', 'bonds', 'constraints', 'angles', 'dihedrals', 'impropers', 'pairs'])
        arity = 4 if type_ == 'impropers' else ARITY[type_]
        if arity > n:
            continue
        atoms = rng.sample(keys, arity)
        params = [rng.choice(['1', '2', 1, 2])] + [rng.choice(['0.35', '0.47', '120', 0.27, 25, '5000', 1.5e3])
                                                    for _ in range(rng.randint(0, 3))]
        meta = rng.choice([{}, {}, {}, {'ifdef': 'FLEXIBLE'}, {'ifndef': 'NO_X'}, {'group': 'grp'},
                           {'comment': 'note'}, {'ifdef': 'FLEXIBLE', 'group': 'grp'}])
        inter.append([type_, atoms, params, dict(meta)])
        if arity == 2:
            edges.append(atoms[:])
    return dict(nrexcl=rng.choice([1, 1, 3]), nodes=nodes, edges=edges, inter=inter, _keep_chains=mixed_chain)


def perturb(rng, mol):
    """a copy of `mol` with exactly one small change. -> (copy, what changed)"""
    out = json.loads(json.dumps(mol))
    n = len(out['nodes'])
    choices = ['attr', 'attr', 'attr', 'nrexcl', 'chainpattern', 'chainpattern', 'mass', 'edge']
    if n > 1:
        choices += ['atomid-swap', 'atomid-swap', 'atomid-swap', 'node-order', 'atomid-shift']
    if out['inter']:
        choices += ['param', 'param', 'inter-atoms', 'inter-meta', 'inter-drop', 'inter-type', 'inter-order']
    what = rng.choice(choices)
    if what == 'attr':
        nd = rng.choice(out['nodes'])
        field = rng.choice(['atomname', 'resname', 'resid', 'atype', 'cgnr', 'charge'])
        pools = dict(atomname=ATOMNAMES, resname=RESNAMES, atype=ATYPES, cgnr=[1, 2, 3, 4], charge=[0.0, 1.0, -1.0, 0.5, 2.0],
                     resid=[min(9999, nd['resid'] + 1), nd['resid'] - 1, 77])
        new = rng.choice([v for v in pools[field] if canon(v) != canon(nd[field])])
        nd[field] = new
        what = 'attr:' + field
    elif what == 'nrexcl':
        out['nrexcl'] = 2 if out['nrexcl'] != 2 else 1
    elif what == 'chainpattern':
        for nd in out['nodes']:
            nd['chain'] = rng.choice('ABC')
        out['_keep_chains'] = True
    elif what == 'mass':
        nd = rng.choice(out['nodes'])
        if 'mass' in nd:
            nd['mass'] = nd['mass'] + 1.0
        else:
            nd['mass'] = 48.0
    elif what == 'edge':
        if out['edges'] and rng.random() < 0.5:
            out['edges'].pop(rng.randrange(len(out['edges'])))
        elif n > 1:
            a, b = rng.sample([nd['key'] for nd in out['nodes']], 2)
            out['edges'].append([a, b])
    elif what == 'atomid-swap':
        a, b = rng.sample(range(n), 2)
        ia, ib = out['nodes'][a].pop('atomid', None), out['nodes'][b].pop('atomid', None)
        if ia is None and ib is None:
            ia, ib = 2, 1
            for k, nd in enumerate(out['nodes']):
                nd['atomid'] = 10 + k
        for pos, val in ((a, ib), (b, ia)):
            if val is not None:
                out['nodes'][pos]['atomid'] = val
    elif what == 'atomid-shift':
        for nd in out['nodes']:
            if 'atomid' in nd:
                nd['atomid'] += 100
    elif what == 'node-order':
        a, b = rng.sample(range(n), 2)
        out['nodes'][a], out['nodes'][b] = out['nodes'][b], out['nodes'][a]
    else:
        k = rng.randrange(len(out['inter']))
        item = out['inter'][k]
        if what == 'param':
            p = rng.randrange(len(item[2]))
            item[2][p] = '0.99' if canon(item[2][p]) != canon('0.99') else '0.98'
        elif what == 'inter-atoms':
            if len(item[1]) > 1:
                item[1] = item[1][1:] + item[1][:1]
        elif what == 'inter-meta':
            item[3] = {'ifdef': 'OTHER'} if item[3].get('ifdef') != 'OTHER' else {}
        elif what == 'inter-drop':
            out['inter'].pop(k)
        elif what == 'inter-type':
            swap = {'bonds': 'constraints', 'constraints': 'bonds', 'pairs': 'bonds', 'dihedrals': 'impropers',
                    'impropers': 'dihedrals', 'angles': 'angles'}
            item[0] = swap[item[0]]
        elif what == 'inter-order':
            rng.shuffle(out['inter'])
    return out, what


def sortable(mol):
    """SortMoleculeAtoms compares (chain, resid, resname, insertion code, atomid) lists: a missing atom id next to a
    present one in the same residue is outside what it accepts (None < int). Such molecules only go unsorted."""
    ids = [nd.get('atomid') for nd in mol['nodes']]
    return None not in ids or all(i is None for i in ids)


def random_system(rng):
    pool = [random_molecule(rng) for _ in range(rng.randint(1, 3))]
    mols, recipe = [], []
    for mol_idx in range(rng.randint(2, 6)):
        roll = rng.random()
        if mols and roll < 0.45:
            src = rng.randrange(len(mols))
            new = json.loads(json.dumps(mols[src]))
            new['_keep_chains'] = len({nd['chain'] for nd in new['nodes']}) > 1
            recipe.append('copy%d' % src)
        elif mols and roll < 0.8:
            src = rng.randrange(len(mols))
            base = json.loads(json.dumps(mols[src]))
            base['_keep_chains'] = len({nd['chain'] for nd in base['nodes']}) > 1
            new, what = perturb(rng, base)
            recipe.append('%s(%d)' % (what, src))
        else:
            new = json.loads(json.dumps(rng.choice(pool)))
            recipe.append('new')
        mols.append(instantiate(new, mol_idx))
    return mols, '+'.join(recipe)


def bounded(tier, seed):
    logging.disable(logging.CRITICAL)
    rng = random.Random(seed)
    quick = tier != 'thorough'
    kinds = ['A', 'A2', 'A3', 'A4', 'B', 'C']
    max_len = 3 if quick else 5
    col = Collector('real NameMolType -> (SortMoleculeAtoms) -> write_gmx_topology + write_pdb into a temp dir; .pdb/.top/.itp '
                    'read back by independent readers; atoms tied to the input by unique coordinates. exhaustive: every '
                    'sequence of <= %d molecules over 6 shapes (chain A; A with another bond length; A with permuted atom '
                    'ids; A with another atom name; 2-bead with sparse keys and decreasing ids; 4-bead without ids) x '
                    'dedup on/off x atom sorting on/off; then seeded random systems of 2-6 molecules built from copies '
                    'and one-change variants (attribute, parameter, atom-id swap, node order, chain pattern, ...). '
                    'non-trivial = > 1 molecule and (a shared name or out-of-order/tied/missing atom ids)' % max_len,
                    max_violations=50)
    root = tempfile.mkdtemp(prefix='verif_c03_')
    workdir = os.path.join(root, 'w')
    os.mkdir(workdir)
    t0 = time.time()
    budget = 45 if quick else 780
    n_gro, gro_note = 0, None
    cli_notes, cli_confirmed, running = [], [], []
    try:
        # the command line itself, end to end, in the background while the library-level cases run
        for number, (chains, extra) in enumerate(CLI_CASES if quick else CLI_CASES + CLI_CASES_MORE):
            running.append(start_cli(root, number, chains, extra) + (chains, extra))
        templates = {k: template(k) for k in kinds}
        n_seq = 0
        for length in range(1, max_len + 1):
            for seq in itertools.product(kinds, repeat=length):
                n_seq += 1
                for dedup, sort in itertools.product((True, False), repeat=2):
                    mols = [instantiate(templates[k], i) for i, k in enumerate(seq)]
                    check_system(col, mols, dedup, sort, workdir, ' '.join(seq))
        col.exhaustive = True
        col.bound = ('%d sequences (length <= %d over 6 molecule shapes) x deduplicate {on, off} x atom sorting {on, off}'
                     % (n_seq, max_len))
        n_rand = 1500 if quick else 30000
        for _ in range(n_rand):
            if time.time() - t0 > budget:
                break
            mols, recipe = random_system(rng)
            dedup = rng.random() < 0.8
            sort = rng.random() < 0.7
            if sort and not all(sortable(m) for m in mols):
                sort = False
            seen = check_system(col, mols, dedup, sort, workdir, recipe, gro=True)
            if seen is not None:
                n_gro += 1
                if gro_note is None:
                    gro_note = dict(input=dict(molecules=mols, deduplicate=dedup, sort_atoms=sort), **seen)
        while running:
            finish_cli(col, *running.pop(0), cli_notes, cli_confirmed)
    finally:
        for proc, log, *_ in running:
            proc.kill()
            proc.wait()
            log.close()
        logging.disable(logging.NOTSET)
        shutil.rmtree(root, ignore_errors=True)
    result = col.result()
    # write_gro (library API, not used by the command line) walks nodes in storage order instead of atom-id order;
    # systems whose .pdb/.top/.itp agree but whose .gro would not are counted here as an observation only.
    result['observations'] = dict(gro_records_not_in_itp_order=n_gro, first=gro_note, command_line_not_evaluated=cli_notes,
                                  command_line_reproductions=cli_confirmed,
                                  library_level_order='sort, name' if sort_comes_first() else 'name, sort')
    return result


def replay_model(function, model):
    """counter-model of a failed obligation -> native run. The models of the C03 contracts are abstract sequences of
    molecule type names ({'names': [...]}) or lists of molecule descriptions ({'molecules': [...]})."""
    try:
        if isinstance(model, dict) and isinstance(model.get('molecules'), list) and model['molecules'] \
                and isinstance(model['molecules'][0], dict) and 'nodes' in model['molecules'][0]:
            mols = [instantiate(m, i) for i, m in enumerate(model['molecules'])]
        elif isinstance(model, dict) and isinstance(model.get('names'), list) and model['names']:
            shapes = {}
            pool = ['A', 'B', 'C', 'A2', 'A3', 'A4']
            for name in model['names']:
                if name not in shapes:
                    if len(shapes) >= len(pool):
                        return None
                    shapes[name] = pool[len(shapes)]
            mols = [instantiate(template(shapes[name]), i) for i, name in enumerate(model['names'])]
        else:
            return None
    except (KeyError, TypeError, ValueError):
        return None
    logging.disable(logging.CRITICAL)
    col = Collector('replay', max_violations=50)
    root = tempfile.mkdtemp(prefix='verif_c03_')
    try:
        check_system(col, mols, bool(model.get('deduplicate', True)), bool(model.get('sort_atoms', True)), root, 'replay')
    finally:
        logging.disable(logging.NOTSET)
        shutil.rmtree(root, ignore_errors=True)
    for violation in col.violations:
        if function is None or not violation['function'] or violation['function'].split('.')[-1] in str(function):
            return dict(violation, what='replayed counter-model: ' + violation['what'])
    return None

"""C04 bounded stand-in: the real RepairGraph runs natively on scrambled / truncated / decorated presentations of
shipped blocks; the result is judged by an oracle written from the property statement (no /repo code inside it).

A *case* is one molecule: a list of residue presentations.  A presentation of a residue says which block it is,
which block atoms are present and in which order, under which names, which extra atoms hang on it, and which
mutation / modification is requested.  The oracle knows the reference graph (block, block patched with the
modification, or the mutation target) only as "names + elements + set of bonds" and evaluates the clauses of the
statement on the molecule that comes back:

  names-unique, name-canonical, element-preserving, bond-preserving (+induced), complete, readded-bonds,
  largest-match (unrecognised atoms = |input| - size of a maximum common induced subgraph, computed independently
  as a maximum clique of the modular product, or pinned by counting arguments), and frame conditions (atoms of
  other residues untouched, existing bonds untouched, nothing removed unless a request was made).
"""
import itertools
import logging
import random
import signal
import time
import traceback

import networkx as nx

from .common import Collector, REPO, load_cli  # noqa: F401  (REPO / load_cli: part of the layer interface)

FFS = ('charmm', 'amber', 'gromos')
RUN = 'RepairGraph.run_molecule'
CASE_TIMEOUT = 20
ORACLE_TIMEOUT = 5


# ---------------------------------------------------------------------------------------------------------------
# reference data, read off the loaded force field as plain data (names, elements, bonds)
# ---------------------------------------------------------------------------------------------------------------
class _Timeout(Exception):
    pass


def _alarm(_sig, _frm):
    raise _Timeout()


class time_limit:
    """limit on the CPU time of the enclosed block (SIGPROF, so that a loaded machine does not turn slow cases into
    timeouts); silently unlimited when not in the main thread."""

    def __init__(self, seconds):
        self.seconds = seconds
        self.armed = False

    def __enter__(self):
        try:
            self.old = signal.signal(signal.SIGPROF, _alarm)
            signal.setitimer(signal.ITIMER_PROF, self.seconds)
            self.armed = True
        except ValueError:
            self.armed = False
        return self

    def __exit__(self, *exc):
        if self.armed:
            signal.setitimer(signal.ITIMER_PROF, 0)
            signal.signal(signal.SIGPROF, self.old)
        return False


def elem_of_name(name):
    """documented rule for blocks without element: first alphabetic character of the atom name."""
    for ch in name:
        if ch.isalpha():
            return ch
    return None


class Ref:
    """a reference residue as the statement sees it: canonical names, their elements, the bonds between them."""

    def __init__(self, names, elements, bonds):
        self.names = list(names)
        self.elements = dict(elements)
        self.bond_list = []
        self.bonds = set()
        for b in bonds:
            b = tuple(b)
            if frozenset(b) not in self.bonds:
                self.bonds.add(frozenset(b))
                self.bond_list.append(b)
        self.adj = {n: set() for n in self.names}
        for a, c in self.bond_list:
            self.adj[a].add(c)
            self.adj[c].add(a)

    def connected(self):
        if not self.names:
            return False
        seen = {self.names[0]}
        todo = [self.names[0]]
        while todo:
            n = todo.pop()
            for m in self.adj[n]:
                if m not in seen:
                    seen.add(m)
                    todo.append(m)
        return len(seen) == len(self.names)


_FF_CACHE = {}
_REF_CACHE = {}


def get_ff(name):
    if name not in _FF_CACHE:
        from vermouth.forcefield import get_native_force_field
        _FF_CACHE[name] = get_native_force_field(name)
    return _FF_CACHE[name]


def block_ref(ffname, resname):
    """Ref of a shipped block, or None when the block is outside the scope (unnamed / repeated names / self loops)."""
    key = (ffname, resname)
    if key in _REF_CACHE:
        return _REF_CACHE[key]
    block = get_ff(ffname).blocks[resname]
    names, elements, ok = [], {}, True
    by_key = {}
    for k, d in block.nodes(data=True):
        n = d.get('atomname')
        e = d.get('element') or (elem_of_name(n) if isinstance(n, str) else None)
        if not isinstance(n, str) or n in elements or e is None:
            ok = False
            break
        names.append(n)
        elements[n] = e
        by_key[k] = n
    ref = None
    if ok:
        bonds = [(by_key[a], by_key[b]) for a, b in block.edges if a != b]
        if len(bonds) == block.number_of_edges():
            ref = Ref(names, elements, bonds)
    _REF_CACHE[key] = ref
    return ref


def patched_ref(ffname, resname, modnames):
    """block + requested modifications as the statement describes them: the anchor atoms of the modification are the
    block atoms with the same names, the other atoms are added with the bonds the modification lists.
    None = the request is not meaningful for this block (unspecified, excluded)."""
    ref = block_ref(ffname, resname)
    if ref is None:
        return None
    names, elements, bonds = list(ref.names), dict(ref.elements), list(ref.bond_list)
    ff = get_ff(ffname)
    for modname in modnames:
        if modname == 'none':
            continue
        mod = ff.modifications[modname]
        nm = {k: d.get('atomname') for k, d in mod.nodes(data=True)}
        anchors = {k for k, d in mod.nodes(data=True) if not d.get('PTM_atom')}
        if not anchors or any(nm[k] not in elements for k in anchors):
            return None
        # a modification that names the residue it is meant for is only requested on that residue
        if any(d.get('resname', resname) != resname for _k, d in mod.nodes(data=True)):
            return None
        if len({nm[k] for k in mod}) != len(mod):
            return None
        new = [k for k in mod if k not in anchors]
        if any(nm[k] in elements for k in new):
            return None
        # the anchor must sit on the block exactly (same bonds among the anchor atoms)
        for a, b in itertools.combinations(sorted(anchors, key=str), 2):
            if mod.has_edge(a, b) != (frozenset((nm[a], nm[b])) in ref.bonds):
                return None
        for k in new:
            d = mod.nodes[k]
            e = d.get('element') or elem_of_name(nm[k])
            names.append(nm[k])
            elements[nm[k]] = e
        for a, b in mod.edges:
            if a in anchors and b in anchors:
                continue
            bonds.append((nm[a], nm[b]))
        ref = Ref(names, elements, bonds)
    return ref


# ---------------------------------------------------------------------------------------------------------------
# independent maximum common induced subgraph (element preserving): maximum clique of the modular product
# ---------------------------------------------------------------------------------------------------------------
def mcis_size(nodes1, elem1, edges1, nodes2, elem2, edges2):
    prod = nx.Graph()
    pairs = [(u, a) for u in nodes1 for a in nodes2 if elem1[u] == elem2[a]]
    prod.add_nodes_from(pairs)
    for (u, a), (v, b) in itertools.combinations(pairs, 2):
        if u == v or a == b:
            continue
        if (frozenset((u, v)) in edges1) == (frozenset((a, b)) in edges2):
            prod.add_edge((u, a), (v, b))
    if not pairs:
        return 0
    _clique, size = nx.max_weight_clique(prod, weight=None)
    return size


# ---------------------------------------------------------------------------------------------------------------
# case construction
# ---------------------------------------------------------------------------------------------------------------
def make_presentation(block, keep, names=None, extras=(), mutation=None, modification=None):
    """keep: canonical names of the atoms present, in presentation order (names of the graph the atoms are cut from:
    the block itself, or the patched block when a modification is requested).
    names: canonical name -> presented name (None = no name); default canonical.
    extras: (element, presented name, attached to canonical name or index of an earlier extra)."""
    return dict(block=block, keep=list(keep), names=dict(names or {}), extras=[list(e) for e in extras],
                mutation=mutation, modification=list(modification) if modification else None)


def build_case(ffname, presentations, keys='range', link=True):
    return dict(ff=ffname, residues=presentations, keys=keys, link=link)


def layout_keys(n, keys, rng_seed):
    if keys == 'range':
        return list(range(n))
    if keys == 'offset':
        return list(range(100, 100 + n))
    if keys == 'gapped':
        return [3 * i + 2 for i in range(n)]
    if keys == 'reversed':
        return list(range(n - 1, -1, -1))
    if keys == 'shuffled':
        ks = [5 * i + 1 for i in range(n)]
        random.Random(rng_seed).shuffle(ks)
        return ks
    raise ValueError(keys)


def realise(case):
    """case -> (Molecule, per-residue oracle view).  Pure construction, no /repo logic apart from the Molecule class."""
    from vermouth.molecule import Molecule
    ffname = case['ff']
    ff = get_ff(ffname)
    total = sum(len(p['keep']) + len(p['extras']) for p in case['residues'])
    keys = layout_keys(total, case['keys'], total)
    mol = Molecule(force_field=ff)
    views = []
    cursor = 0
    prev_last = None
    for ridx, p in enumerate(case['residues']):
        resid = 3 + 2 * ridx
        src = patched_ref(ffname, p['block'], p['modification']) if p['modification'] else block_ref(ffname, p['block'])
        if src is None:
            return None, None
        if p['mutation']:
            target = (patched_ref(ffname, p['mutation'], p['modification']) if p['modification']
                      else block_ref(ffname, p['mutation']))
            # the atoms are cut from the *original* block, the reference is the mutation target
            src = block_ref(ffname, p['block'])
            if target is None or src is None:
                return None, None
        else:
            target = src
        atoms = {}      # key -> (element, presented name, canonical identity or None)
        key_of = {}
        order = []
        for cname in p['keep']:
            k = keys[cursor]
            cursor += 1
            shown = p['names'].get(cname, cname) if cname in p['names'] else cname
            atoms[k] = (src.elements[cname], shown, cname)
            key_of[cname] = k
            order.append(k)
        extra_keys = []
        edges = set()
        edge_list = []
        for a, c in src.bond_list:
            if a in key_of and c in key_of:
                edge_list.append((key_of[a], key_of[c]))
        for el, shown, at in p['extras']:
            k = keys[cursor]
            cursor += 1
            atoms[k] = (el, shown, None)
            order.append(k)
            anchor = key_of.get(at) if isinstance(at, str) else extra_keys[at]
            if anchor is not None:
                edge_list.append((anchor, k))
            extra_keys.append(k)
        # bonds are listed the way a reader would list them: by the position of the atoms in the presentation
        pos = {k: i for i, k in enumerate(order)}
        edge_list = sorted({(min(pos[a], pos[c]), max(pos[a], pos[c])) for a, c in edge_list})
        edge_list = [(order[i], order[j]) for i, j in edge_list]
        edges = {frozenset(e) for e in edge_list}
        for k in order:
            el, shown, _ = atoms[k]
            attrs = dict(element=el, resname=p['block'], resid=resid, chain='A', atomid=k + 1)
            if shown is not None:
                attrs['atomname'] = shown
            elif pos[k] % 2:
                attrs['atomname'] = None    # every other nameless atom has no atomname attribute at all
            if p['mutation']:
                attrs['mutation'] = [p['mutation']]
            if p['modification']:
                attrs['modification'] = list(p['modification'])
            mol.add_node(k, **attrs)
        for a, c in edge_list:
            mol.add_edge(a, c)
        inter = None
        if case['link'] and prev_last is not None and order:
            mol.add_edge(prev_last, order[0])
            inter = frozenset((prev_last, order[0]))
        if order:
            prev_last = order[-1]
        views.append(dict(resid=resid, chain='A', ref=target, src=src, atoms=atoms, edges=edges, inter=inter,
                          request=bool(p['mutation'] or p['modification']), mutation=p['mutation'],
                          resname=p['mutation'] or p['block'], order=order))
    return mol, views


# ---------------------------------------------------------------------------------------------------------------
# the oracle
# ---------------------------------------------------------------------------------------------------------------
def expected_match_size(view, stats):
    """(lower bound, exact or None) of the number of recognised atoms = size of a largest element- and
    bond-preserving (induced) match between the presented residue and its reference."""
    ref = view['ref']
    atoms = view['atoms']
    count_in, count_ref = {}, {}
    for el, _n, _c in atoms.values():
        count_in[el] = count_in.get(el, 0) + 1
    for n in ref.names:
        count_ref[ref.elements[n]] = count_ref.get(ref.elements[n], 0) + 1
    upper = sum(min(c, count_ref.get(el, 0)) for el, c in count_in.items())
    lower = 0
    if not view['mutation']:
        # the atoms cut from the reference itself are an induced, element preserving match by construction
        lower = sum(1 for _e, _n, c in atoms.values() if c is not None)
    if lower == upper:
        return lower, lower
    size = None
    if len(atoms) * len(ref.names) <= 900:
        try:
            with time_limit(ORACLE_TIMEOUT):
                size = mcis_size(list(atoms), {k: v[0] for k, v in atoms.items()}, view['edges'],
                                 ref.names, ref.elements, ref.bonds)
        except _Timeout:
            stats['oracle_timeouts'] += 1
            size = None
    else:
        stats['oracle_skipped'] += 1
    if size is not None:
        return size, size
    return lower, None


def judge(col, case, views, out, stats):
    """evaluate the clauses of the statement on the repaired molecule `out`."""
    desc = describe(case)
    all_input = {}
    for v in views:
        for k in v['atoms']:
            all_input[k] = v
    by_res = {}
    for k, d in out.nodes(data=True):
        by_res.setdefault((d.get('chain'), d.get('resid')), []).append(k)
    known = {(v['chain'], v['resid']) for v in views}
    for rk, ks in by_res.items():
        if rk not in known:
            col.violation('repair_residue/stray-atom', 'repair_residue', 'an atom of the result belongs to no residue of the input',
                          desc, dict(residue=str(rk), atoms=[str(out.nodes[k].get('atomname')) for k in ks]), 'none')
    for v in views:
        ref = v['ref']
        mine = by_res.get((v['chain'], v['resid']), [])
        tag = dict(residue=v['resname'], resid=v['resid'])
        # --- frame: original atoms stay what and where they are
        survivors, removed, foreign = [], [], []
        for k, (el, _shown, _c) in v['atoms'].items():
            if k not in out:
                removed.append(k)
                continue
            d = out.nodes[k]
            if (d.get('chain'), d.get('resid')) != (v['chain'], v['resid']) or d.get('element') != el:
                foreign.append(k)
            else:
                survivors.append(k)
        if foreign:
            col.violation('repair_graph/frame-original-atom', 'repair_residue',
                          'an atom of the input came back with another element or in another residue (overwritten)',
                          desc, dict(tag, atoms={str(k): dict(element=out.nodes[k].get('element'), resid=out.nodes[k].get('resid'),
                                                              atomname=out.nodes[k].get('atomname')) for k in foreign}),
                          {str(k): dict(element=v['atoms'][k][0], resid=v['resid']) for k in foreign})
        intruders = [k for k in mine if k in all_input and all_input[k] is not v]
        new = [k for k in mine if k not in all_input]
        if removed and not v['request']:
            col.violation('repair_graph/atom-removed', 'repair_graph', 'atoms of the input disappeared although nothing was requested',
                          desc, dict(tag, removed=sorted(map(str, removed))), 'no atom removed')
        if v['request']:
            recognised = list(survivors)
            unrecognised = list(removed)
            flagged_left = []
        else:
            recognised = [k for k in survivors if not out.nodes[k].get('PTM_atom')]
            unrecognised = [k for k in survivors if out.nodes[k].get('PTM_atom')]
            flagged_left = [k for k in new if out.nodes[k].get('PTM_atom')]
        if flagged_left:
            col.violation('repair_graph/readded-marked-unrecognised', 'repair_graph', 're-added atom marked as unrecognised',
                          desc, dict(tag, atoms=[out.nodes[k].get('atomname') for k in flagged_left]), 'not marked')
        name = {k: out.nodes[k].get('atomname') for k in recognised + new}
        # --- names unique
        seen, dup = {}, []
        for k in recognised + new + [k for k in intruders if not out.nodes[k].get('PTM_atom')]:
            n = out.nodes[k].get('atomname')
            if n in seen:
                dup.append(n)
            seen[n] = k
        if dup:
            col.violation('repair_residue/names-unique', 'repair_residue', 'two recognised / re-added atoms of one residue share a name',
                          desc, dict(tag, repeated=sorted(set(map(str, dup)))), 'all names different')
        # --- canonical names
        bad = [k for k in recognised + new if name[k] not in ref.elements]
        if bad:
            col.violation('repair_residue/name-canonical', 'repair_residue', 'a recognised atom carries a name that is not a name of the reference',
                          desc, dict(tag, names=[str(name[k]) for k in bad]), 'names of the reference block')
        good = [k for k in recognised if name[k] in ref.elements]
        # --- element preserving
        wrong_el = [k for k in good if ref.elements[name[k]] != v['atoms'][k][0]]
        if wrong_el:
            col.violation('make_reference/element-preserving', 'make_reference', 'an atom was given the name of a reference atom of another element',
                          desc, dict(tag, atoms={str(name[k]): v['atoms'][k][0] for k in wrong_el}),
                          {str(name[k]): ref.elements[name[k]] for k in wrong_el})
        # --- bond preserving (both directions: the match is an induced one)
        if not dup:
            lost, invented = [], []
            for a, b in itertools.combinations(good, 2):
                in_input = frozenset((a, b)) in v['edges']
                in_ref = frozenset((name[a], name[b])) in ref.bonds
                if in_input and not in_ref:
                    lost.append((name[a], name[b]))
                elif in_ref and not in_input:
                    invented.append((name[a], name[b]))
            if lost:
                col.violation('make_reference/bond-preserving', 'make_reference',
                              'two bonded atoms of the input were given names that are not bonded in the reference',
                              desc, dict(tag, pairs=lost[:5]), 'bonded atoms map to bonded names')
            if invented:
                col.violation('make_reference/bond-preserving-induced', 'make_reference',
                              'two unbonded atoms of the input were given names that are bonded in the reference',
                              desc, dict(tag, pairs=invented[:5]), 'unbonded atoms map to unbonded names')
        # --- existing bonds untouched
        changed = []
        for a, b in itertools.combinations(survivors, 2):
            if out.has_edge(a, b) != (frozenset((a, b)) in v['edges']):
                changed.append((str(a), str(b)))
        if changed:
            col.violation('repair_residue/existing-bonds', 'repair_residue', 'bonds between atoms that were already there changed',
                          desc, dict(tag, pairs=changed[:5]), 'unchanged')
        if v['inter'] is not None:
            a, b = tuple(v['inter'])
            if a in out and b in out and not out.has_edge(a, b):
                col.violation('repair_graph/inter-residue-bond', 'repair_graph', 'bond between two residues disappeared',
                              desc, dict(tag), 'kept')
        # --- complete, bonded as in the reference
        if recognised and ref.connected():
            present = {name[k] for k in recognised + new}
            missing = [n for n in ref.names if n not in present]
            if missing:
                col.violation('repair_residue/complete', 'repair_residue', 'reference atoms are still missing after the repair',
                              desc, dict(tag, missing=missing[:8]), 'every atom of the reference present')
        if not dup and not bad:
            by_name = {name[k]: k for k in recognised + new}
            wrong = []
            for k in new:
                want = {by_name[m] for m in ref.adj[name[k]] if m in by_name}
                got = set(out[k])
                if want != got:
                    wrong.append(dict(atom=name[k], bonded_to=sorted(str(out.nodes[x].get('atomname')) + '/' + str(out.nodes[x].get('resid')) for x in got),
                                      expected=sorted(ref.adj[name[k]])))
            if wrong:
                col.violation('repair_residue/readded-bonds', 'repair_residue', 'a re-added atom is not bonded as in the reference',
                              desc, dict(tag, atoms=wrong[:4]), 'bonds of the reference, nothing else')
        wrong_attr = [name[k] for k in new if name[k] in ref.elements and
                      (out.nodes[k].get('element') != ref.elements[name[k]] or out.nodes[k].get('resname') != v['resname'])]
        if wrong_attr:
            col.violation('repair_residue/readded-attributes', 'repair_residue', 're-added atom with wrong element or residue name',
                          desc, dict(tag, atoms=wrong_attr[:5]), 'element of the reference atom, residue name of the residue')
        # --- largest possible match
        lower, exact = expected_match_size(v, stats)
        n_rec = len(recognised)
        n_in = len(v['atoms'])
        if exact is not None and n_rec != exact and not foreign:
            whole = (exact == n_in == len(ref.names))
            col.violation('make_reference/largest-match', 'make_reference',
                          'the residue is the reference (scrambled) but atoms came back unrecognised' if whole and n_rec < exact else
                          'number of recognised atoms differs from the size of a largest element/bond preserving match',
                          desc, dict(tag, recognised=n_rec, unrecognised=sorted(str(v['atoms'][k][1]) + ':' + v['atoms'][k][0] for k in unrecognised)),
                          dict(recognised=exact, unrecognised=n_in - exact))
        elif exact is None and n_rec < lower and not foreign:
            col.violation('make_reference/largest-match', 'make_reference',
                          'fewer atoms recognised than an evident match provides',
                          desc, dict(tag, recognised=n_rec), dict(recognised_at_least=lower))


def describe(case):
    return dict(force_field=case['ff'], keys=case['keys'], link=case['link'],
                residues=[{k: v for k, v in p.items() if v not in (None, [], {})} for p in case['residues']])


def fingerprint(case):
    return repr((case['ff'], case['keys'], case['link'],
                 [(p['block'], tuple(p['keep']), tuple(sorted((k, str(v)) for k, v in p['names'].items())),
                   tuple(map(tuple, p['extras'])), p['mutation'], tuple(p['modification'] or ())) for p in case['residues']]))


def responsible(tb):
    """innermost /repo function in a traceback."""
    fn = RUN
    for frame in traceback.extract_tb(tb):
        if 'vermouth' in frame.filename and 'bounded' not in frame.filename:
            fn = frame.name
    return fn


def run_case(col, case, stats):
    from vermouth.processors.repair_graph import RepairGraph
    mol, views = realise(case)
    if mol is None:
        stats['excluded'] += 1
        return
    nontrivial = any(p['names'] or p['extras'] or p['mutation'] or p['modification'] or
                     len(p['keep']) != len(views[i]['ref'].names) or
                     p['keep'] != views[i]['ref'].names[:len(p['keep'])]
                     for i, p in enumerate(case['residues'])) or case['keys'] != 'range'
    t0 = time.time()
    try:
        with time_limit(CASE_TIMEOUT):
            out = RepairGraph().run_molecule(mol)
    except _Timeout:
        stats['timeouts'] += 1
        stats['timeout_examples'].append([p['block'] for p in case['residues']])
        return
    except Exception as err:  # pylint: disable=broad-except
        fn = responsible(err.__traceback__)
        col.case(fingerprint(case), nontrivial, dict(case=describe(case), result='raised %s' % type(err).__name__))
        col.violation('%s/raises-%s' % (fn, type(err).__name__), fn, 'the repair raised instead of repairing',
                      describe(case), '%s: %s' % (type(err).__name__, str(err)[:200]), 'a repaired molecule')
        return
    stats['real_time'] += time.time() - t0
    col.case(fingerprint(case), nontrivial,
             dict(case=describe(case), result=[[out.nodes[k].get('atomname'), bool(out.nodes[k].get('PTM_atom'))] for k in list(out)[:12]]))
    judge(col, case, views, out, stats)


# ---------------------------------------------------------------------------------------------------------------
# generators
# ---------------------------------------------------------------------------------------------------------------
def heavy(ref):
    return [n for n in ref.names if ref.elements[n] != 'H']


def scramble_names(ref, keep, rng, how):
    """presented names for the atoms in keep."""
    if how == 'canonical':
        return {}
    if how == 'blank':
        return {n: None for n in keep}
    if how == 'same-element':
        out = {}
        by_el = {}
        for n in keep:
            by_el.setdefault(ref.elements[n], []).append(n)
        for el, ns in by_el.items():
            sh = list(ns)
            rng.shuffle(sh)
            out.update(dict(zip(ns, sh)))
        return out
    if how == 'any':
        sh = list(keep)
        rng.shuffle(sh)
        return dict(zip(keep, sh))
    if how == 'foreign':
        return {n: 'Q%d' % i for i, n in enumerate(rng.sample(list(keep), len(keep)))}
    if how == 'partial':
        out = {}
        for n in keep:
            r = rng.random()
            if r < 0.3:
                out[n] = None
            elif r < 0.5:
                out[n] = rng.choice(ref.names)
        return out
    raise ValueError(how)


NAME_MODES = ('canonical', 'blank', 'same-element', 'any', 'foreign', 'partial')


def order_atoms(keep, rng, how):
    keep = list(keep)
    if how == 'reversed':
        keep.reverse()
    elif how == 'random':
        rng.shuffle(keep)
    return keep


def random_removal(ref, rng, n_remove):
    names = list(ref.names)
    gone = set(rng.sample(names, min(n_remove, len(names) - 1)))
    return [n for n in names if n not in gone]


def random_extras(ref, keep, rng, n_extra):
    extras = []
    for i in range(n_extra):
        el = rng.choice(['H', 'O', 'C', 'P', 'S', 'X'])
        shown = rng.choice(['X%d' % i, None, rng.choice(ref.names), 'OXT', 'H%d' % (i + 1)])
        if extras and rng.random() < 0.3:
            at = rng.randrange(len(extras))
        else:
            at = rng.choice(keep)
        extras.append((el, shown, at))
    return extras


def random_presentation(ffname, resname, rng, allow_request=True):
    ref = block_ref(ffname, resname)
    mutation = modification = None
    src = ref
    if allow_request and rng.random() < 0.15:
        mods = [m for m in get_ff(ffname).modifications if patched_ref(ffname, resname, [m]) is not None]
        if mods:
            modification = [rng.choice(mods)]
            if rng.random() < 0.3:
                second = [m for m in mods if m != modification[0] and patched_ref(ffname, resname, modification + [m]) is not None]
                if second:
                    modification.append(rng.choice(second))
            src = patched_ref(ffname, resname, modification)
    r = rng.random()
    if r < 0.3:
        keep = list(src.names)
    elif r < 0.5:
        keep = heavy(src) or list(src.names)
    else:
        keep = random_removal(src, rng, rng.randint(1, 3))
    keep = order_atoms(keep, rng, rng.choice(['block', 'reversed', 'random']))
    names = scramble_names(src, keep, rng, rng.choice(NAME_MODES))
    extras = []
    if rng.random() < 0.3:
        extras = random_extras(src, keep, rng, rng.randint(1, 2))
    return make_presentation(resname, keep, names, extras, mutation, modification)


def eligible_blocks(ffname, max_atoms, min_atoms=2):
    out = []
    for resname in get_ff(ffname).blocks:
        ref = block_ref(ffname, resname)
        if ref is not None and min_atoms <= len(ref.names) <= max_atoms and ref.connected():
            out.append(resname)
    return out


def skeleton(ref, names):
    g = nx.Graph()
    g.add_nodes_from(names)
    s = set(names)
    for a, c in ref.bond_list:
        if a in s and c in s:
            g.add_edge(a, c)
    return g


def sibling_cases(ffname, rng, max_atoms, n_sample, always):
    """two residues in one molecule whose heavy-atom graphs coincide when the elements are ignored; the second is
    presented with the names and in the atom order of the first (a wrongly labelled sibling)."""
    skel = {}
    for r in eligible_blocks(ffname, max_atoms):
        ref = block_ref(ffname, r)
        for label, atoms in (('heavy', heavy(ref)), ('all', list(ref.names))):
            g = skeleton(ref, atoms)
            if len(g) >= 3 and nx.is_connected(g):
                skel[r, label] = g
    groups = {}
    for (r, label), g in skel.items():
        groups.setdefault((label, nx.weisfeiler_lehman_graph_hash(g)), []).append(r)
    pairs = []
    for (label, _h), rs in sorted(groups.items()):
        for a, b in itertools.permutations(rs, 2):
            ra, rb = block_ref(ffname, a), block_ref(ffname, b)
            if label == 'all' and len(heavy(ra)) == len(ra.names):
                continue
            pairs.append((a, b, label))
    must = [p for p in pairs if p[0] in always and p[1] in always]
    rest = [p for p in pairs if not (p[0] in always and p[1] in always)]
    rng.shuffle(rest)
    cases = []
    for a, b, label in must + rest[:n_sample]:
        ra, rb = block_ref(ffname, a), block_ref(ffname, b)
        ga, gb = skel[a, label], skel[b, label]
        order_a = [n for n in ra.names if n in ga]
        isos = list(itertools.islice(nx.isomorphism.GraphMatcher(ga, gb).isomorphisms_iter(), 12))
        if not isos:
            continue
        seen = set()
        picked = []
        for iso in isos:
            # only the images of atoms whose element differs matter for how the sibling is labelled
            sig = tuple(sorted((x, y) for x, y in iso.items() if ra.elements[x] != rb.elements[y] or
                               any(ra.elements[z] != rb.elements[iso[z]] for z in ga[x])))
            if sig not in seen:
                seen.add(sig)
                picked.append(iso)
        for iso in picked[:3]:
            keep_b = [iso[n] for n in order_a]
            names_b = {iso[n]: n for n in order_a if iso[n] != n}
            cases.append(build_case(ffname, [make_presentation(a, order_a), make_presentation(b, keep_b, names_b)],
                                    'range', True))
    return cases


def exhaustive_cases(ffname, max_atoms, tiny):
    cases = []
    for r in eligible_blocks(ffname, max_atoms):
        ref = block_ref(ffname, r)
        names = list(ref.names)
        for i, gone in enumerate(names):
            if len(names) > 1:
                cases.append(build_case(ffname, [make_presentation(r, [n for n in names if n != gone])],
                                        ('range', 'gapped', 'offset')[i % 3]))
        cases.append(build_case(ffname, [make_presentation(r, names[::-1], {n: None for n in names})], 'reversed'))
        if len(names) <= tiny:
            for perm in itertools.permutations(names):
                perm = list(perm)
                if perm != names:
                    cases.append(build_case(ffname, [make_presentation(r, perm, {n: None for n in names})]))
                    cases.append(build_case(ffname, [make_presentation(r, names, dict(zip(names, perm)))]))
    return cases


def random_cases(ffname, rng, n, max_atoms, amino):
    blocks = eligible_blocks(ffname, max_atoms)
    amino = [b for b in blocks if b in amino]
    cases = []
    for _ in range(n):
        nres = rng.choice([1, 1, 2, 3])
        pres = []
        for _r in range(nres):
            pool = amino if (amino and rng.random() < 0.4) else blocks
            resname = rng.choice(pool)
            p = random_presentation(ffname, resname, rng)
            if not p['modification'] and rng.random() < 0.08:
                p['mutation'] = rng.choice(amino if (amino and resname in amino) else blocks)
                if p['mutation'] == resname:
                    p['mutation'] = None
            pres.append(p)
        cases.append(build_case(ffname, pres, rng.choice(['range', 'range', 'offset', 'gapped', 'reversed', 'shuffled']),
                                rng.random() < 0.7))
    return cases


def _work(args):
    case, timeout = args
    global CASE_TIMEOUT  # pylint: disable=global-statement
    CASE_TIMEOUT = timeout
    logging.disable(logging.CRITICAL)
    col = Collector('worker', max_violations=50)
    stats = new_stats()
    run_case(col, case, stats)
    return dict(evaluations=col.evaluations, nontrivial=list(col.nontrivial), samples=col.samples[:1],
                violations=col.violations, stats=stats)


def new_stats():
    return dict(timeouts=0, timeout_examples=[], oracle_timeouts=0, oracle_skipped=0, excluded=0, real_time=0.0)


def run_all(col, cases, timeout, workers, stats, deadline):
    """run the cases (in order), merge into col.  Returns the number of cases not run because the deadline passed."""
    import multiprocessing
    jobs = [(c, timeout) for c in cases]
    results = None
    pool = None
    skipped = 0
    if workers > 1:
        try:
            pool = multiprocessing.get_context('fork').Pool(workers)
            results = pool.imap(_work, jobs, chunksize=4)
        except Exception:  # pylint: disable=broad-except
            pool = None
    if pool is None:
        results = map(_work, jobs)
    done = 0
    try:
        for res in results:
            done += 1
            col.evaluations += res['evaluations']
            col.nontrivial.update(res['nontrivial'])
            for smp in res['samples']:
                if len(col.samples) < 4:
                    col.samples.append(smp)
            for v in res['violations']:
                col.violation(v['key'], v['function'], v['what'], v['input'], v['observed'], v['expected'])
            for k, val in res['stats'].items():
                stats[k] += val
            if time.time() > deadline:
                skipped = len(jobs) - done
                break
    finally:
        if pool is not None:
            pool.terminate()
            pool.join()
    return skipped


def bounded(tier, seed):
    logging.disable(logging.CRITICAL)
    try:
        return _bounded(tier, seed)
    finally:
        logging.disable(logging.NOTSET)


def _bounded(tier, seed):
    t_start = time.time()
    rng = random.Random(seed)
    quick = tier != 'thorough'
    col = Collector('real RepairGraph.run_molecule on presentations of shipped blocks of charmm/amber/gromos, judged '
                    'clause by clause (unique canonical names, element/bond preserving induced embedding, complete, '
                    're-added atoms bonded as in the block, unrecognised = beyond a maximum common induced subgraph computed '
                    'as a maximum clique of the modular product, other atoms/bonds untouched). '
                    '(E) every connected block of <= K atoms: every single-atom deletion and the whole block without names in '
                    'reversed order; blocks of <= 5 atoms: every atom order without names and every permutation of the names. '
                    '(S) sibling pairs: two residues whose graphs coincide up to elements in one molecule, the second under '
                    'the names and order of the first. '
                    '(R) seeded random molecules of 1-3 residues: renaming (same-element / any permutation, blank, foreign, '
                    'partial), atom order (block / reversed / random), 1-3 atoms or all hydrogens missing, 0-2 extra atoms '
                    '(also chained, also carrying block names), shipped modifications, mutations, node keys contiguous / '
                    'offset / gapped / reversed / shuffled, residues bonded or not. '
                    'non-trivial = anything but a canonical complete block')
    stats = new_stats()
    for ffname in FFS:
        get_ff(ffname)
    amino = set(get_ff('amber').blocks) | set(get_ff('gromos').blocks)
    if quick:
        k_exh = dict(charmm=9, amber=14, gromos=12)
        n_sib, n_rand, max_atoms, timeout, workers, budget = 40, dict(charmm=100, amber=50, gromos=50), 26, 1.5, 6, 46
    else:
        k_exh = dict(charmm=14, amber=26, gromos=26)
        n_sib, n_rand, max_atoms, timeout, workers, budget = 1500, dict(charmm=1500, amber=500, gromos=500), 40, 5, 8, 800
    exh, sib, rnd = [], [], []
    for ffname in FFS:
        exh += exhaustive_cases(ffname, k_exh[ffname], 5)
        sib += sibling_cases(ffname, rng, max_atoms, n_sib if ffname == 'charmm' else 10 ** 6, amino)
        rnd += random_cases(ffname, rng, n_rand[ffname], max_atoms, amino)
    deadline = t_start + budget
    t_gen = time.time() - t_start
    skipped_e = run_all(col, exh, timeout, workers, stats, deadline)
    n_exh_timeouts = stats['timeouts']
    t_e = time.time() - t_start
    skipped_s = run_all(col, sib, timeout, workers, stats, deadline)
    t_s = time.time() - t_start
    # interleave the random cases of the force fields so that a deadline does not starve one of them
    rng.shuffle(rnd)
    skipped_r = run_all(col, rnd, timeout, workers, stats, deadline)
    col.exhaustive = skipped_e == 0 and n_exh_timeouts == 0
    col.bound = ('exhaustive part (E): %d cases = connected blocks of <= %s atoms (charmm/amber/gromos) x every single-atom '
                 'deletion + nameless reversed, blocks of <= 5 atoms x all orders / all name permutations; '
                 'beyond it %d sibling and %d random molecules (blocks of <= %d atoms); per-case limit %.1f s CPU: %d timed out %s; '
                 'not run because of the time budget: E %d, S %d, R %d; exact match size not computed for %d residues'
                 % (len(exh), '/'.join(str(k_exh[f]) for f in FFS), len(sib), len(rnd), max_atoms, timeout, stats['timeouts'],
                    stats['timeout_examples'][:6], skipped_e, skipped_s, skipped_r,
                    stats['oracle_timeouts'] + stats['oracle_skipped']))
    col.bound += '; wall: setup %.0f s, E %.0f s, S %.0f s, R %.0f s' % (t_gen, t_e - t_gen, t_s - t_e, time.time() - t_start - t_s)
    return col.result()


def reproduce(inp):
    """re-run one reported input (the `input` field of a violation); returns the violations it gives."""
    logging.disable(logging.CRITICAL)
    try:
        pres = [make_presentation(p['block'], p.get('keep', []), p.get('names'), p.get('extras', ()), p.get('mutation'),
                                  p.get('modification')) for p in inp['residues']]
        col = Collector('reproduce', max_violations=50)
        run_case(col, build_case(inp['force_field'], pres, inp['keys'], inp['link']), new_stats())
        return col.violations
    finally:
        logging.disable(logging.NOTSET)


def replay_model(function, model):
    """C04 is judged on whole molecules; counter-models of the deductive layer are not replayed here."""
    return None

"""C01 bounded stand-in: the real do_mapping of the working tree runs natively on small molecules and mapping sets;
the result is compared with a naive oracle (c01_world.py) written from the property statement:
placements by brute force, one block copy per placement in order of lowest atom key, consecutive residue numbers,
recorded constituents/weights, bonds between placements from input bonds, unmapped-atom / overlap warnings."""
import itertools
import logging
import random
import time

from .common import Collector, REPO, load_cli  # noqa: F401  (REPO/load_cli: sys.path handling lives in common)
from . import c01_world as W

FN = 'do_mapping'


# --------------------------------------------------------------------------- plain data -> vermouth objects
class _Capture(logging.Handler):
    def __init__(self):
        super().__init__(level=1)
        self.records = []

    def emit(self, record):
        try:
            msg = record.getMessage()
        except Exception:  # pylint: disable=broad-except
            msg = str(record.msg)
        self.records.append((record.levelno, getattr(record, 'type', 'general'), msg))


def build_world(mset):
    """force fields, Mapping objects and modification objects for one mapping set description."""
    from vermouth.forcefield import ForceField
    from vermouth.molecule import Block, Link
    from vermouth.map_parser import Mapping
    ff_from = ForceField(name='c01_aa')
    ff_to = ForceField(name='c01_cg')
    mods_from = {}
    mappings = {}
    for key, ms in mset.items():
        if ms['kind'] == 'block':
            bfrom = Block(force_field=ff_from, nrexcl=1)
            bfrom.name = '+'.join(ms['names'])
            for name, attrs in ms['frm']['nodes']:
                bfrom.add_node(name, **attrs)
            bfrom.add_edges_from(ms['frm']['edges'])
            bto = Block(force_field=ff_to, nrexcl=1)
            bto.name = '+'.join(ms['names'])
            for name, attrs in ms['to']['nodes']:
                bto.add_node(name, **attrs)
            bto.add_edges_from(ms['to']['edges'])
            for itype, iatoms, params in ms['to']['inter']:
                bto.add_interaction(itype, list(iatoms), list(params))
            mappings[key] = Mapping(bfrom, bto, mapping={f: dict(t) for f, t in ms['w'].items()},
                                    references=dict(ms['refs']), ff_from=ff_from, ff_to=ff_to,
                                    names=tuple(ms['names']), extra=())
        else:
            mfrom = Link(force_field=ff_from, name=ms['modname'])
            for name, attrs in ms['frm']['nodes']:
                if attrs['ptm']:
                    mfrom.add_node(name, atomname=attrs['atomname'], PTM_atom=True, modifications=[mfrom])
                else:
                    mfrom.add_node(name, atomname=attrs['atomname'], PTM_atom=False)
            mfrom.add_edges_from(ms['frm']['edges'])
            mto = Link(force_field=ff_to, name=ms['modname'])
            for name, attrs in ms['to']['nodes']:
                extra = {k: v for k, v in attrs.items() if k not in ('ptm', 'atomname')}
                mto.add_node(name, atomname=attrs['atomname'], PTM_atom=bool(attrs['ptm']), **extra)
            mto.add_edges_from(ms['to']['edges'])
            for itype, iatoms, params in ms['to']['inter']:
                mto.add_interaction(itype, list(iatoms), list(params))
            mods_from[ms['modname']] = mfrom
            mappings[tuple(ms['names'])] = Mapping(mfrom, mto, mapping={f: dict(t) for f, t in ms['w'].items()},
                                                   references={}, ff_from=ff_from, ff_to=ff_to,
                                                   names=tuple(ms['names']), type='modification')
    return ff_from, ff_to, {'c01_aa': {'c01_cg': mappings}}, mods_from


def build_molecule(mol, ff_from, mods_from):
    from vermouth.molecule import Molecule, Link
    m = Molecule(force_field=ff_from, nrexcl=1)
    for at in mol['atoms']:
        attrs = dict(resid=at['resid'], resname=at['resname'], atomname=at['atomname'], element=at['element'],
                     chain=at['chain'])
        if at['ptm']:
            attrs['PTM_atom'] = True
        if at['mods']:
            objs = []
            for name in at['mods']:
                if name not in mods_from:
                    mods_from[name] = Link(force_field=ff_from, name=name)
                objs.append(mods_from[name])
            attrs['modifications'] = objs
        m.add_node(at['key'], **attrs)
    m.add_edges_from(mol['bonds'])
    return m


def run_real(mol, mset, stash, world=None):
    from vermouth.processors.do_mapping import do_mapping
    if world is None:
        ff_from, ff_to, mappings, mods_from = build_world(mset)
    else:
        ff_from, ff_to, mappings, mods_from = world
    molecule = build_molecule(mol, ff_from, mods_from)
    logger = logging.getLogger('vermouth')
    cap = _Capture()
    old = (logger.handlers[:], logger.propagate, logger.level)
    logger.handlers = [cap]
    logger.propagate = False
    logger.setLevel(logging.INFO)
    try:
        out = do_mapping(molecule, mappings, ff_to, attribute_keep=('chain',), attribute_must=('resname',),
                         attribute_stash=stash)
        err = None
    except Exception as exc:  # pylint: disable=broad-except
        out, err = None, '%s: %s' % (type(exc).__name__, exc)
    finally:
        logger.handlers, logger.propagate = old[0], old[1]
        logger.setLevel(old[2])
    return out, cap.records, err


# --------------------------------------------------------------------------- shipped mappings as data
def spec_from_mapping(mapping):
    """a parsed vermouth Mapping (block type) written down as the plain data the oracle understands."""
    frm_nodes = []
    for name in mapping.block_from.nodes:
        attrs = mapping.block_from.nodes[name]
        frm_nodes.append((name, dict(resname=attrs.get('resname'), atomname=attrs.get('atomname'),
                                     resid=attrs.get('resid', 1))))
    to_nodes = []
    for name in mapping.block_to.nodes:
        attrs = mapping.block_to.nodes[name]
        to_nodes.append((name, dict(atomname=attrs.get('atomname'), resname=attrs.get('resname'),
                                    resid=attrs.get('resid', 1))))
    inter = []
    for itype, lst in mapping.block_to.interactions.items():
        for it in lst:
            inter.append((itype, tuple(it.atoms), tuple(it.parameters)))
    return dict(kind='block', names=tuple(mapping.names), frm=dict(nodes=frm_nodes, edges=list(mapping.block_from.edges)),
                to=dict(nodes=to_nodes, edges=list(mapping.block_to.edges), inter=inter),
                w={f: dict(t) for f, t in mapping.mapping.items()}, refs=dict(mapping.references))


_SHIPPED = {}


def shipped_world(ff_to_name):
    """the force fields and mappings shipped with vermouth (charmm -> ff_to_name), plus peptide residue templates."""
    import os
    import vermouth
    from vermouth.forcefield import find_force_fields
    from vermouth.map_input import read_mapping_directory
    if 'ffs' not in _SHIPPED:
        base = os.path.join(vermouth.DATA_PATH, 'force_fields')
        _SHIPPED['ffs'] = find_force_fields(base)
        _SHIPPED['maps'] = read_mapping_directory(os.path.join(vermouth.DATA_PATH, 'mappings'), _SHIPPED['ffs'])
    ffs, maps = _SHIPPED['ffs'], _SHIPPED['maps']
    ff_from, ff_to = ffs['charmm'], ffs[ff_to_name]
    collection = maps['charmm'][ff_to_name]
    mset, rtypes = {}, {}
    for key, mapping in collection.items():
        if mapping.type != 'block':
            continue
        mset[str(key)] = spec_from_mapping(mapping)
        if len(mapping.names) == 1 and mapping.names[0] in ff_from.blocks:
            block = ff_from.blocks[mapping.names[0]]
            names = [block.nodes[n].get('atomname') for n in block.nodes]
            if {'N', 'CA', 'C'} <= set(names) and len(names) == len(set(names)):
                rtypes[mapping.names[0]] = dict(
                    atoms=tuple((block.nodes[n]['atomname'], 'H' if block.nodes[n]['atomname'].startswith('H')
                                 else block.nodes[n]['atomname'][0]) for n in block.nodes),
                    edges=tuple((block.nodes[a]['atomname'], block.nodes[b]['atomname']) for a, b in block.edges))
    return (ff_from, ff_to, {'charmm': {ff_to_name: collection}}, {}), mset, rtypes


def shipped_cases(col, rng, ncases, ff_to_name, deadline):
    world, mset, rtypes = shipped_world(ff_to_name)
    names = sorted(rtypes)
    for _ in range(ncases):
        if time.time() > deadline:
            break
        n = rng.randint(1, 6)
        seq = [rng.choice(names) for _ in range(n)]
        links = [(i, 'C', i + 1, 'N') for i in range(n - 1)]
        if n >= 3 and rng.random() < 0.5:
            # one branch point: the last residue hangs off CA of an inner residue instead of the chain end
            links[-1] = (rng.randrange(n - 2), 'CA', n - 1, 'N')
        natoms = sum(len(rtypes[rt]['atoms']) for rt in seq)
        style = rng.random()
        if style < 0.4:
            keys = list(range(natoms))
        elif style < 0.7:
            keys = sorted(rng.sample(range(1, 3 * natoms + 5), natoms))
        else:
            keys = list(range(natoms))
            rng.shuffle(keys)
        resids = sorted(rng.sample(range(1, 400), n)) if rng.random() < 0.7 else rng.sample(range(1, 400), n)
        mol = W.make_mol(seq, links, 'random', resids=resids, keys=keys, rtypes=rtypes)
        check_case(col, mol, 'shipped charmm->%s' % ff_to_name, mset, ('resid',), 'shipped', world=world)


# --------------------------------------------------------------------------- comparison
def _describe(mol, setname, stash):
    return dict(residues=mol['seq'], resids=mol['resids'], links=mol['links'], numbering=mol['numbering'],
                modified_residues=mol['mods'], keys=[at['key'] for at in mol['atoms']],
                atoms=['%s%d:%s' % (at['resname'], at['resid'], at['atomname']) for at in mol['atoms']],
                bonds=[list(b) for b in mol['bonds']], mapping_set=setname, attribute_stash=list(stash))


def compare_order(out, res, exp, stash, has_mods):
    """diffs (key, function, what, observed, expected) of the real output against one candidate expected order."""
    diffs = []
    particles = res['particles']
    nodes = list(out.nodes)
    ptm_nodes = [n for n in nodes if out.nodes[n].get('atomname') == 'PX']
    seq = [n for n in nodes if out.nodes[n].get('atomname') != 'PX']
    obs_names = [(out.nodes[n].get('atomname'), out.nodes[n].get('resname')) for n in seq]
    exp_names = [(p['atomname'], p['resname']) for p in particles]
    if sorted(map(str, obs_names)) != sorted(map(str, exp_names)):
        diffs.append(('do_mapping/placement-copies', FN,
                      'the particles are not exactly one copy of the target block per mapping placement',
                      [list(x) for x in obs_names], [list(x) for x in exp_names]))
        return diffs
    if obs_names != exp_names:
        diffs.append(('do_mapping/placement-order', FN,
                      'block copies are not in the order of the lowest input atom of their placement',
                      [list(x) for x in obs_names], [list(x) for x in exp_names]))
        return diffs
    pos_of = {n: i for i, n in enumerate(seq)}
    # modification particles: one new particle per placement of a modification mapping that creates one
    particles = [dict(p) for p in particles]
    for p in particles:
        p['parts'] = set(p['parts'])
        p['weights'] = dict(p['weights'])
    extra_items = []
    exp_ptm = []
    for midx, mp in enumerate(exp['mod_places']):
        ms = mp['spec']
        anchor_atom = mp['fit'][W.TAIL]
        anchor_name = ms['to']['nodes'][0][0]
        anchor_pos = [i for i, p in enumerate(particles) if p['atomname'] == anchor_name and anchor_atom in p['parts']]
        if len(anchor_pos) != 1:
            continue
        anchor_pos = anchor_pos[0]
        for f, tos in ms['w'].items():
            if anchor_name in tos:
                particles[anchor_pos]['weights'][mp['fit'][f]] = tos[anchor_name]
                particles[anchor_pos]['parts'].add(mp['fit'][f])
        if len(ms['to']['nodes']) > 1:
            exp_ptm.append(dict(place='mod%d' % midx, node='PX', atomname='PX', weights={mp['fit']['X']: 1},
                                parts={mp['fit']['X']}, virtual=False, anchor=anchor_pos, overlapping=False,
                                ref=None, old_resid=None, modparticle=True))
    if len(ptm_nodes) != len(exp_ptm):
        diffs.append(('apply_mod_mapping/new-particles', 'apply_mod_mapping',
                      'a modification mapping that builds a new particle does not yield exactly one per placement',
                      len(ptm_nodes), len(exp_ptm)))
        return diffs
    for ep in exp_ptm:
        cand = [n for n in ptm_nodes if dict(out.nodes[n].get('mapping_weights', {})) == ep['weights']]
        if len(cand) != 1:
            diffs.append(('apply_mod_mapping/mapping-weights', 'apply_mod_mapping',
                          'the particle created by a modification mapping does not record its PTM atom',
                          [dict(out.nodes[n].get('mapping_weights', {})) for n in ptm_nodes], ep['weights']))
            return diffs
        pos_of[cand[0]] = len(particles)
        # the modification's own bond anchor-PX coincides with the bond the connectivity clause demands (C-X is bonded)
        extra_items.append(('bonds', (ep['anchor'], len(particles)), ('1', '0.3', '1000')))
        particles.append(ep)
    # residue numbers
    for i, p in enumerate(particles):
        if p.get('modparticle'):
            continue
        node = out.nodes[seq[i]]
        if node.get('resid') != p['resid']:
            if p['ref'] is not None:
                key, fn = 'do_mapping.attributes/resid-renumbered', FN
                what = 'a particle with a reference atom does not carry the consecutive residue number'
            elif has_mods:
                key, fn = 'do_mapping/resid-renumbered-after-modification', 'apply_mod_mapping'
                what = 'residue numbers are not consecutive once a modification mapping was applied'
            else:
                key, fn = 'merge_molecule/resid-renumbered', 'Molecule.merge_molecule'
                what = 'residues of the block copies are not numbered consecutively in placement order'
            diffs.append((key, fn, what, [out.nodes[n].get('resid') for n in seq],
                          [q['resid'] for q in particles if not q.get('modparticle')]))
            break
    if 'resid' in stash:
        for i, p in enumerate(particles):
            if p.get('modparticle') or p['old_resid'] is None:
                continue
            node = out.nodes[seq[i]]
            if node.get('_old_resid') != p['old_resid']:
                diffs.append(('do_mapping.attributes/old-resid', FN,
                              'the input residue number is not retained as _old_resid although requested',
                              [out.nodes[n].get('_old_resid') for n in seq],
                              [q['old_resid'] for q in particles if not q.get('modparticle')]))
                break
    # constituents and weights
    inv = {i: n for n, i in pos_of.items()}
    for i, p in enumerate(particles):
        node = out.nodes[inv[i]]
        rec = node.get('mapping_weights')
        rec = dict(rec) if rec is not None else None
        graph = node.get('graph')
        gnodes = set(graph.nodes) if graph is not None else None
        if p['virtual']:
            ok = rec is None or (set(rec) <= p['all_atoms'] and all(v == 0 for v in rec.values()))
            okg = gnodes is None or gnodes <= p['all_atoms']
        else:
            ok = rec == p['weights']
            okg = gnodes == set(p['weights'])
        if not ok:
            diffs.append(('do_mapping/mapping-weights', 'apply_block_mapping',
                          'a particle does not record exactly the atoms and weights its mapping assigns to it',
                          dict(particle=i, atomname=p['atomname'], weights={str(k): v for k, v in (rec or {}).items()}),
                          dict(particle=i, atomname=p['atomname'],
                               weights={str(k): v for k, v in p['weights'].items()})))
            break
        if not okg:
            diffs.append(('do_mapping/constituent-graph', FN,
                          "a particle's recorded input fragment is not the set of atoms mapped to it",
                          dict(particle=i, atoms=sorted(gnodes) if gnodes is not None else None),
                          dict(particle=i, atoms=sorted(p['weights']))))
            break
    # bonds
    bonds = exp['bonds']
    required_intra = {it[1] for it in res['items'] + extra_items if it[0] == 'edge'}
    required_inter = set()
    tolerated = set()
    for i, j in itertools.combinations(range(len(particles)), 2):
        p, q = particles[i], particles[j]
        touching = (not p['virtual'] and not q['virtual'] and
                    any(frozenset((a, b)) in bonds for a in p['parts'] for b in q['parts']))
        if p['place'] != q['place']:
            if touching:
                required_inter.add(frozenset((i, j)))
        elif touching and (p['overlapping'] or has_mods):
            tolerated.add(frozenset((i, j)))
    obs_edges = set()
    for a, b in out.edges:
        if a in pos_of and b in pos_of:
            obs_edges.add(frozenset((pos_of[a], pos_of[b])))
    labels = ['%d:%s' % (i, p['atomname']) for i, p in enumerate(particles)]

    def show(edges):
        return sorted(sorted(labels[i] for i in e) for e in edges)
    same_place = {frozenset((i, j)) for i, j in itertools.combinations(range(len(particles)), 2)
                  if particles[i]['place'] == particles[j]['place']}
    obs_intra = obs_edges & same_place
    obs_inter = obs_edges - same_place
    if not (required_intra <= obs_intra and obs_intra <= required_intra | tolerated):
        diffs.append(('do_mapping/intra-block-bonds', 'Molecule.merge_molecule',
                      "the bonds inside a block copy are not the target block's bonds",
                      show(obs_intra), show(required_intra)))
    if obs_inter != required_inter:
        missing = required_inter - obs_inter
        key = 'do_mapping/inter-placement-bonds-missing' if missing else 'do_mapping/inter-placement-bonds-extra'
        diffs.append((key, FN,
                      'particles of different placements must be bonded exactly when some of their constituent atoms '
                      'are bonded in the input', show(obs_inter), show(required_inter)))
    # interactions
    exp_inter = [it for it in res['items'] if it[0] != 'edge']
    exp_mod_inter = [it for it in extra_items if it[0] != 'edge']
    obs_inter_list = []
    bad_ref = False
    for itype, lst in out.interactions.items():
        for inter in lst:
            try:
                obs_inter_list.append((itype, tuple(pos_of[a] for a in inter.atoms), tuple(inter.parameters)))
            except KeyError:
                bad_ref = True
    by_type_obs, by_type_exp = {}, {}
    for it in obs_inter_list:
        by_type_obs.setdefault(it[0], []).append(it)
    for it in exp_inter + exp_mod_inter:
        by_type_exp.setdefault(it[0], []).append(it)
    if exp_mod_inter:
        same = ({k: sorted(v) for k, v in by_type_obs.items()} == {k: sorted(v) for k, v in by_type_exp.items()})
    else:
        same = by_type_obs == by_type_exp
    if bad_ref or not same:
        diffs.append(('do_mapping/interactions', 'Molecule.merge_molecule',
                      "the interactions are not one relabelled copy of each placed block's interactions, in order",
                      [list(map(str, it)) for it in obs_inter_list],
                      [list(map(str, it)) for it in exp_inter + exp_mod_inter]))
    return diffs


def check_case(col, mol, setname, mset, stash, tag, world=None):
    out, records, err = run_real(mol, mset, stash, world)
    prefer = None
    if out is not None:
        prefer = [out.nodes[n].get('atomname') for n in out.nodes if out.nodes[n].get('atomname') != 'PX']
    exp = W.expected_result(mol, mset, prefer)
    for mp in exp['mod_places']:
        mp['spec'] = mset[mp['mkey']]
    has_mods = bool(mol['mods'])
    nplace = len(exp['placements'])
    fingerprint = (tuple(mol['seq']), tuple(map(tuple, mol['links'])), mol['numbering'], tuple(mol['resids']),
                   tuple(sorted(mol['mods'].items())), tuple(at['key'] for at in mol['atoms']), setname, tuple(stash))
    sample = dict(residues=mol['seq'], links=mol['links'], numbering=mol['numbering'], mapping_set=setname,
                  placements=nplace, particles=(len(out.nodes) if out is not None else None),
                  bonds=(len(out.edges) if out is not None else None),
                  warnings=sorted({r[1] for r in records if r[0] >= logging.WARNING}))
    col.case(fingerprint, nplace >= 1, sample)
    desc = _describe(mol, setname, stash)
    desc['generator'] = tag
    if world is None:
        desc['mappings'] = {str(k): dict(kind=ms['kind'], names=list(ms['names']), weights=ms['w'],
                                         references=ms['refs'],
                                         from_atoms=['%s:%s' % (a.get('resid', 1), n) for n, a in ms['frm']['nodes']],
                                         to_particles=['%s:%s' % (a.get('resid', 1), n) for n, a in ms['to']['nodes']],
                                         to_bonds=[list(e) for e in ms['to']['edges']])
                            for k, ms in mset.items()}
    else:
        desc['mappings'] = 'block mappings shipped in vermouth.DATA_PATH/mappings for ' + setname
    if err is not None:
        col.violation('do_mapping/exception', FN, 'do_mapping raised on a well-formed molecule and mapping set',
                      desc, err, 'a converted molecule')
        return
    best, best_score = None, None
    for res in exp['results']:
        # placements that tie on their lowest atom key may come in any order: take the most favourable candidate
        diffs = compare_order(out, res, exp, stash, has_mods)
        score = len(diffs) + (1000 if diffs and diffs[0][0] in ('do_mapping/placement-copies',
                                                                 'do_mapping/placement-order') else 0)
        if best is None or score < best_score:
            best, best_score = diffs, score
        if not diffs:
            break
    for key, fn, what, observed, expected in best or []:
        col.violation(key, fn, what, desc, observed, expected)
    # warnings
    warn_types = [r[1] for r in records if r[0] >= logging.WARNING]
    if exp['uncovered_heavy'] and 'unmapped-atom' not in warn_types:
        col.violation('do_mapping/unmapped-atom-warning', FN,
                      'a non-hydrogen input atom contributes to no particle and no unmapped-atom warning is raised',
                      desc, dict(warnings=warn_types),
                      dict(warning='unmapped-atom', uncovered_atoms=sorted(exp['uncovered_heavy'])))
    if not exp['uncovered'] and not has_mods and 'unmapped-atom' in warn_types:
        col.violation('do_mapping/unmapped-atom-warning-spurious', FN,
                      'an unmapped-atom warning is raised although every input atom is part of a placement',
                      desc, dict(warnings=[r for r in records if r[1] == 'unmapped-atom']), dict(warnings=[]))
    if exp['overlap'] and 'inconsistent-data' not in warn_types:
        col.violation('do_mapping/overlap-warning', 'apply_block_mapping',
                      'two placements share an input atom and no inconsistent-data warning is raised',
                      desc, dict(warnings=warn_types), dict(warning='inconsistent-data'))


# --------------------------------------------------------------------------- generation
# (node key scheme, input residue numbers): keys reversed / with gaps / interleaved across residues; residue numbers
# consecutive, with gaps, or not monotone along the chain
NUMBERINGS = (('identity', None), ('reversed', None), ('sparse', (12, 15, 40)), ('scrambled', (7, 30, 2)))
RULE = ('the real do_mapping on small molecules x mapping sets against a brute-force placement oracle (one block copy '
        'per placement in order of lowest atom key, consecutive residue numbers, _old_resid, recorded atoms/weights, '
        'intra-block bonds and interactions, bonds between placements iff constituent atoms are bonded, unmapped-atom '
        'and overlap warnings). Exhaustive scope: residue types {RA (3 atoms), RB (5 atoms incl. one hydrogen)} x '
        'every sequence of length <= 3 x topologies {linear, double-link, branched, cyclic, cross-linked, '
        'disconnected} x 4 numberings {identity keys, reversed keys, keys with gaps + gapped resids, interleaved keys '
        'with gaps + non-monotone resids} x 13 mapping sets (one-to-one, many-to-one, shared atom with weights, '
        'zero-weight atoms, particle built from no atom, reference atom, partial mapping, residue without mapping, '
        'partially and fully overlapping mappings, two-residue mappings alone / with single-residue mappings / on '
        'equal residues), input resid stashed. Then modification mappings (new particle / absorbed PTM atom / unknown '
        'modification) on every position of sequences <= 3; seeded random molecules of 2..6 residues (random resids, '
        'key permutations, branch points, cross-links, rings, with and without resid stash, with modifications); '
        'shipped charmm->martini3001/martini22 mappings on random peptides of <= 6 residues incl. one branch. '
        'non-trivial = at least one placement exists')


def exhaustive_cases(max_len):
    for n in range(1, max_len + 1):
        for seq in itertools.product(('RA', 'RB'), repeat=n):
            for topo, links in W.topologies(n).items():
                for numbering, resids in NUMBERINGS:
                    yield seq, topo, links, numbering, (resids[:n] if resids else None)


def random_case(rng, sets, msets):
    n = rng.randint(2, 6)
    seq = [rng.choice(('RA', 'RB')) for _ in range(n)]
    links = set()
    for i in range(1, n):
        style = rng.random()
        if style < 0.65:
            links.add((i - 1, W.TAIL, i, W.HEAD))
        elif style < 0.9:
            links.add((rng.randrange(i), W.SIDE, i, W.HEAD))
    for _ in range(rng.choice((0, 0, 1, 2))):
        i, j = rng.sample(range(n), 2)
        links.add((min(i, j), W.SIDE, max(i, j), W.SIDE))
    if rng.random() < 0.15:
        links.add((n - 1, W.TAIL, 0, W.HEAD))
    links = sorted(links)
    mods = {}
    if rng.random() < 0.2:
        for i in rng.sample(range(n), rng.choice((1, 1, 2))):
            mods[i] = 'M'
    natoms = sum(len(W.RTYPES[rt]['atoms']) for rt in seq) + len(mods)
    style = rng.random()
    if style < 0.3:
        keys = rng.sample(range(0, 4 * natoms + 5), natoms)
    elif style < 0.6:
        keys = sorted(rng.sample(range(0, 3 * natoms + 5), natoms))
    else:
        keys = list(range(natoms))
        rng.shuffle(keys)
    resids = rng.sample(range(1, 60), n)
    if rng.random() < 0.5:
        resids.sort()
    mol = W.make_mol(seq, links, 'random', resids=resids, keys=keys, mods=mods)
    pool = msets if mods else sets
    setname = rng.choice(sorted(pool))
    stash = ('resid',) if rng.random() < 0.7 else ()
    return mol, setname, pool[setname], stash


def bounded(tier, seed):
    if not any(isinstance(h, logging.NullHandler) for h in logging.getLogger('vermouth').handlers):
        logging.getLogger('vermouth').addHandler(logging.NullHandler())
    rng = random.Random(seed)
    quick = tier != 'thorough'
    t0 = time.time()
    col = Collector(RULE)
    sets = W.mapping_sets()
    msets = W.mod_mapping_sets()
    stash = ('resid',)
    ncase = 0
    for seq, topo, links, numbering, resids in exhaustive_cases(3):
        mol = W.make_mol(seq, links, numbering, resids=resids)
        for setname, mset in sets.items():
            check_case(col, mol, setname, mset, stash, 'exhaustive/%s' % topo)
            ncase += 1
    col.exhaustive = True
    col.bound = ('%d cases: 2 residue types, sequences of length <= 3, all listed topologies, 4 numberings, '
                 '%d mapping sets, attribute_stash=(resid,)' % (ncase, len(sets)))
    # modification mappings, every position
    for n in (1, 2, 3):
        for seq in itertools.product(('RA', 'RB'), repeat=n):
            for topo, links in W.topologies(n).items():
                if topo not in ('single', 'linear', 'branched'):
                    continue
                for numbering, resids in NUMBERINGS:
                    for where in range(n):
                        mol = W.make_mol(seq, links, numbering, resids=(resids[:n] if resids else None),
                                         mods={where: 'M'})
                        for setname, mset in msets.items():
                            check_case(col, mol, setname, mset, stash, 'modification/%s' % topo)
    # shipped mappings on random peptides
    budget = 30.0 if quick else 780.0
    for share, ff_to_name in ((0.2, 'martini3001'), (0.4, 'martini22')):
        shipped_cases(col, rng, 12 if quick else 1500, ff_to_name, t0 + share * budget + (15.0 if quick else 0.0))
    # seeded random beyond the exhaustive scope, until the time budget is used
    n_rand = 0
    while time.time() - t0 < budget and n_rand < (1500 if quick else 150000):
        mol, setname, mset, st = random_case(rng, sets, msets)
        check_case(col, mol, setname, mset, st, 'random')
        n_rand += 1
    return col.result()


def replay_model(function, model):
    return None

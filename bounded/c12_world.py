"""C12 helper: a 'world' of live molecules, each the real /repo object paired with its naive model. Concrete,
JSON-able operations are applied to both; after every step every live molecule is compared with its model."""
import networkx as nx
from .c12_model import Model, well_formed, diff, expected_merge, KNOWN_EDGE_TYPES

MAX_SLOTS = 6
FUNCTION = {
    'add_node': 'Molecule.add_node', 'add_atom': 'Block.add_atom', 'add_nodes_from': 'Molecule.add_nodes_from',
    'set_attr': 'Molecule.nodes', 'remove_node': 'Molecule.remove_node',
    'remove_nodes_from': 'Molecule.remove_nodes_from', 'add_edge': 'Molecule.add_edge',
    'remove_edge': 'Molecule.remove_edge', 'add_interaction': 'Molecule.add_interaction',
    'add_or_replace': 'Molecule.add_or_replace_interaction', 'remove_interaction': 'Molecule.remove_interaction',
    'remove_matching': 'Molecule.remove_matching_interaction', 'make_edges': 'Molecule.make_edges_from_interactions',
    'copy': 'Molecule.copy', 'subgraph': 'Molecule.subgraph', 'merge': 'Molecule.merge_molecule',
    'to_molecule': 'Block.to_molecule', 'add_block': 'MappingBuilder._add_block',
    'prune_edges': 'prune_edges_between_selections', 'new': 'Molecule.__init__',
}
STAGE = {'merge': 'merge_molecule', 'add_or_replace': 'add_or_replace_interaction',
         'remove_matching': 'remove_matching_interaction', 'make_edges': 'make_edges_from_interactions',
         'prune_edges': 'prune_edges_between_selections', 'add_block': 'MappingBuilder._add_block'}


def real_view(mol):
    """abstract view of a real molecule, read through the plain networkx accessors."""
    return dict(order=list(mol.nodes), attrs={k: dict(mol.nodes[k]) for k in mol.nodes},
                edges={frozenset((u, v)): dict(d) for u, v, d in mol.edges(data=True)},
                inter={t: [(tuple(i.atoms), list(i.parameters), dict(i.meta)) for i in lst]
                       for t, lst in mol.interactions.items() if lst})


def one_shot(kind, keys):
    if kind == 'list':
        return list(keys)
    if kind == 'tuple':
        return tuple(keys)
    if kind == 'set':
        return set(keys)
    if kind == 'gen':
        return (k for k in keys)
    if kind == 'iter':
        return iter(list(keys))
    if kind == 'dictkeys':
        return dict.fromkeys(keys).keys()
    raise ValueError(kind)


class Slot:
    def __init__(self, real, model, origin, parent=None):
        self.real, self.model, self.origin, self.parent = real, model, origin, parent


class Stop(Exception):
    """a violation was recorded; the history is abandoned."""


class World:
    def __init__(self, col):
        self.col = col
        self.slots = []
        self.done = []          # operations carried out so far (for the report)
        self.structural = False  # some remove / merge / copy / subgraph acted on a molecule with interactions
        self.keys_hit = []
        self.links = {}         # frozenset({a, b}) -> how the two molecules got related, most recent wins

    # ---- reporting
    def fail(self, key, function, what, observed, expected):
        self.keys_hit.append(key)
        self.col.violation(key, function, what, dict(history=list(self.done)), observed, expected)
        raise Stop()

    def link(self, a, b, how):
        self.links[frozenset((a, b))] = how

    def relation(self, bystander, acted):
        """how a molecule that changed without being an operand is related to the one that was edited: the most
        recent direct link, else the first link on a shortest chain of links starting from the edited one."""
        direct = self.links.get(frozenset((bystander, acted)))
        if direct:
            return direct
        seen, frontier = {acted: None}, [acted]
        while frontier:
            nxt = []
            for x in frontier:
                for pair, how in sorted(self.links.items(), key=lambda kv: sorted(kv[0])):
                    if x in pair and len(pair) == 2:
                        y = next(iter(pair - {x}))
                        if y not in seen:
                            seen[y] = seen[x] or how
                            nxt.append(y)
            frontier = nxt
        return seen.get(bystander) or 'unrelated'

    def check_all(self, op, acted, skip_effect=()):
        """every live molecule against its model. `acted`: slots the operation was allowed to change."""
        name = op[0]
        stage = STAGE.get(name, name)
        for idx, slot in enumerate(self.slots):
            view = real_view(slot.real)
            exp = slot.model.view()
            if idx in acted:
                bad = well_formed(view)
                if bad:
                    self.fail('%s/%s' % (stage, bad[0]), FUNCTION[name],
                              'after the operation the molecule refers to atoms that are not present: ' + bad[1],
                              _jsonable(view), _jsonable(exp))
                if idx in skip_effect:
                    continue
                d = diff(view, exp)
                if d:
                    self.fail('%s/effect' % stage, FUNCTION[name],
                              'the edited molecule differs from what the operation is documented to do: ' + d,
                              _jsonable(view), _jsonable(exp))
            else:
                d = diff(view, exp)
                if d:
                    rel = self.relation(idx, sorted(acted)[0]) if acted else 'unrelated'
                    fn = {'copy': 'Molecule.copy', 'subgraph': 'Molecule.subgraph', 'to_molecule': 'Block.to_molecule',
                          'merge_molecule': 'Molecule.merge_molecule',
                          'MappingBuilder._add_block': 'MappingBuilder._add_block'}.get(rel, FUNCTION[name])
                    self.fail('%s/independence' % rel, fn,
                              'editing molecule #%s changed molecule #%d, which was not an operand (%s): %s' % (
                                  sorted(acted), idx, rel, d), _jsonable(view), _jsonable(exp))

    # ---- operations
    def apply(self, op):
        """apply a concrete operation to real and model. Returns 'done', 'skipped' (inapplicable or unspecified)."""
        name = op[0]
        handler = getattr(self, 'op_' + name)
        try:
            res = handler(op)
        except Stop:
            raise
        return res

    def _slot(self, i):
        return self.slots[i] if isinstance(i, int) and 0 <= i < len(self.slots) else None

    def _expect(self, op, call, exc, acted):
        """run `call`; it must raise `exc` (None: must not raise)."""
        name = op[0]
        stage = STAGE.get(name, name)
        self.done.append(op)
        try:
            out = call()
        except Exception as err:  # pylint: disable=broad-except
            if exc is not None and isinstance(err, exc):
                return None
            self.fail('%s/raises' % stage, FUNCTION[name], 'the operation failed on a valid input',
                      '%s: %s' % (type(err).__name__, err), 'no error' if exc is None else exc.__name__)
        if exc is not None:
            self.fail('%s/no-error' % stage, FUNCTION[name], 'the operation accepted an input it documents to refuse',
                      'no error', exc.__name__)
        return out

    def _mark(self, slot):
        if any(slot.model.inter.values()):
            self.structural = True

    def op_new(self, op):
        _n, kind = op
        if len(self.slots) >= MAX_SLOTS:
            return 'skipped'
        from vermouth.molecule import Molecule, Block
        real = (Block if kind == 'Block' else Molecule)(nrexcl=1)
        self.done.append(op)
        self.slots.append(Slot(real, Model(kind), 'new'))
        self.check_all(op, {len(self.slots) - 1})
        return 'done'

    def op_add_node(self, op):
        _n, m, key, attrs = op
        s = self._slot(m)
        if s is None:
            return 'skipped'
        self._expect(op, lambda: s.real.add_node(key, **attrs), None, {m})
        s.model.add_node(key, attrs)
        self.check_all(op, {m})
        return 'done'

    def op_add_atom(self, op):
        _n, m, attrs = op
        s = self._slot(m)
        if s is None or s.model.kind != 'Block':
            return 'skipped'
        if 'atomname' not in attrs:
            self._expect(op, lambda: s.real.add_atom(dict(attrs)), ValueError, {m})
        else:
            self._expect(op, lambda: s.real.add_atom(dict(attrs)), None, {m})
            s.model.add_node(attrs['atomname'], attrs)
        self.check_all(op, {m})
        return 'done'

    def op_add_nodes_from(self, op):
        _n, m, items, how = op
        s = self._slot(m)
        if s is None:
            return 'skipped'
        conv = [tuple(i) if isinstance(i, (list, tuple)) else i for i in items]
        arg = (x for x in conv) if how == 'gen' else list(conv)
        self._expect(op, lambda: s.real.add_nodes_from(arg), None, {m})
        for i in conv:
            if isinstance(i, tuple):
                s.model.add_node(i[0], i[1])
            else:
                s.model.add_node(i, {})
        self.check_all(op, {m})
        return 'done'

    def op_set_attr(self, op):
        _n, m, key, name, value = op
        s = self._slot(m)
        if s is None or key not in s.model.attrs:
            return 'skipped'
        self.done.append(op)
        s.real.nodes[key][name] = value
        s.model.attrs[key][name] = value
        self.check_all(op, {m})
        return 'done'

    def op_remove_node(self, op):
        _n, m, key = op
        s = self._slot(m)
        if s is None:
            return 'skipped'
        if key not in s.model.attrs:
            self._expect(op, lambda: s.real.remove_node(key), nx.NetworkXError, {m})
        else:
            self._mark(s)
            self._expect(op, lambda: s.real.remove_node(key), None, {m})
            s.model.remove_atoms([key])
        self.check_all(op, {m})
        return 'done'

    def op_remove_nodes_from(self, op):
        _n, m, keys, how = op
        s = self._slot(m)
        if s is None:
            return 'skipped'
        self._mark(s)
        arg = one_shot(how, keys)
        self._expect(op, lambda: s.real.remove_nodes_from(arg), None, {m})
        s.model.remove_atoms(keys)
        self.check_all(op, {m})
        return 'done'

    def op_add_edge(self, op):
        _n, m, u, v, attrs = op
        s = self._slot(m)
        if s is None or u == v or u not in s.model.attrs or v not in s.model.attrs:
            return 'skipped'
        self._expect(op, lambda: s.real.add_edge(u, v, **attrs), None, {m})
        s.model.add_edge(u, v, attrs)
        self.check_all(op, {m})
        return 'done'

    def op_remove_edge(self, op):
        _n, m, u, v = op
        s = self._slot(m)
        if s is None or u == v or frozenset((u, v)) not in s.model.edges:
            return 'skipped'
        self._expect(op, lambda: s.real.remove_edge(u, v), None, {m})
        del s.model.edges[frozenset((u, v))]
        self.check_all(op, {m})
        return 'done'

    def op_prune_edges(self, op):
        _n, m, sel_a, sel_b = op
        s = self._slot(m)
        if s is None:
            return 'skipped'
        from vermouth.edge_tuning import prune_edges_between_selections
        self._expect(op, lambda: prune_edges_between_selections(s.real, list(sel_a), list(sel_b)), None, {m})
        keep = {}
        for e, d in s.model.edges.items():
            u, v = tuple(e)
            if (u in sel_a and v in sel_b) or (v in sel_a and u in sel_b):
                continue
            keep[e] = d
        s.model.edges = keep
        self.check_all(op, {m})
        return 'done'

    def op_add_interaction(self, op):
        _n, m, type_, atoms, params, meta = op
        s = self._slot(m)
        if s is None:
            return 'skipped'
        atoms = tuple(atoms)
        if any(a not in s.model.attrs for a in atoms):
            self._expect(op, lambda: s.real.add_interaction(type_, atoms, list(params), dict(meta)), KeyError, {m})
        else:
            self._expect(op, lambda: s.real.add_interaction(type_, atoms, list(params), dict(meta)), None, {m})
            s.model.inter.setdefault(type_, []).append((atoms, list(params), dict(meta)))
        self.check_all(op, {m})
        return 'done'

    def op_add_or_replace(self, op):
        _n, m, type_, atoms, params, meta = op
        s = self._slot(m)
        if s is None:
            return 'skipped'
        atoms = tuple(atoms)
        hits = s.model.matches(type_, atoms, meta.get('version', 0))
        if len(hits) > 1:
            return 'skipped'   # which of several equal interactions is replaced is not specified
        call = lambda: s.real.add_or_replace_interaction(type_, atoms, list(params), dict(meta))
        if hits:
            self._expect(op, call, None, {m})
            s.model.inter[type_][hits[0]] = (atoms, list(params), dict(meta))
        elif any(a not in s.model.attrs for a in atoms):
            self._expect(op, call, KeyError, {m})
        else:
            self._expect(op, call, None, {m})
            s.model.inter.setdefault(type_, []).append((atoms, list(params), dict(meta)))
        self.check_all(op, {m})
        return 'done'

    def op_remove_interaction(self, op):
        _n, m, type_, atoms, version = op
        s = self._slot(m)
        if s is None:
            return 'skipped'
        atoms = tuple(atoms)
        hits = s.model.matches(type_, atoms, version)
        if len(hits) > 1:
            return 'skipped'
        call = lambda: s.real.remove_interaction(type_, atoms, version)
        if hits:
            self._expect(op, call, None, {m})
            del s.model.inter[type_][hits[0]]
        else:
            self._expect(op, call, KeyError, {m})
        self.check_all(op, {m})
        return 'done'

    def op_remove_matching(self, op):
        _n, m, type_, atoms, params = op
        s = self._slot(m)
        if s is None:
            return 'skipped'
        from vermouth.molecule import Interaction
        atoms = tuple(atoms)
        hits = s.model.template_matches(type_, atoms, params)
        if len(hits) > 1:
            return 'skipped'
        template = Interaction(atoms=atoms, parameters=list(params), meta={})
        call = lambda: s.real.remove_matching_interaction(type_, template)
        if hits:
            self._expect(op, call, None, {m})
            del s.model.inter[type_][hits[0]]
        else:
            self._expect(op, call, ValueError, {m})
        self.check_all(op, {m})
        return 'done'

    def op_make_edges(self, op):
        _n, m = op
        s = self._slot(m)
        if s is None:
            return 'skipped'
        todo = []
        for t in KNOWN_EDGE_TYPES:
            for a, _p, meta in s.model.inter.get(t, []):
                if meta.get('edge', True):
                    pairs = list(zip(a[:-1], a[1:]))
                    if any(u == v for u, v in pairs):
                        return 'skipped'
                    todo.extend(pairs)
        self._expect(op, lambda: s.real.make_edges_from_interactions(), None, {m})
        for u, v in todo:
            s.model.add_edge(u, v, {})
        self.check_all(op, {m})
        return 'done'

    def op_copy(self, op):
        _n, m = op
        s = self._slot(m)
        if s is None or len(self.slots) >= MAX_SLOTS:
            return 'skipped'
        self._mark(s)
        new = self._expect(op, lambda: s.real.copy(), None, {m})
        self.slots.append(Slot(new, s.model.clone(), 'copy', m))
        self.link(m, len(self.slots) - 1, 'copy')
        self.check_all(op, {m, len(self.slots) - 1})
        return 'done'

    def op_subgraph(self, op):
        _n, m, keys, how = op
        s = self._slot(m)
        if s is None or len(self.slots) >= MAX_SLOTS or any(k not in s.model.attrs for k in keys):
            return 'skipped'
        self._mark(s)
        arg = one_shot(how, keys)
        walk = list(arg) if how not in ('gen', 'iter') else list(keys)
        new = self._expect(op, lambda: s.real.subgraph(arg), None, {m})
        self.slots.append(Slot(new, s.model.induced(walk), 'subgraph', m))
        self.link(m, len(self.slots) - 1, 'subgraph')
        n = len(self.slots) - 1
        if how in ('gen', 'iter'):
            # what a subgraph built from a one-shot iterable contains is not part of the statement: only
            # well-formedness and independence are demanded; the model adopts what came out.
            self.check_all(op, {m, n}, skip_effect={n})
            self.slots[n].model = _model_from_view(real_view(new), s.model.kind)
        else:
            self.check_all(op, {m, n})
        return 'done'

    def op_to_molecule(self, op):
        _n, m, atom_offset, offset_resid, offset_cg, defaults = op
        s = self._slot(m)
        if s is None or s.model.kind != 'Block' or len(self.slots) >= MAX_SLOTS:
            return 'skipped'
        self._mark(s)
        new = self._expect(op, lambda: s.real.to_molecule(atom_offset=atom_offset, offset_resid=offset_resid,
                                                          offset_charge_group=offset_cg,
                                                          default_attributes=dict(defaults)), None, {m})
        got = real_view(new)
        exp = Model('Molecule')
        corr = {n: atom_offset + i for i, n in enumerate(s.model.order)}
        for n in s.model.order:
            attrs = dict(defaults)
            attrs.update(s.model.attrs[n])
            for name, off in (('resid', offset_resid), ('charge_group', offset_cg)):
                if name in attrs:
                    attrs[name] = attrs[name] + off
                elif corr[n] in got['attrs'] and name in got['attrs'][corr[n]]:
                    attrs[name] = got['attrs'][corr[n]][name]     # unspecified for atoms without the number
            exp.add_node(corr[n], attrs)
        for e, d in s.model.edges.items():
            u, v = tuple(e)
            exp.add_edge(corr[u], corr[v], d)
        for t, lst in s.model.inter.items():
            for a, p, meta in lst:
                exp.inter.setdefault(t, []).append((tuple(corr[x] for x in a), list(p), dict(meta)))
        self.slots.append(Slot(new, exp, 'to_molecule', m))
        self.link(m, len(self.slots) - 1, 'to_molecule')
        self.check_all(op, {m, len(self.slots) - 1})
        return 'done'

    def _merge_check(self, op, r, o, before_r, corr):
        """the statement's clauses for a merge of slot o into slot r (other's model still holds its state)."""
        stage = STAGE.get(op[0], op[0])
        problem, exp = merge_clauses(before_r, self.slots[o].model, real_view(self.slots[r].real), corr)
        if problem:
            clause, text, observed, expected = problem
            self.fail('%s/%s' % (stage, clause), 'Molecule.merge_molecule', text, observed, expected)
        return exp

    def op_merge(self, op):
        _n, r, o = op
        recv, other = self._slot(r), self._slot(o)
        if recv is None or other is None or r == o:
            return 'skipped'
        if any(not isinstance(k, int) or isinstance(k, bool) for k in recv.model.order):
            return 'skipped'   # receivers are numbered molecules; named receivers are outside the statement
        self._mark(recv)
        self._mark(other)
        before = recv.model.clone()
        corr = self._expect(op, lambda: recv.real.merge_molecule(other.real), None, {r})
        if not isinstance(corr, dict):
            self.fail('merge_molecule/fresh-keys', 'Molecule.merge_molecule', 'no correspondence returned', repr(corr), 'dict')
        recv.model = self._merge_check(op, r, o, before, corr)
        recv.model.kind = before.kind
        self.link(r, o, 'merge_molecule')
        self.check_all(op, {r})
        return 'done'

    def op_add_block(self, op):
        """MappingBuilder._add_block(current, block): first block becomes a molecule, later ones are merged in."""
        _n, r, o = op
        other = self._slot(o)
        if other is None or other.model.kind != 'Block' or r == o:
            return 'skipped'
        from vermouth.map_parser import MappingBuilder
        if r is None:
            if len(self.slots) >= MAX_SLOTS:
                return 'skipped'
            self._mark(other)
            new = self._expect(op, lambda: MappingBuilder._add_block(None, other.real), None, set())
            exp = Model('Molecule')
            got = real_view(new)
            corr = {n: i for i, n in enumerate(other.model.order)}
            for n in other.model.order:
                attrs = dict(other.model.attrs[n])
                for name in ('resid', 'charge_group'):
                    if name not in attrs and corr[n] in got['attrs'] and name in got['attrs'][corr[n]]:
                        attrs[name] = got['attrs'][corr[n]][name]
                exp.add_node(corr[n], attrs)
            for e, d in other.model.edges.items():
                u, v = tuple(e)
                exp.add_edge(corr[u], corr[v], d)
            for t, lst in other.model.inter.items():
                for a, p, meta in lst:
                    exp.inter.setdefault(t, []).append((tuple(corr[x] for x in a), list(p), dict(meta)))
            self.slots.append(Slot(new, exp, 'add_block', o))
            self.link(o, len(self.slots) - 1, 'MappingBuilder._add_block')
            self.check_all(op, {o, len(self.slots) - 1})
            return 'done'
        recv = self._slot(r)
        if recv is None or not recv.model.order or recv.model.kind != 'Molecule' or \
                any(not isinstance(k, int) or isinstance(k, bool) for k in recv.model.order):
            return 'skipped'
        self._mark(recv)
        self._mark(other)
        before = recv.model.clone()
        self.done.append(op)
        try:
            out = MappingBuilder._add_block(recv.real, other.real)
        except Exception as err:  # pylint: disable=broad-except
            self.fail('merge_molecule/raises', 'Molecule.merge_molecule', 'the operation failed on a valid input',
                      '%s: %s' % (type(err).__name__, err), 'no error')
        if out is not recv.real:
            self.fail('MappingBuilder._add_block/result', 'MappingBuilder._add_block', 'the combination is not the current block',
                      repr(out), 'the receiving molecule')
        recv.model = self._merge_check(['merge', r, o], r, o, before, None)
        self.link(r, o, 'merge_molecule')
        self.check_all(op, {r})
        return 'done'


def merge_clauses(before_r, other, got, corr):
    """the statement's clauses for a merge of `other` (model) into a receiver that was `before_r` (model) and now
    shows `got` (view). corr: the correspondence the implementation returned, or None (then positional).
    Returns (first problem or None, expected model); a problem is (clause, text, observed, expected)."""
    bad = well_formed(got)
    n_old = len(before_r.order)
    kept = {k: got['attrs'].get(k) for k in before_r.order}
    lost = [k for k in before_r.order if kept[k] != before_r.attrs[k]]
    new_keys = [k for k in got['order'] if k not in before_r.attrs]
    if corr is not None:
        claimed = [corr.get(n) for n in other.order]
        if set(corr) != set(other.order) or len(set(claimed)) != len(claimed) or \
                any(c in before_r.attrs for c in claimed):
            return ('fresh-keys', 'the newcomers were given keys that are not fresh: correspondence %r, the receiver had %r' % (
                corr, before_r.order), _jsonable(got), 'keys %r untouched, %d new keys' % (before_r.order, len(other.order))), None
        new_keys = claimed
    elif len(new_keys) != len(other.order):
        return ('fresh-keys', 'the %d newcomers did not all get fresh keys: only %r are new, the receiver had %r' % (
            len(other.order), new_keys, before_r.order), _jsonable(got), 'keys %r untouched, %d new keys' % (
            before_r.order, len(other.order))), None
    if lost or got['order'][:n_old] != before_r.order:
        return ('existing-atoms', 'atoms of the receiving molecule were overwritten, dropped or reordered: %r' % (
            lost or got['order']), _jsonable({k: kept[k] for k in lost}),
                _jsonable({k: before_r.attrs[k] for k in lost})), None
    problems, exp = expected_merge(before_r, other, new_keys, got['attrs'])
    if exp is None:
        return (problems[0][0], problems[0][1], _jsonable(got), 'fresh keys for every newcomer'), None
    if bad:
        return (bad[0], 'after the merge the molecule refers to absent atoms: ' + bad[1], _jsonable(got),
                _jsonable(exp.view())), exp
    if got['order'] != exp.order:
        return ('atoms-kept', 'the merged molecule does not hold every atom of both operands, newcomers last',
                _jsonable(got['order']), _jsonable(exp.order)), exp
    for clause, text in problems:
        return (clause, text, _jsonable(dict(newcomers_after=[got['attrs'][k] for k in new_keys])),
                _jsonable(dict(newcomers_before=[other.attrs[n] for n in other.order],
                               shift='uniform, by the number of the receiver\'s last atom (0 for an empty receiver)'))), exp
    ev = exp.view()
    for k in new_keys:
        if got['attrs'][k] != ev['attrs'][k]:
            return ('newcomer-attributes', 'a merged atom does not carry the attributes it had',
                    _jsonable(got['attrs'][k]), _jsonable(ev['attrs'][k])), exp
    if set(got['edges']) != set(ev['edges']) or any(got['edges'][e] != ev['edges'][e] for e in ev['edges']):
        return ('bonds-kept', 'the merged molecule does not hold exactly the bonds of both operands',
                _jsonable(got)['edges'], _jsonable(ev)['edges']), exp
    if got['inter'] != ev['inter']:
        return ('interactions-kept', 'the merged molecule does not hold exactly the interactions of both operands (renumbered)',
                _jsonable(got)['inter'], _jsonable(ev)['inter']), exp
    return None, exp


def restrict(view, keys):
    """the part of a view that only involves `keys`."""
    inside = set(keys)
    return dict(order=[k for k in view['order'] if k in inside],
                attrs={k: v for k, v in view['attrs'].items() if k in inside},
                edges={e: d for e, d in view['edges'].items() if e <= inside},
                inter={t: lst for t, lst in ((t, [x for x in lst if set(x[0]) <= inside]) for t, lst in view['inter'].items()) if lst})


def _model_from_view(view, kind):
    m = Model(kind)
    m.order = list(view['order'])
    m.attrs = {k: dict(v) for k, v in view['attrs'].items()}
    m.edges = {e: dict(d) for e, d in view['edges'].items()}
    m.inter = {t: [(tuple(a), list(p), dict(x)) for a, p, x in lst] for t, lst in view['inter'].items()}
    return m


def _jsonable(obj):
    if isinstance(obj, dict):
        out = {}
        for k, v in obj.items():
            if isinstance(k, frozenset):
                k = '-'.join(str(x) for x in sorted(k, key=repr))
            elif not isinstance(k, (str, int, float, bool)) and k is not None:
                k = repr(k)
            out[k] = _jsonable(v)
        return out
    if isinstance(obj, (list, tuple, set, frozenset)):
        return [_jsonable(x) for x in (sorted(obj, key=repr) if isinstance(obj, (set, frozenset)) else obj)]
    if isinstance(obj, (str, int, float, bool)) or obj is None:
        return obj
    return repr(obj)

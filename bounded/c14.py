"""C14 bounded stand-in: the real ``fix_ptm`` (and ``find_ptm_atoms``, and the ``[ modification ]`` parser that
feeds it) run natively on many small molecules / modification libraries; the outcome is compared with an oracle
written from the property statement (own induced-placement enumerator + brute-force exact cover; no networkx
matcher, no function of canonicalize_modifications is used by the oracle).

Clauses checked on the OUTPUT of one run (P = atoms flagged as unrecognised in the input):
  crash      fix_ptm must terminate normally on well-formed input
  warn       every atom of P that is gone afterwards is reported by an ``unknown-input`` warning
  explained  the atoms of P that are still there admit an explanation: a set of placements of library modifications
             (induced subgraph; anchors match by name, added atoms by element) whose added-atom images partition
             them (each atom exactly once)                                     -> key .../kept-unexplained
             ... such that every atom carries the canonical name / replace attributes of the modification atom it
             is matched with                                                   -> key .../canonical-attributes
             ... and all atoms of the residues a placement touches are labelled with it -> key .../residue-labels
  complete   a group of atoms (branches with the same anchor residues) that HAS a cover even under the strictest
             reading (only atoms of the anchor residues, every anchor covered too) must not be removed
  branches   find_ptm_atoms == connected components of P with their non-P neighbours
  parse      the parsed Modification has the atoms / flags / replace / edges that were written in the file
"""
import itertools
import json
import logging
import random
import re
import time
import traceback

from .common import Collector, REPO, load_cli  # noqa: F401  (REPO/load_cli: sys.path handling lives in common)

LOGNAME = 'vermouth.processors.canonicalize_modifications'
FN = 'fix_ptm'


# ----------------------------------------------------------------------------------------------------------------
# specifications (plain data; the oracle only ever looks at these)
# ----------------------------------------------------------------------------------------------------------------
def mk_mod(name, atoms, edges):
    """atoms: (key, atomname, element, is_added, replace-dict)"""
    return dict(name=name, atoms=[(k, n, e, bool(p), dict(r)) for k, n, e, p, r in atoms],
                edges=[tuple(e) for e in edges])


POOL = {m['name']: m for m in [
    mk_mod('NH', [('N', 'N', 'N', 0, {'charge': 1}), ('HN', 'HN', 'H', 1, {})], [('N', 'HN')]),
    mk_mod('NH2', [('N', 'N', 'N', 0, {}), ('HN1', 'HN1', 'H', 1, {}), ('HN2', 'HN2', 'H', 1, {'atomname': 'HZ2'})],
           [('N', 'HN1'), ('N', 'HN2')]),
    mk_mod('NH2r', [('N', 'N', 'N', 0, {}), ('HR1', 'HR1', 'H', 1, {}), ('HR2', 'HR2', 'H', 1, {})],
           [('N', 'HR1'), ('N', 'HR2'), ('HR1', 'HR2')]),
    mk_mod('NHH', [('N', 'N', 'N', 0, {}), ('HA1', 'HA1', 'H', 1, {}), ('HB1', 'HB1', 'H', 1, {})],
           [('N', 'HA1'), ('HA1', 'HB1')]),
    mk_mod('NHCA', [('CA', 'CA', 'C', 0, {}), ('N', 'N', 'N', 0, {}), ('HNC', 'HNC', 'H', 1, {'mass': 2})],
           [('CA', 'N'), ('N', 'HNC')]),
    mk_mod('CO', [('C', 'C', 'C', 0, {'charge': -1}), ('OXT', 'OXT', 'O', 1, {'atomname': 'OT'})], [('C', 'OXT')]),
    mk_mod('COH', [('C', 'C', 'C', 0, {}), ('OH1', 'OH1', 'O', 1, {}), ('HO1', 'HO1', 'H', 1, {})],
           [('C', 'OH1'), ('OH1', 'HO1')]),
    mk_mod('CON', [('C', 'C', 'C', 0, {}), ('OB', 'OB', 'O', 1, {}), ('N', 'N', 'N', 0, {})],
           [('C', 'OB'), ('OB', 'N')]),
    mk_mod('CONr', [('C', 'C', 'C', 0, {}), ('OQ', 'OQ', 'O', 1, {'atomname': 'OR'}), ('N', 'N', 'N', 0, {})],
           [('C', 'OQ'), ('OQ', 'N'), ('C', 'N')]),
    mk_mod('OO', [('C', 'C', 'C', 0, {}), ('O1', 'O1', 'O', 1, {}), ('O2', 'O2', 'O', 1, {}), ('Cb', 'C', 'C', 0, {})],
           [('C', 'O1'), ('O1', 'O2'), ('O2', 'Cb')]),
    mk_mod('NO', [('N', 'N', 'N', 0, {}), ('ON', 'ON', 'O', 1, {})], [('N', 'ON')]),
    mk_mod('SS', [('CB', 'CB', 'C', 0, {}), ('SG', 'SG', 'S', 1, {}), ('SD', 'SD', 'S', 1, {}), ('CBb', 'CB', 'C', 0, {})],
           [('CB', 'SG'), ('SG', 'SD'), ('SD', 'CBb')]),
    mk_mod('CBS', [('CB', 'CB', 'C', 0, {}), ('SG1', 'SG1', 'S', 1, {})], [('CB', 'SG1')]),
    mk_mod('CBSH', [('CB', 'CB', 'C', 0, {}), ('SG2', 'SG2', 'S', 1, {}), ('HG2', 'HG2', 'H', 1, {})],
           [('CB', 'SG2'), ('SG2', 'HG2')]),
]}


def mod_text(mods, style=0):
    """the library as a force-field file. style varies what is left to the parser's defaults."""
    out = []
    for m in mods:
        out += ['[ modification ]', m['name'], '[ atoms ]']
        for key, name, element, added, replace in m['atoms']:
            attrs = {'element': element}
            if key != name or style == 1:
                attrs['atomname'] = name
            if added:
                attrs['PTM_atom'] = True
            elif style == 1:
                attrs['PTM_atom'] = False
            if replace:
                attrs['replace'] = replace
            out.append('%s %s' % (key, json.dumps(attrs)))
        out.append('[ edges ]')
        out += ['%s %s' % e for e in m['edges']]
        out.append('')
    return out


def is_added(attrs):
    return bool(attrs.get('PTM_atom', False))


class G:
    """the input molecule as plain data."""

    def __init__(self, atoms, edges):
        # atoms: list of (key, attrs) in insertion order
        self.atoms = atoms
        self.nodes = {k: a for k, a in atoms}
        self.adj = {k: set() for k in self.nodes}
        self.edges = []
        for a, b in edges:
            if a != b and b not in self.adj[a]:
                self.adj[a].add(b)
                self.adj[b].add(a)
                self.edges.append((a, b))
        self.added = {k for k, a in atoms if is_added(a)}

    def describe(self):
        return dict(atoms=[[k, a['atomname'], a['element'], a['resid'], a.get('chain'), a.get('PTM_atom')]
                           for k, a in self.atoms], edges=[list(e) for e in self.edges])


# ----------------------------------------------------------------------------------------------------------------
# oracle
# ----------------------------------------------------------------------------------------------------------------
def mod_order(mod):
    """visiting order of the modification atoms such that each one (after the first) touches an earlier one."""
    keys = [a[0] for a in mod['atoms']]
    madj = {k: set() for k in keys}
    for a, b in mod['edges']:
        madj[a].add(b)
        madj[b].add(a)
    order = [keys[0]]
    while len(order) < len(keys):
        nxt = [k for k in keys if k not in order and madj[k] & set(order)]
        if not nxt:
            return None, madj  # not connected: excluded by the generators
        order.append(nxt[0])
    return order, madj


def placements(mod, g, allowed):
    """all induced placements {modification key: molecule key} of mod inside the molecule atoms `allowed`:
    anchors (not added) match a recognised atom of the same name, added atoms an unrecognised atom of the same
    element, and two images are bonded exactly when the modification atoms are."""
    order, madj = mod_order(mod)
    info = {a[0]: a for a in mod['atoms']}
    found = []

    def fits(mkey, gkey):
        _, name, element, added, _ = info[mkey]
        attrs = g.nodes[gkey]
        if added:
            return is_added(attrs) and attrs['element'] == element
        return (not is_added(attrs)) and attrs['atomname'] == name

    def rec(i, assign, used):
        if i == len(order):
            found.append(dict(assign))
            return
        mkey = order[i]
        for gkey in allowed:
            if gkey in used or not fits(mkey, gkey):
                continue
            if all((prev in madj[mkey]) == (assign[prev] in g.adj[gkey]) for prev in order[:i]):
                assign[mkey] = gkey
                used.add(gkey)
                rec(i + 1, assign, used)
                used.discard(gkey)
                del assign[mkey]

    rec(0, {}, set())
    return found


def exact_cover(targets, cands, need=frozenset()):
    """cands: list of (added-image frozenset, whole-image frozenset, payload). a sub-list whose added images
    partition `targets` (and whose images contain `need`), or None."""
    targets = frozenset(targets)

    def rec(left, chosen):
        if not left:
            covered = set()
            for c in chosen:
                covered |= c[1]
            return list(chosen) if need <= covered else None
        pick = min(left, key=repr)
        for c in cands:
            if pick in c[0] and c[0] <= left:
                got = rec(left - c[0], chosen + [c])
                if got is not None:
                    return got
        return None

    return rec(targets, [])


def canonical(mod_atom):
    _, name, _, _, replace = mod_atom
    return replace.get('atomname', name)


def branches(g):
    """connected components of the unrecognised atoms with their recognised neighbours."""
    left = set(g.added)
    out = []
    while left:
        start = min(left, key=repr)
        comp, stack = {start}, [start]
        while stack:
            cur = stack.pop()
            for nb in g.adj[cur]:
                if nb in g.added and nb not in comp:
                    comp.add(nb)
                    stack.append(nb)
        left -= comp
        anchors = {nb for c in comp for nb in g.adj[c] if nb not in g.added}
        out.append((frozenset(comp), frozenset(anchors)))
    return out


def explain(g, lib, out_nodes, labels, level):
    """is there an explanation of the kept unrecognised atoms? level 0: placements partition them; 1: + canonical
    names and replace attributes; 2: + labels on all atoms of the touched residues."""
    kept = {k for k in g.added if k in out_nodes}
    if not kept:
        return True
    allowed = [k for k, _ in g.atoms if k in out_nodes]
    raw = []
    for mod in lib:
        info = {a[0]: a for a in mod['atoms']}
        for pl in placements(mod, g, allowed):
            raw.append((mod, info, pl))
    # values a replace on an anchor could legitimately have left behind (several placements may share an anchor)
    anchor_values = {}
    for mod, info, pl in raw:
        for mkey, gkey in pl.items():
            if not info[mkey][3]:
                for attr, val in info[mkey][4].items():
                    anchor_values.setdefault((gkey, attr), []).append(val)
    cands = []
    for mod, info, pl in raw:
        ok = True
        if level >= 1:
            for mkey, gkey in pl.items():
                atom = info[mkey]
                node = out_nodes[gkey]
                if atom[3]:
                    if node.get('atomname') != canonical(atom) or node.get('element') != atom[2]:
                        ok = False
                    for attr, val in atom[4].items():
                        if node.get(attr) != val:
                            ok = False
                else:
                    for attr, val in atom[4].items():
                        if node.get(attr) not in anchor_values[(gkey, attr)]:
                            ok = False
        if ok and level >= 2:
            touched = {(g.nodes[gkey].get('chain'), g.nodes[gkey]['resid']) for gkey in pl.values()}
            for k, node in out_nodes.items():
                if (node.get('chain'), node.get('resid')) in touched and mod['name'] not in labels.get(k, ()):
                    ok = False
                    break
        if ok:
            image = frozenset(pl.values())
            cands.append((frozenset(image & g.added), image, mod['name']))
    return exact_cover(kept, cands) is not None


def strict_groups(g):
    """branches grouped by the (sorted) residue numbers of their anchors."""
    groups = {}
    for comp, anchors in branches(g):
        key = tuple(sorted(g.nodes[a]['resid'] for a in anchors))
        groups.setdefault(key, []).append((comp, anchors))
    return groups


def strict_cover_exists(g, lib, key, members):
    """a cover in the narrowest sense: only atoms whose residue number is one of the anchors', only this group's
    unrecognised atoms, each of them exactly once, every anchor of the group inside some placement."""
    resids = set(key)
    atoms = set().union(*[c for c, _ in members])
    anchors = set().union(*[a for _, a in members])
    if not resids or any(g.nodes[a]['resid'] not in resids for a in atoms):
        return False
    allowed = [k for k, a in g.atoms if a['resid'] in resids and (k in atoms or k not in g.added)]
    cands = []
    for mod in lib:
        for pl in placements(mod, g, allowed):
            image = frozenset(pl.values())
            cands.append((frozenset(image & g.added), image, mod['name']))
    return exact_cover(atoms, cands, frozenset(anchors)) is not None


# ----------------------------------------------------------------------------------------------------------------
# the real thing
# ----------------------------------------------------------------------------------------------------------------
class Capture(logging.Handler):
    def __init__(self):
        super().__init__(1)
        self.records = []

    def emit(self, record):
        try:
            msg = record.getMessage()
        except Exception as exc:  # a message that cannot be formatted
            msg = 'UNFORMATTABLE %r' % (exc,)
        self.records.append((record.levelno, getattr(record, 'type', None), msg))


_FF_CACHE = {}


def get_ff(lib, style, col=None):
    """parse the library with the real parser (cached); check the parse against the specification."""
    ckey = (tuple(json.dumps(m, sort_keys=True) for m in lib), style)
    if ckey in _FF_CACHE:
        return _FF_CACHE[ckey]
    from vermouth.forcefield import ForceField
    from vermouth.ffinput import read_ff
    ff = ForceField(name='c14')
    read_ff(mod_text(lib, style), ff)
    if col is not None:
        want = {}
        for m in lib:
            want[m['name']] = (sorted((n, e, p, sorted(r.items())) for _, n, e, p, r in m['atoms']), len(m['edges']))
        got = {}
        for name, mod in ff.modifications.items():
            got[name] = (sorted((a.get('atomname'), a.get('element'), bool(a.get('PTM_atom')),
                                 sorted(a.get('replace', {}).items())) for _, a in mod.nodes(data=True)),
                         mod.number_of_edges())
        if list(ff.modifications) != [m['name'] for m in lib] or got != want:
            col.violation('ffinput/modification-parse', 'FFDirector', 'parsed [ modification ] differs from the file',
                          mod_text(lib, style), json.loads(json.dumps(got, default=str)),
                          json.loads(json.dumps(want, default=str)))
    if len(_FF_CACHE) > 4000:
        _FF_CACHE.clear()
    _FF_CACHE[ckey] = ff
    return ff


def crash_key(exc):
    """stable description of where in the library an exception came from (no line numbers)."""
    frames = [f for f in traceback.extract_tb(exc.__traceback__) if 'vermouth' in f.filename]
    where, slug = 'unknown', ''
    if frames:
        where = frames[-1].name
        slug = re.sub(r'\W+', '_', (frames[-1].line or '').strip())[:48].strip('_')
    return '%s@%s[%s]' % (type(exc).__name__, where, slug), where


def run_real(g, ff):
    from vermouth.molecule import Molecule
    from vermouth.processors.canonicalize_modifications import CanonicalizeModifications, find_ptm_atoms
    mol = Molecule(force_field=ff)
    for key, attrs in g.atoms:
        mol.add_node(key, **dict(attrs))
    mol.add_edges_from(g.edges)
    res = dict(exc=None, branches=None)
    logger = logging.getLogger(LOGNAME)
    handler = Capture()
    old = (logger.level, logger.propagate, list(logger.handlers))
    logger.handlers = [handler]
    logger.setLevel(1)
    logger.propagate = False
    prev_disable = logging.root.manager.disable
    logging.disable(logging.NOTSET)
    try:
        try:
            res['branches'] = [(frozenset(a), frozenset(b)) for a, b in find_ptm_atoms(mol)]
        except Exception as exc:  # pylint: disable=broad-except
            res['exc'] = ('find_ptm_atoms',) + crash_key(exc) + (repr(exc),)
            return res
        try:
            CanonicalizeModifications().run_molecule(mol)
        except Exception as exc:  # pylint: disable=broad-except
            res['exc'] = ('fix_ptm',) + crash_key(exc) + (repr(exc),)
            return res
    finally:
        logging.disable(prev_disable)
        logger.setLevel(old[0])
        logger.propagate = old[1]
        logger.handlers = old[2]
        res['records'] = handler.records
    res['nodes'] = {k: {a: v for a, v in mol.nodes[k].items() if a not in ('graph', 'modifications')}
                    for k in mol.nodes}
    res['labels'] = {k: [getattr(m, 'name', None) for m in mol.nodes[k].get('modifications', [])]
                     for k in mol.nodes}
    return res


def mentioned(token, text):
    return re.search(r'(?<![\w-])' + re.escape(token) + r'(?!\w)', text) is not None


def evaluate(g, lib, ff):
    """one native run against the oracle -> (result of the run, [(key, function, what, observed, expected)])."""
    res = run_real(g, ff)
    viols = []
    if res['exc'] is not None:
        stage, key, where, text = res['exc']
        viols.append(('%s/raises:%s' % (stage, key), where if where != 'unknown' else stage,
                      'canonicalisation stops with an exception on a well-formed molecule, so its unrecognised '
                      'atoms are neither explained nor reported', text, 'normal termination'))
        return res, viols

    # branches
    want = set(branches(g))
    if set(res['branches']) != want or len(res['branches']) != len(want):
        viols.append(('find_ptm_atoms/branches', 'find_ptm_atoms',
                      'unrecognised atoms are not grouped into connected branches with their anchors',
                      sorted((sorted(a, key=repr), sorted(b, key=repr)) for a, b in res['branches']),
                      sorted((sorted(a, key=repr), sorted(b, key=repr)) for a, b in want)))

    out_nodes, labels = res['nodes'], res['labels']
    removed = [k for k in g.added if k not in out_nodes]
    kept = [k for k in g.added if k in out_nodes]
    warns = [r[2] for r in res['records'] if r[0] >= logging.WARNING and r[1] == 'unknown-input']

    # removed => reported
    if removed and not warns:
        viols.append(('fix_ptm/removed-without-warning', FN, 'unrecognised atoms were removed without an '
                      'unknown-input warning', dict(removed=removed, records=res['records']),
                      'an unknown-input warning'))
    elif removed:
        for k in removed:
            a = g.nodes[k]
            tokens = ['%s-%s' % (a['atomid'], a['atomname']), '%s%s' % (a['resname'], a['resid'])]
            if not any(mentioned(t, w) for t in tokens for w in warns):
                viols.append(('fix_ptm/removed-atom-not-reported', FN, 'a removed atom is mentioned by none of the '
                              'unknown-input warnings (neither the atom nor its residue)',
                              dict(removed=k, warnings=warns), 'a warning naming %s' % ' or '.join(tokens)))
                break

    # kept => explained
    if kept:
        observed = dict(kept={str(k): dict(atomname=out_nodes[k].get('atomname'), labels=labels.get(k))
                              for k in kept}, removed=removed)
        if any(not labels.get(k) for k in kept):
            viols.append(('fix_ptm/kept-unlabelled', FN, 'an unrecognised atom is kept without any modification label',
                          observed, 'labelled with the covering modification, or removed with a warning'))
        if not explain(g, lib, out_nodes, labels, 2):
            if not explain(g, lib, out_nodes, labels, 0):
                viols.append(('fix_ptm/kept-unexplained', FN, 'the unrecognised atoms that were kept cannot be '
                              'partitioned into induced placements of library modifications (anchors by name, '
                              'added atoms by element)', observed,
                              'atoms without an exact cover are removed with an unknown-input warning'))
            elif not explain(g, lib, out_nodes, labels, 1):
                viols.append(('fix_ptm/canonical-attributes', FN, 'no exact cover is consistent with the atom names '
                              '/ replace attributes found on the kept atoms',
                              dict(observed, nodes={str(k): out_nodes[k] for k in out_nodes}),
                              'every covered atom carries the canonical name and attribute changes of its '
                              'modification atom'))
            else:
                viols.append(('fix_ptm/residue-labels', FN, 'no exact cover (consistent with the names) has all '
                              'atoms of the residues it touches labelled with its modifications',
                              dict(observed, labels={str(k): v for k, v in labels.items()}),
                              'all atoms of the touched residues carry the modification that covers the atom'))

    # cover exists (narrowest reading) => not removed
    if removed:
        for key, members in strict_groups(g).items():
            atoms = set().union(*[c for c, _ in members])
            gone = sorted((k for k in atoms if k not in out_nodes), key=repr)
            if gone and strict_cover_exists(g, lib, key, members):
                viols.append(('fix_ptm/removed-although-cover-exists', FN, 'atoms were removed although the known '
                              'modifications cover their group exactly (within the anchor residues, all anchors '
                              'covered)', dict(removed=gone, warnings=warns), 'kept and labelled'))
                break
    return res, viols


# --- telling the known "label leak" apart -------------------------------------------------------------------------
# Known genuine defect of the unchanged tree: when one group of unrecognised atoms has been identified, EVERY atom
# with one of its residue numbers is labelled - also the unrecognised atoms of a group that is handled later. That
# later group is then treated as "already labelled by a known modification" and matched by ATOM NAME only. Usually
# this ends in one of two assertion errors; when the names of the later group's atoms happen to coincide with atom
# names of the modification it ends in wrongly kept / wrongly named atoms, i.e. under the generic clause keys.
# The diagnosis below uses the INPUT and extra native runs only (nothing of the code's internals):
#   (a) two different groups interact through a residue: an unrecognised atom of one group carries a residue number
#       that is an anchor residue number of another group,
#   (b) (generic keys only) an unrecognised atom is named like an atom of a library modification,
#   (c) the same violation key does NOT show up when every group is presented on its own (all recognised atoms +
#       the unrecognised atoms of that one group).
# Generic clause violations with (a)+(b)+(c) get the suffix '+label-leak'. The two assertion errors are the leak's
# ordinary symptom and keep their plain key when (a)+(c) hold; if they show up without group interaction (so from
# some other cause) they get the suffix '+isolated'.
LEAK_GENERIC = ('fix_ptm/kept-unexplained', 'fix_ptm/canonical-attributes', 'fix_ptm/residue-labels',
                'fix_ptm/kept-unlabelled', 'fix_ptm/removed-although-cover-exists')
LEAK_CRASH_PREFIX = 'fix_ptm/raises:AssertionError@identify_ptms['


def groups_interact(g):
    info = []
    for key, members in strict_groups(g).items():
        atoms = set().union(*[c for c, _ in members])
        info.append((set(key), {g.nodes[k]['resid'] for k in atoms}))
    for i, (anchor_resids, _) in enumerate(info):
        for j, (_, atom_resids) in enumerate(info):
            if i != j and anchor_resids & atom_resids:
                return True
    return False


def names_collide(g, lib):
    names = {a[1] for m in lib for a in m['atoms']}
    return any(g.nodes[k]['atomname'] in names for k in g.added)


def keys_when_separate(g, lib, ff):
    """violation keys seen when each group of unrecognised atoms is presented alone."""
    seen = set()
    for members in strict_groups(g).values():
        mine = set().union(*[c for c, _ in members])
        keep = {k for k, _ in g.atoms if k not in g.added or k in mine}
        sub = G([(k, a) for k, a in g.atoms if k in keep], [(a, b) for a, b in g.edges if a in keep and b in keep])
        seen |= {v[0] for v in evaluate(sub, lib, ff)[1]}
    return seen


def classify(g, lib, ff, viols, recorded=()):
    """final keys: see the comment block above. `recorded`: keys that have been reported already (a repeated
    plain assertion-error key on interacting groups needs no new diagnosis: a cause other than the leak would
    show on single-group inputs as well, where no extra run is needed to tell)."""
    generic = [v for v in viols if v[0] in LEAK_GENERIC]
    crash = [v for v in viols if v[0].startswith(LEAK_CRASH_PREFIX)]
    if not generic and not crash:
        return viols
    interact = groups_interact(g)
    if interact and not generic and all(v[0] in recorded for v in crash):
        return viols
    separate = keys_when_separate(g, lib, ff) if interact else None
    out = []
    for v in viols:
        key = v[0]
        if v in generic and interact and names_collide(g, lib) and key not in separate:
            key += '+label-leak'
        elif v in crash and not (interact and key not in separate):
            key += '+isolated'
        out.append((key,) + tuple(v[1:]))
    return out


def check_case(col, g, lib, style, tag):
    ff = get_ff(lib, style, col)
    inp = dict(g.describe(), modifications=[m['name'] if POOL.get(m['name']) == m else m for m in lib], origin=tag)
    res, viols = evaluate(g, lib, ff)
    cand = any(placements(m, g, [k for k, _ in g.atoms]) for m in lib) if g.added else False
    nontrivial = bool(g.added) and cand
    fp = (repr(g.describe()), repr([m['name'] for m in lib]))
    sample = None
    if nontrivial and len(col.samples) < 4 and res.get('exc') is None:
        sample = dict(inp, kept={str(k): res['nodes'][k].get('atomname') for k in g.added if k in res['nodes']},
                      removed=[k for k in g.added if k not in res['nodes']],
                      warnings=[r[2] for r in res['records'] if r[0] >= logging.WARNING])
    col.case(fp, nontrivial, sample)
    if viols:
        for key, function, what, observed, expected in classify(g, lib, ff, viols, {v['key'] for v in col.violations}):
            col.violation(key, function, what, inp, observed, expected)


# ----------------------------------------------------------------------------------------------------------------
# generators
# ----------------------------------------------------------------------------------------------------------------
def atom(name, element, resid, added, atomid, chain='A', resname='ALA', flag_style=0):
    a = dict(atomname=name, element=element, resid=resid, resname=resname, atomid=atomid, chain=chain)
    if added:
        a['PTM_atom'] = True
    elif flag_style == 0:
        a['PTM_atom'] = False
    return a


def skeleton2(scheme):
    """two residues N-CA-C joined by a peptide bond. scheme 0: keys 0..5, residues 1,2; scheme 1: sparse unordered
    keys, residues 7 then 3, recognised atoms carry no PTM_atom flag."""
    if scheme == 0:
        keys, resids = [0, 1, 2, 3, 4, 5], (1, 2)
    else:
        keys, resids = [31, 7, 19, 50, 11, 23], (7, 3)
    names = [('N', 'N'), ('CA', 'C'), ('C', 'C')] * 2
    atoms = [(keys[i], atom(names[i][0], names[i][1], resids[i // 3], False, 10 + i, flag_style=scheme))
             for i in range(6)]
    edges = [(keys[i], keys[i + 1]) for i in range(5)]
    sites = [keys[0], keys[2], keys[3], keys[5]]
    return atoms, edges, sites, resids


def enumerate_extras(n_extra, scheme):
    """every way to add n_extra unrecognised atoms (element H or O, residue of either skeleton residue, bonded to
    one or two of: the four attachment sites N1 C1 N2 C2 and the earlier extra atoms)."""
    atoms, edges, sites, resids = skeleton2(scheme)
    extra_keys = [6, 7, 8, 9] if scheme == 0 else [2, 40, 13, 5]

    def rec(i, cur_atoms, cur_edges):
        if i == n_extra:
            yield cur_atoms, cur_edges
            return
        targets = sites + extra_keys[:i]
        nbsets = [(t,) for t in targets] + list(itertools.combinations(targets, 2))
        for element in 'HO':
            for resid in resids:
                for nbs in nbsets:
                    a = (extra_keys[i], atom('X%d' % (i + 1), element, resid, True, 40 + i))
                    yield from rec(i + 1, cur_atoms + [a], cur_edges + [(extra_keys[i], t) for t in nbs])

    seen = set()
    for extra_atoms, extra_edges in rec(0, [], []):
        # one representative per isomorphism class (the extra atoms may be listed in any order)
        keys_here = [k for k, _ in extra_atoms]
        nb = {k: set() for k in keys_here}
        for a, b in extra_edges:
            nb[a].add(b)
            if b in nb:
                nb[b].add(a)
        attrs = dict(extra_atoms)
        forms = []
        for perm in itertools.permutations(keys_here):
            pos = {k: i for i, k in enumerate(perm)}
            forms.append(tuple((attrs[k]['element'], attrs[k]['resid'],
                                tuple(sorted(sites.index(x) for x in nb[k] if x in sites)),
                                tuple(sorted(pos[x] for x in nb[k] if x in pos))) for k in perm))
        form = min(forms)
        if form in seen:
            continue
        seen.add(form)
        if scheme == 0:
            yield G(atoms + extra_atoms, edges + extra_edges)
        else:  # unrecognised atoms inserted first: they are the first node of their residue
            yield G(extra_atoms[::-1] + atoms, extra_edges + edges)


EXH_LIBS = [
    ['NH', 'NH2', 'CO', 'COH', 'CON'],
    ['NH2', 'NHH', 'NH2r', 'NHCA', 'OO'],
    ['NH'],
    ['CO', 'CONr', 'NH2', 'NO'],
    [],
    ['NHCA', 'NH', 'COH', 'CONr'],
]


def random_case(rng):
    """a larger random molecule + library: 1-3 residues (optional CB), 0-5 unrecognised atoms of H/O/S incl.
    unbonded ones, atoms bonded only to other unrecognised atoms, residue numbers with gaps / out of order /
    repeated in another chain, sparse shuffled node keys, library = random pool subset (any order) plus
    modifications cut out of the molecule itself."""
    nres = rng.choice([1, 2, 2, 3, 3])
    resid_pool = rng.choice([[1, 2, 3], [5, 2, 9], [10, 11, 12], [3, 3, 4], [-1, 0, 1], [7, 7, 7]])
    chains = ['A', 'A', 'A']
    if resid_pool in ([3, 3, 4], [7, 7, 7]):
        chains = ['A', 'B', 'C'] if resid_pool == [7, 7, 7] else ['A', 'B', 'B']
    flag_style = rng.choice([0, 1])
    atoms, edges, sites = [], [], []
    nid = 0
    prev_c = None
    for r in range(nres):
        resid, chain = resid_pool[r], chains[r]
        resname = rng.choice(['ALA', 'GLY', 'CYS'])
        ids = {}
        names = [('N', 'N'), ('CA', 'C'), ('C', 'C')] + ([('CB', 'C')] if rng.random() < 0.5 else [])
        for name, element in names:
            ids[name] = nid
            atoms.append((nid, atom(name, element, resid, False, 100 + nid, chain, resname, flag_style)))
            nid += 1
        edges += [(ids['N'], ids['CA']), (ids['CA'], ids['C'])]
        if 'CB' in ids:
            edges.append((ids['CA'], ids['CB']))
        if prev_c is not None and chains[r] == chains[r - 1]:
            edges.append((prev_c, ids['N']))
        prev_c = ids['C']
        sites += [ids[n] for n in ids if n != 'CA' or rng.random() < 0.3]
    n_extra = rng.choice([0, 1, 1, 2, 2, 2, 3, 3, 4, 4, 5])
    extras = []
    for i in range(n_extra):
        key = nid
        nid += 1
        element = rng.choice('HHHOOS')
        targets = sites + extras
        mode = rng.random()
        if mode < 0.04:
            nbs = []
        elif mode < 0.25 and extras:
            nbs = [rng.choice(extras)]
        else:
            nbs = rng.sample(targets, min(len(targets), rng.choice([1, 1, 1, 2, 2, 3])))
        # prefer re-using a site that already carries an extra atom (several atoms / modifications on one anchor)
        if nbs and rng.random() < 0.35 and edges:
            used_sites = [b for a, b in edges if a in extras and b in sites] + [a for a, b in edges if b in extras and a in sites]
            if used_sites:
                nbs[0] = rng.choice(used_sites)
                nbs = list(dict.fromkeys(nbs))
        gnodes = dict(atoms)
        if nbs and rng.random() < 0.92:
            ref = gnodes[nbs[0]]
            resid, chain, resname = ref['resid'], ref['chain'], ref['resname']
        else:
            r = rng.randrange(nres)
            resid, chain = resid_pool[r], chains[r]
            resname = [a for _, a in atoms if a['resid'] == resid and a['chain'] == chain][0]['resname']
        name = rng.choice(['X%d' % i, 'H%d' % i, 'HN', 'OXT', 'N', 'Q'])
        atoms.append((key, atom(name, element, resid, True, 100 + key, chain, resname)))
        edges += [(key, t) for t in nbs]
        extras.append(key)
    # sparse, shuffled keys
    if rng.random() < 0.6:
        new = rng.sample(range(0, 200), len(atoms))
        remap = {k: new[i] for i, (k, _) in enumerate(atoms)}
        atoms = [(remap[k], a) for k, a in atoms]
        edges = [(remap[a], remap[b]) for a, b in edges]
        if rng.random() < 0.7:
            rng.shuffle(atoms)
        if rng.random() < 0.3:
            atoms.sort(key=lambda ka: not is_added(ka[1]))  # unrecognised atoms first
    g = G(atoms, edges)
    # library
    names = rng.sample(sorted(POOL), rng.choice([0, 1, 2, 3, 3, 4]))
    lib = [POOL[n] for n in names]
    # modifications cut out of the molecule: a branch (or part of it) with its anchors
    brs = [b for b in branches(g) if b[1]]
    for _ in range(rng.choice([0, 1, 1, 2, 2, 3])):
        if not brs or len(lib) >= 6:
            break
        comp, anchors = rng.choice(brs)
        comp = set(comp)
        if len(comp) > 1 and rng.random() < 0.4:  # a sub-pattern: drop one atom if the rest stays anchored+connected
            comp.discard(rng.choice(sorted(comp, key=repr)))
        part = comp | {a for a in anchors if g.adj[a] & comp}
        if rng.random() < 0.25:  # one more recognised neighbour of an anchor
            more = [n for a in part - comp for n in g.adj[a] if n not in g.added and n not in part]
            if more:
                part.add(rng.choice(more))
        keys = sorted(part, key=repr)
        mname = 'CUT%d' % len(lib)
        matoms = []
        for i, k in enumerate(keys):
            a = g.nodes[k]
            if k in comp:
                replace = {'atomname': 'Z%d' % i} if rng.random() < 0.3 else {}
                matoms.append(('m%d' % i, 'M%d' % i, a['element'], True, replace))
            else:
                replace = {'charge': rng.choice([-1, 1])} if rng.random() < 0.2 else {}
                matoms.append(('m%d' % i, a['atomname'], a['element'], False, replace))
        medges = [('m%d' % i, 'm%d' % j) for i, a in enumerate(keys) for j, b in enumerate(keys)
                  if i < j and b in g.adj[a]]
        mod = mk_mod(mname, matoms, medges)
        if mod_order(mod)[0] is None or not any(a[3] for a in mod['atoms']) or all(a[3] for a in mod['atoms']):
            continue
        lib.append(mod)
    rng.shuffle(lib)
    return g, lib, rng.choice([0, 1])


def handcrafted():
    """the shapes the quantifier text lists, written out once (also serve as readable samples)."""
    cases = []
    atoms, edges, sites, _ = skeleton2(0)
    n1, c1, n2, c2 = sites

    def ex(key, element, resid, i):
        return (key, atom('X%d' % i, element, resid, True, 40 + i))

    # N with three H: NH2 + NH (sub-patterns of one another)
    cases.append((G(atoms + [ex(6, 'H', 1, 1), ex(7, 'H', 1, 2), ex(8, 'H', 1, 3)], edges + [(6, n1), (7, n1), (8, n1)]),
                  ['NH', 'NH2']))
    # the same with only NH2 known: 3 atoms cannot be partitioned into pairs
    cases.append((G(atoms + [ex(6, 'H', 1, 1), ex(7, 'H', 1, 2), ex(8, 'H', 1, 3)], edges + [(6, n1), (7, n1), (8, n1)]),
                  ['NH2']))
    # two H on N that are also bonded to each other: NH2 is not induced, NH2r is
    tri = G(atoms + [ex(6, 'H', 1, 1), ex(7, 'H', 1, 2)], edges + [(6, n1), (7, n1), (6, 7)])
    cases += [(tri, ['NH2']), (tri, ['NH2', 'NH2r']), (tri, ['NH', 'NHH'])]
    # N-terminus and C-terminus on a single residue pair; both on the same residue
    cases.append((G(atoms + [ex(6, 'H', 1, 1), ex(7, 'O', 2, 2)], edges + [(6, n1), (7, c2)]), ['NH', 'CO']))
    cases.append((G(atoms + [ex(6, 'H', 1, 1), ex(7, 'O', 1, 2)], edges + [(6, n1), (7, c1)]), ['NH', 'CO']))
    cases.append((G(atoms + [ex(6, 'H', 1, 1), ex(7, 'O', 1, 2), ex(8, 'H', 1, 3)], edges + [(6, n1), (7, c1), (8, 7)]),
                  ['NH', 'CO', 'COH']))
    # spanning two residues: C1-O-O-C2, and a bridge across the peptide bond
    cases.append((G(atoms + [ex(6, 'O', 1, 1), ex(7, 'O', 2, 2)], edges + [(6, c1), (6, 7), (7, c2)]), ['OO', 'CO']))
    cases.append((G(atoms + [ex(6, 'O', 1, 1)], edges + [(6, c1), (6, n2)]), ['CON', 'CONr']))
    cases.append((G(atoms + [ex(6, 'O', 1, 1)], edges + [(6, c1), (6, n2)]), ['CON']))
    # a terminal H on residue 1 plus a bridge from residue 1 to residue 2
    cases.append((G(atoms + [ex(6, 'H', 1, 1), ex(7, 'O', 1, 2)], edges + [(6, n1), (7, c1), (7, n2)]), ['NH', 'CONr']))
    # an unknown branch on residue 1 (removed) and a known bridge using residue 1 afterwards
    cases.append((G(atoms + [ex(6, 'S', 1, 1), ex(7, 'O', 1, 2)], edges + [(6, n1), (7, c1), (7, n2)]), ['NH', 'CONr']))
    cases.append((G([ex(6, 'S', 1, 1)] + atoms + [ex(7, 'O', 2, 2), ex(8, 'O', 1, 3)],
                    edges + [(6, n1), (7, c2), (7, 8), (8, c1)]), ['OO']))
    # an atom matching nothing next to one that is explained, different residues
    cases.append((G(atoms + [ex(6, 'H', 1, 1), ex(7, 'S', 2, 2)], edges + [(6, n1), (7, c2)]), ['NH', 'CO']))
    # unbonded unrecognised atom
    cases.append((G(atoms + [ex(6, 'H', 1, 1)], edges), ['NH']))
    # more anchors than needed
    cases.append((G(atoms + [ex(6, 'H', 2, 1)], edges + [(6, n2)]), ['NHCA']))
    cases.append((G(atoms + [ex(6, 'H', 2, 1)], edges + [(6, n2)]), ['NHCA', 'NH']))
    return [(g, [POOL[n] for n in lib]) for g, lib in cases]


def bounded(tier, seed):
    rng = random.Random(seed)
    quick = tier != 'thorough'
    logging.getLogger('vermouth').addHandler(logging.NullHandler())
    col = Collector('fix_ptm run natively through CanonicalizeModifications on a two-residue skeleton N-CA-C-N-CA-C '
                    'with EVERY way of adding <= %d unrecognised atoms (element H/O, residue 1 or 2, bonded to 1-2 of '
                    'N1 C1 N2 C2 and earlier extra atoms) x %d libraries of <= 5 modifications (sub-patterns, ring vs '
                    'open, bridges, two-anchor variants, empty library), libraries parsed by the real [ modification ] '
                    'parser; dense keys and sparse/unordered keys with unrecognised atoms inserted first; then hand-'
                    'written shapes and seeded random larger molecules (1-3 residues, <= 5 extra atoms, <= 6 modifications, gaps / '
                    'repeated residue numbers, modifications cut out of the molecule). oracle: own induced-placement '
                    'enumeration + brute-force exact cover. non-trivial = unrecognised atoms present and at least one '
                    'library modification has a placement' % (2 if quick else 3, len(EXH_LIBS)), max_violations=50)
    t0 = time.time()
    budget = 42.0 if quick else 720.0
    max_extra = 2 if quick else 3
    n_mol = 0
    complete = True

    def sweep(n_extra, scheme, libs, step, limit):
        """False when the time limit was hit."""
        nonlocal n_mol
        for i, g in enumerate(enumerate_extras(n_extra, scheme)):
            if i % step:
                continue
            n_mol += 1
            for li, names in enumerate(libs):
                check_case(col, g, [POOL[n] for n in names], (li + scheme) % 2, 'exhaustive')
            if time.time() - t0 > limit:
                return False
        return True

    # A: dense keys, really exhaustive (one representative per isomorphism class)
    for n_extra in range(0, 3):
        complete = complete and sweep(n_extra, 0, EXH_LIBS, 1, budget * 0.7)
    n_exh = n_mol
    col.exhaustive = complete
    col.bound = ('%d molecules = every two-residue skeleton + <= 2 extra atoms up to renumbering of the extra atoms '
                 '(dense keys) x %d libraries%s' % (n_exh, len(EXH_LIBS), '' if complete else
                                                     ' -- CUT SHORT by the time budget, not exhaustive'))
    # B: hand-written shapes
    for g, lib in handcrafted():
        for style in (0, 1):
            check_case(col, g, lib, style, 'handwritten')
    # C: the same sweep with sparse unordered keys / unrecognised atoms first (sampled in the quick tier), and
    #    three extra atoms in the thorough tier
    sweep(0, 1, EXH_LIBS, 1, budget * 0.8)
    sweep(1, 1, EXH_LIBS, 1, budget * 0.8)
    sweep(2, 1, EXH_LIBS, 4 if quick else 1, budget * 0.8)
    if not quick:
        if sweep(3, 0, EXH_LIBS[:2], 1, budget * 0.7) and complete:
            col.bound += '; plus every skeleton + 3 extra atoms x the first 2 libraries; plus <= 2 extra atoms with sparse keys'
    n_rand = 0
    max_rand = 3000 if quick else 150000
    while n_rand < max_rand and time.time() - t0 < budget:
        g, lib, style = random_case(rng)
        check_case(col, g, lib, style, 'random seed=%d #%d' % (seed, n_rand))
        n_rand += 1
    res = col.result()
    res['random_cases'] = n_rand
    res['wall'] = round(time.time() - t0, 1)
    return res


def replay_model(function, model):
    """the P layer for C14 works on abstract sets; there is no faithful native replay of its counter-models."""
    return None

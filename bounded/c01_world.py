"""C01 helper: plain-data descriptions of small molecules and mapping sets, and the naive oracle.

Everything in this file is ordinary Python data (dicts, lists, tuples); nothing of vermouth is imported here.
The oracle enumerates mapping placements by brute force and writes down the expected particle list, weights,
bonds, interactions and warnings directly from the statement of property C01.
"""
import itertools

# --------------------------------------------------------------------------- residue types (input side)
RTYPES = {
    'RA': dict(atoms=(('A', 'C'), ('B', 'C'), ('C', 'C')),
               edges=(('A', 'B'), ('B', 'C')),
               units=(('A',), ('B',), ('C',))),
    'RB': dict(atoms=(('A', 'C'), ('B', 'C'), ('C', 'O'), ('D', 'N'), ('HD', 'H')),
               edges=(('A', 'B'), ('B', 'C'), ('B', 'D'), ('D', 'HD')),
               units=(('A',), ('B',), ('C',), ('D', 'HD'))),
}
HEAD, TAIL, SIDE = 'A', 'C', 'B'   # backbone bond TAIL(i)-HEAD(i+1); branches / cross-links start at SIDE


# --------------------------------------------------------------------------- molecules
def number_positions(n, numbering):
    """node key for every position 0..n-1 of the natural (residue by residue) atom order."""
    if numbering == 'identity':
        return list(range(n))
    if numbering == 'reversed':
        return [n - 1 - p for p in range(n)]
    if numbering == 'sparse':
        return [4 + 7 * p for p in range(n)]
    if numbering == 'scrambled':
        prime = 23 if n < 23 else 101
        return [10 + 3 * ((p * 5 + 3) % prime) for p in range(n)]
    raise ValueError(numbering)


def make_mol(seq, links, numbering='identity', resids=None, mods=None, keys=None, rtypes=None):
    """seq: residue type names; links: (i, atom, j, atom) inter-residue bonds; mods: {residue index: mod name}.
    Returns dict(atoms=[...sorted by key...], bonds=[(k1, k2)], meta...)."""
    mods = mods or {}
    rts = rtypes or RTYPES
    resids = list(resids) if resids is not None else list(range(1, len(seq) + 1))
    flat = []
    for i, rt in enumerate(seq):
        for name, elem in rts[rt]['atoms']:
            flat.append((i, name, elem, False))
        if i in mods:
            flat.append((i, 'X', 'P', True))
    if keys is None:
        keys = number_positions(len(flat), numbering)
    key_of = {}
    atoms = []
    for (i, name, elem, ptm), key in zip(flat, keys):
        key_of[(i, name)] = key
        atoms.append(dict(key=key, resid=resids[i], resname=seq[i], atomname=name, element=elem, chain='A',
                          ptm=ptm, mods=[mods[i]] if i in mods else []))
    bonds = []
    for i, rt in enumerate(seq):
        for a, b in rts[rt]['edges']:
            bonds.append((key_of[(i, a)], key_of[(i, b)]))
        if i in mods:
            bonds.append((key_of[(i, TAIL)], key_of[(i, 'X')]))
    for i, a, j, b in links:
        bonds.append((key_of[(i, a)], key_of[(j, b)]))
    atoms.sort(key=lambda at: at['key'])
    return dict(atoms=atoms, bonds=bonds, seq=list(seq), links=[list(l) for l in links], numbering=numbering,
                resids=resids, mods={str(k): v for k, v in mods.items()})


def topologies(n):
    """named sets of inter-residue bonds for n residues."""
    chain = [(i, TAIL, i + 1, HEAD) for i in range(n - 1)]
    if n == 1:
        return {'single': []}
    if n == 2:
        return {'linear': chain, 'double-link': chain + [(0, SIDE, 1, SIDE)], 'apart': []}
    if n == 3:
        return {'linear': chain,
                'branched': [(0, TAIL, 1, HEAD), (0, SIDE, 2, HEAD)],
                'cyclic': chain + [(2, TAIL, 0, HEAD)],
                'cross-linked': chain + [(0, SIDE, 2, SIDE)],
                'apart': [(0, TAIL, 1, HEAD)]}
    out = {'linear': chain,
           'branched': chain[:-1] + [(1, SIDE, n - 1, HEAD)],
           'cyclic': chain + [(n - 1, TAIL, 0, HEAD)],
           'cross-linked': chain + [(0, SIDE, n - 1, SIDE)]}
    return out


# --------------------------------------------------------------------------- mapping shapes
def _from_block(rts):
    """input-side block of one or more residues (resid 1..), consecutive residues bonded TAIL-HEAD."""
    nodes, edges = [], []
    for r, rt in enumerate(rts, start=1):
        sfx = '' if len(rts) == 1 else str(r)
        for name, _ in RTYPES[rt]['atoms']:
            nodes.append((name + sfx, dict(resname=rt, atomname=name, resid=r)))
        for a, b in RTYPES[rt]['edges']:
            edges.append((a + sfx, b + sfx))
        if r > 1:
            edges.append((TAIL + str(r - 1), HEAD + sfx))
    return dict(nodes=nodes, edges=edges)


def _bond(a, b):
    return ('bonds', (a, b), ('1', '0.3', '1000'))


def shape_one2one(rt, out_resname=None):
    out_resname = out_resname or rt
    units = RTYPES[rt]['units']
    w, to_nodes = {}, []
    unit_of = {}
    for unit in units:
        p = 'P' + unit[0]
        to_nodes.append((p, dict(atomname=p, resname=out_resname, resid=1)))
        for a in unit:
            w[a] = {p: 1}
            unit_of[a] = p
    to_edges = []
    for a, b in RTYPES[rt]['edges']:
        if unit_of[a] != unit_of[b]:
            to_edges.append((unit_of[a], unit_of[b]))
    inter = [_bond(a, b) for a, b in to_edges]
    return dict(kind='block', names=(rt,), frm=_from_block([rt]),
                to=dict(nodes=to_nodes, edges=to_edges, inter=inter), w=w, refs={})


def shape_many2one(rt, omit=(), zero=(), virtual=None, ref=None, pname='P'):
    w = {}
    for a, _ in RTYPES[rt]['atoms']:
        if a in omit:
            continue
        w[a] = {pname: 0 if a in zero else 1}
    to_nodes = [(pname, dict(atomname=pname, resname=rt, resid=1))]
    to_edges, inter = [], []
    if virtual is not None:
        to_nodes.append(('V', dict(atomname='V', resname=rt, resid=1)))
        if virtual == 'bonded':
            to_edges.append((pname, 'V'))
        inter.append(('virtual_sitesn', ('V', pname), ('1',)))
    refs = {pname: ref} if ref else {}
    return dict(kind='block', names=(rt,), frm=_from_block([rt]),
                to=dict(nodes=to_nodes, edges=to_edges, inter=inter), w=w, refs=refs)


def shape_shared(rt):
    w = {}
    for a, _ in RTYPES[rt]['atoms']:
        if a == 'A':
            w[a] = {'P1': 1}
        elif a == 'B':
            w[a] = {'P1': 0.5, 'P2': 0.5}
        else:
            w[a] = {'P2': 1}
    to_nodes = [('P1', dict(atomname='P1', resname=rt, resid=1)), ('P2', dict(atomname='P2', resname=rt, resid=1))]
    return dict(kind='block', names=(rt,), frm=_from_block([rt]),
                to=dict(nodes=to_nodes, edges=[('P1', 'P2')], inter=[_bond('P1', 'P2')]), w=w, refs={})


def shape_part(rt, atoms, pname):
    """a mapping that only covers `atoms` of the residue (-> one particle)."""
    w = {a: {pname: 1} for a in atoms}
    return dict(kind='block', names=(rt,), frm=_from_block([rt]),
                to=dict(nodes=[(pname, dict(atomname=pname, resname=rt, resid=1))], edges=[], inter=[]), w=w, refs={})


def shape_pair(rt1, rt2, merged=False):
    """two bonded residues -> two particles in two output residues (or one particle if merged)."""
    frm = _from_block([rt1, rt2])
    w = {}
    for name, attrs in frm['nodes']:
        w[name] = {('Q1' if (attrs['resid'] == 1 or merged) else 'Q2'): 1}
    if merged:
        to = dict(nodes=[('Q1', dict(atomname='Q1', resname='PR', resid=1))], edges=[], inter=[])
    else:
        to = dict(nodes=[('Q1', dict(atomname='Q1', resname='PR', resid=1)),
                         ('Q2', dict(atomname='Q2', resname='PR', resid=2))],
                  edges=[('Q1', 'Q2')], inter=[_bond('Q1', 'Q2')])
    return dict(kind='block', names=(rt1, rt2), frm=frm, to=to, w=w, refs={})


def shape_mod(anchor_particle, new_particle=True, modname='M'):
    """modification mapping: anchor atom TAIL (already mapped by the residue's block) + PTM atom X."""
    frm = dict(nodes=[(TAIL, dict(atomname=TAIL, ptm=False)), ('X', dict(atomname='X', ptm=True))],
               edges=[(TAIL, 'X')])
    if new_particle:
        to = dict(nodes=[(anchor_particle, dict(atomname=anchor_particle, ptm=False)),
                         ('PX', dict(atomname='PX', ptm=True, resname='MOD'))],
                  edges=[(anchor_particle, 'PX')], inter=[_bond(anchor_particle, 'PX')])
        w = {TAIL: {anchor_particle: 1}, 'X': {'PX': 1}}
    else:
        to = dict(nodes=[(anchor_particle, dict(atomname=anchor_particle, ptm=False))], edges=[], inter=[])
        w = {TAIL: {anchor_particle: 1}, 'X': {anchor_particle: 1}}
    return dict(kind='modification', names=(modname,), frm=frm, to=to, w=w, refs={}, modname=modname)


def mapping_sets():
    """name -> {mapping key: mapping description}."""
    sets = {}
    sets['one2one'] = {'RA': shape_one2one('RA'), 'RB': shape_one2one('RB')}
    sets['many2one'] = {'RA': shape_many2one('RA'), 'RB': shape_many2one('RB')}
    sets['shared'] = {'RA': shape_shared('RA'), 'RB': shape_shared('RB')}
    sets['zero-weight'] = {'RA': shape_many2one('RA', zero=(TAIL,)), 'RB': shape_many2one('RB', zero=(HEAD, 'HD'))}
    sets['virtual'] = {'RA': shape_many2one('RA', virtual='bonded'), 'RB': shape_many2one('RB', virtual='free')}
    sets['reference'] = {'RA': shape_many2one('RA', ref='B'), 'RB': shape_many2one('RB', ref='D')}
    sets['partial'] = {'RA': shape_many2one('RA', omit=(TAIL,)), 'RB': shape_many2one('RB', omit=('HD',))}
    sets['missing'] = {'RA': shape_many2one('RA')}
    sets['split'] = {'RAx': shape_part('RA', ('A', 'B'), 'P1'), 'RAy': shape_part('RA', ('B', 'C'), 'P2'),
                     'RB': shape_many2one('RB')}
    sets['double'] = {'RA': shape_one2one('RA'), 'RA2': shape_many2one('RA', pname='W'), 'RB': shape_one2one('RB')}
    sets['pair'] = {'RARB': shape_pair('RA', 'RB')}
    sets['pair+single'] = {'RARB': shape_pair('RA', 'RB', merged=True), 'RA': shape_many2one('RA'),
                           'RB': shape_many2one('RB')}
    sets['pair-same'] = {'RARA': shape_pair('RA', 'RA'), 'RB': shape_many2one('RB')}
    return sets


def mod_mapping_sets():
    sets = {}
    base1 = {'RA': shape_one2one('RA'), 'RB': shape_one2one('RB')}
    base2 = {'RA': shape_many2one('RA'), 'RB': shape_many2one('RB')}
    sets['mod-new/one2one'] = dict(base1, M=shape_mod('PC', True))
    sets['mod-absorb/one2one'] = dict(base1, M=shape_mod('PC', False))
    sets['mod-new/many2one'] = dict(base2, M=shape_mod('P', True))
    sets['mod-absorb/many2one'] = dict(base2, M=shape_mod('P', False))
    sets['mod-unknown/many2one'] = dict(base2)
    return sets


# --------------------------------------------------------------------------- the oracle
def _mapped_from(mspec):
    """input-side block restricted to the atoms the mapping mentions (only those take part in the fit)."""
    keep = [name for name, _ in mspec['frm']['nodes'] if name in mspec['w']]
    attrs = dict(mspec['frm']['nodes'])
    edges = {frozenset(e) for e in mspec['frm']['edges'] if e[0] in mspec['w'] and e[1] in mspec['w']}
    return keep, attrs, edges


def enumerate_placements(mol, mspec):
    """every injective assignment of the mapped block atoms to molecule atoms such that names agree, bonds among the
    chosen atoms are exactly the bonds of the block (induced fit) and bonded atoms are in the same input residue
    exactly when they are in the same block residue. Brute force with early pruning."""
    keep, attrs, fedges = _mapped_from(mspec)
    atoms = {at['key']: at for at in mol['atoms']}
    madj = {frozenset(b) for b in mol['bonds']}
    is_mod = mspec['kind'] == 'modification'

    def compatible(fname, at):
        fa = attrs[fname]
        if fa['atomname'] != at['atomname']:
            return False
        if is_mod:
            return bool(fa['ptm']) == bool(at['ptm']) and mspec['modname'] in at['mods']
        return fa['resname'] == at['resname']

    cands = [[k for k in sorted(atoms) if compatible(f, atoms[k])] for f in keep]
    found = []

    def rec(i, assign):
        if i == len(keep):
            found.append(dict(zip(keep, assign)))
            return
        for k in cands[i]:
            if k in assign:
                continue
            ok = True
            for j in range(i):
                bonded_block = frozenset((keep[j], keep[i])) in fedges
                bonded_mol = frozenset((assign[j], k)) in madj
                if bonded_block != bonded_mol:
                    ok = False
                    break
                if bonded_block and not is_mod:
                    same_block = attrs[keep[j]].get('resid', 1) == attrs[keep[i]].get('resid', 1)
                    same_mol = atoms[assign[j]]['resid'] == atoms[k]['resid']
                    if same_block != same_mol:
                        ok = False
                        break
            if ok:
                rec(i + 1, assign + [k])

    rec(0, [])
    return found


def expected_result(mol, mset, prefer=None):
    """What the statement says the converted molecule looks like. Returns a dict with
    orders: list of candidate particle lists (more than one only if placements tie on their lowest atom key);
    each particle: dict(place, node, atomname, resname, resid, weights, parts, virtual, old_resid, ref)
    plus the list of placements, interactions, and the expected warnings."""
    atoms = {at['key']: at for at in mol['atoms']}
    bonds = {frozenset(b) for b in mol['bonds']}
    placements = []
    for mkey in mset:
        ms = mset[mkey]
        if ms['kind'] != 'block':
            continue
        for fit in enumerate_placements(mol, ms):
            placements.append(dict(mkey=mkey, fit=fit, atoms=frozenset(fit.values()), low=min(fit.values())))
    mod_places = []
    mods_present = {m for at in mol['atoms'] for m in at['mods']}
    known_mods = {ms['modname'] for ms in mset.values() if ms['kind'] == 'modification'}
    for mkey in mset:
        ms = mset[mkey]
        if ms['kind'] != 'modification':
            continue
        for fit in enumerate_placements(mol, ms):
            mod_places.append(dict(mkey=mkey, fit=fit, atoms=frozenset(fit.values())))
    # overlap between block placements
    covered_count = {}
    for pl in placements:
        for k in pl['atoms']:
            covered_count[k] = covered_count.get(k, 0) + 1
    overlap_atoms = {k for k, c in covered_count.items() if c > 1}
    for pl in placements:
        pl['overlapping'] = bool(pl['atoms'] & overlap_atoms)
    covered = set(covered_count)
    for mp in mod_places:
        covered |= mp['atoms']
    uncovered = set(atoms) - covered
    uncovered_heavy = {k for k in uncovered if atoms[k]['element'] != 'H'}
    # candidate orders
    placements.sort(key=lambda pl: (pl['low'], pl['mkey'], sorted(pl['atoms'])))
    groups = [list(g) for _, g in itertools.groupby(placements, key=lambda pl: pl['low'])]
    # placements that tie on their lowest atom key (overlapping placements) may come in either order: the statement
    # does not rank them. Take, group by group, the permutation that agrees with the particle names seen in the output
    # (if any does); everything else about that order is then checked as usual.
    per_group, offset = [], 0
    for grp in groups:
        cands = [list(grp)]
        if len(grp) > 1:
            allp = [list(perm) for perm in itertools.islice(itertools.permutations(grp), 720)]
            if prefer is not None:
                size = sum(len(mset[pl['mkey']]['to']['nodes']) for pl in grp)
                fitting = [perm for perm in allp
                           if [nattrs['atomname'] for pl in perm for _, nattrs in mset[pl['mkey']]['to']['nodes']]
                           == prefer[offset:offset + size]]
                cands = fitting or allp
            else:
                cands = allp
        per_group.append(cands)
        offset += sum(len(mset[pl['mkey']]['to']['nodes']) for pl in grp)
    orders = [[pl for grp in combo for pl in grp] for combo in itertools.islice(itertools.product(*per_group), 256)]
    results = []
    for order in orders:
        particles = []
        inters = []
        last_resid = 0
        for pidx, pl in enumerate(order):
            ms = mset[pl['mkey']]
            fit = pl['fit']
            first = len(particles)
            pos = {}
            for node, nattrs in ms['to']['nodes']:
                weights = {fit[f]: ms['w'][f][node] for f in ms['w'] if node in ms['w'][f]}
                virtual = not weights
                resids_in = {atoms[k]['resid'] for k in (weights if weights else pl['atoms'])}
                pos[node] = len(particles)
                particles.append(dict(place=pidx, node=node, atomname=nattrs['atomname'], resname=nattrs['resname'],
                                      resid=last_resid + nattrs.get('resid', 1), weights=weights, parts=set(weights),
                                      virtual=virtual, all_atoms=set(pl['atoms']),
                                      old_resid=(resids_in.pop() if len(resids_in) == 1 else None),
                                      ref=(fit[ms['refs'][node]] if node in ms['refs'] else None),
                                      overlapping=pl['overlapping'], mkey=pl['mkey']))
            last_resid = particles[-1]['resid']
            pl_edges = {frozenset((pos[a], pos[b])) for a, b in ms['to']['edges']}
            for e in pl_edges:
                inters.append(('edge', e))
            for itype, iatoms, params in ms['to']['inter']:
                inters.append((itype, tuple(pos[a] for a in iatoms), tuple(params)))
        results.append(dict(particles=particles, items=inters, order=order))
    return dict(results=results, placements=placements, mod_places=mod_places, uncovered=uncovered,
                uncovered_heavy=uncovered_heavy, overlap=bool(overlap_atoms), atoms=atoms, bonds=bonds,
                unknown_mods=mods_present - known_mods)

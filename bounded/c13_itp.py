"""C13 bounded stand-in, .itp part: GROMACS topology files with several [moleculetype]s are written from a random
declaration, read with vermouth.gmx.itp_read.read_itp and compared with the declaration; faults injected."""
import time
import zlib

from . import c13_ff as F

# section -> which whitespace-separated columns are atoms (GROMACS topology format); the rest are parameters
ATOM_COLUMNS = {'bonds': 2, 'pairs': 2, 'pairs_nb': 2, 'angles': 3, 'dihedrals': 4, 'constraints': 2, 'settles': 1,
                'virtual_sites2': 3, 'virtual_sites3': 4, 'virtual_sites4': 5, 'position_restraints': 1,
                'distance_restraints': 2, 'dihedral_restraints': 4, 'orientation_restraints': 2, 'angle_restraints': 4,
                'angle_restraints_z': 2}
SPECIAL = ('exclusions', 'virtual_sitesn')
ATYPES = ['P5', 'C1', 'Qd', 'OW', 'opls_116']
PARAMS = ['1', '2', '0.47', '5000', '0.0', '120', '-1.5', '1e3']


def gen_molecule(rng, name, lines, state):
    """append the lines of one molecule to `lines` ([text, kind, info]); return the expectation.
    `state` carries the open #ifdef across section (and molecule) boundaries."""
    nrexcl = rng.randint(0, 3)
    natoms = rng.randint(1, 6)
    exp = dict(name=name, nrexcl=nrexcl, nodes=[], interactions={})

    def emit(text, kind, **info):
        if rng.random() < 0.1:
            text += rng.choice([' ; comment', ';x', ' ; [ bonds ]'])
        lines.append([text, kind, info])
        if rng.random() < 0.06:
            lines.append([rng.choice(['', '; only a comment', '#define FLEXIBLE', '#define X 1']), 'blank', {}])

    def header(sec, top=False):
        emit(rng.choice(['[ %s ]', '[%s]', '[ %s]', '[%s ]']) % sec, 'header_top' if top else 'header_sub', name=sec)

    def pragma():
        """maybe open / flip / close a conditional block."""
        r = rng.random()
        if state['open'] is None:
            if r < 0.18:
                cond, tag = rng.choice(['ifdef', 'ifndef']), rng.choice(['FLEXIBLE', 'POSRES', 'X'])
                emit('#%s %s' % (cond, tag), 'pragma')
                state['open'] = [cond, tag, False]
        elif r < 0.25 and not state['open'][2]:
            emit('#else', 'pragma')
            cond, tag, _ = state['open']
            state['open'] = ['ifndef' if cond == 'ifdef' else 'ifdef', tag, True]
        elif r < 0.6:
            emit('#endif', 'pragma')
            state['open'] = None

    header('moleculetype', top=True)
    emit('%s %d' % (name, nrexcl), 'mol_name')
    header('atoms')
    for i in range(1, natoms + 1):
        atype, resid, resname, an, cg = rng.choice(ATYPES), rng.randint(1, 3), rng.choice(['ALA', 'SOL', 'POPC']), \
            rng.choice(['BB', 'SC1', 'OW', 'HW1', 'CA', 'N']) + rng.choice(['', '1', '2']), rng.randint(1, natoms)
        fields = [str(i), atype, str(resid), resname, an, str(cg)]
        attrs = dict(atomname=an, atype=atype, resname=resname, resid=resid, charge_group=cg)
        if rng.random() < 0.7:
            charge = rng.choice(['0', '0.0', '-1', '0.41', '1.0'])
            fields.append(charge)
            attrs['charge'] = float(charge)
            if rng.random() < 0.6:
                mass = rng.choice(['72', '15.9994', '1.008'])
                fields.append(mass)
                attrs['mass'] = float(mass)
        emit(rng.choice([' ', '\t', '   ']).join(fields), 'atom', mol=name, index=i)
        exp['nodes'].append([i - 1, attrs])
    fitting = [s for s, k in ATOM_COLUMNS.items() if k <= natoms] + (list(SPECIAL) if natoms >= 2 else [])
    for _ in range(rng.randint(0, 4)):
        sec = rng.choice(fitting)
        if rng.random() < 0.3:
            pragma()
        header(sec)
        for _ in range(rng.randint(1, 3)):
            if rng.random() < 0.25:
                pragma()
            if sec == 'exclusions':
                ids = rng.sample(range(1, natoms + 1), rng.randint(2, min(4, natoms)))
                toks, atoms, params = [str(i) for i in ids], ids, []
            elif sec == 'virtual_sitesn':
                ids = rng.sample(range(1, natoms + 1), rng.randint(2, min(4, natoms)))
                funct = rng.choice(['1', '2'])
                toks, atoms, params = [str(ids[0]), funct] + [str(i) for i in ids[1:]], ids, [funct]
            else:
                ids = rng.sample(range(1, natoms + 1), ATOM_COLUMNS[sec])
                params = [rng.choice(PARAMS) for _ in range(rng.randint(0, 4))]
                toks, atoms = [str(i) for i in ids] + params, ids
            emit(rng.choice([' ', '  ', '\t']).join(toks), 'interaction', sec=sec, ncols=ATOM_COLUMNS.get(sec), natoms=natoms,
                 toks=toks)
            meta = {} if state['open'] is None else {state['open'][0]: state['open'][1]}
            exp['interactions'].setdefault(sec, []).append([[i - 1 for i in atoms], params, meta])
    return exp


def gen_file(rng, nmol):
    lines, exps = [], []
    state = dict(open=None)
    names = rng.sample(['SOL', 'POPC', 'Protein_A', 'NA', 'CHOL', 'mol_6'], nmol)
    for name in names:
        exps.append(gen_molecule(rng, name, lines, state))
    if state['open'] is not None:
        lines.append(['#endif', 'pragma', {}])
    return lines, exps


def load(text):
    from vermouth.forcefield import ForceField
    from vermouth.gmx.itp_read import read_itp
    ff = ForceField(name='c13itp')
    read_itp(list(text), ff)
    return ff


def check(col, lines, exps, tag):
    text = [ln[0] for ln in lines]
    found = []

    def report(key, function, what, observed, expected):
        found.append(key)
        col.violation(key, function, what + ' (%s)' % tag, dict(format='.itp', file=text), observed, expected)

    try:
        ff = load(text)
    except Exception as exc:
        report('read_itp/rejects-well-formed', 'ITPDirector', 'a well-formed file was rejected',
               '%s: %s <- %r' % (type(exc).__name__, exc, exc.__cause__), 'loads')
        ff = None
    if ff is not None:
        if list(ff.blocks) != [e['name'] for e in exps]:
            report('read_itp/molecules-exactly-once-in-order', 'ITPDirector.finalize_section', 'declared molecules are not loaded once each in file order',
                   list(ff.blocks), [e['name'] for e in exps])
        else:
            for exp in exps:
                blk = ff.blocks[exp['name']]
                if (blk.name, blk.nrexcl) != (exp['name'], exp['nrexcl']):
                    report('read_itp/molecule-header', 'ITPDirector._block', 'name / nrexcl differ', [blk.name, blk.nrexcl], [exp['name'], exp['nrexcl']])
                got_nodes = [[k, {a: v for a, v in blk.nodes[k].items() if a != 'index'}] for k in blk.nodes]
                if F.canon(got_nodes) != F.canon(exp['nodes']):
                    report('read_itp/atoms', 'ITPDirector._parse_block_atom', 'atoms differ from the declaration', F.norm(got_nodes), F.norm(exp['nodes']))
                got = F.obs_interactions(blk.interactions)
                for sec in sorted(set(got) | set(exp['interactions'])):
                    if F.canon(got.get(sec, [])) != F.canon(exp['interactions'].get(sec, [])):
                        report('read_itp/interactions/' + sec, 'ITPDirector._base_parser',
                               'interactions of [%s] (atoms, parameters, #ifdef metadata, order) differ' % sec,
                               got.get(sec, []), exp['interactions'].get(sec, []))
    col.case(('itp', zlib.crc32('\n'.join(text).encode())), len(exps) >= 2,
             dict(kind='.itp round trip', molecules=[e['name'] for e in exps], lines=len(text), violations=found))
    return ff is not None and not found


def faults(rng, lines, every_position):
    text = [ln[0] for ln in lines]
    n = len(lines)
    # an unknown section may not be placed inside an open #ifdef ... (it would still have to be rejected, fine)
    for pos in (range(n + 1) if every_position else rng.sample(range(n + 1), min(3, n + 1))):
        for bogus in (['[ defaults ]', '1 2 yes 1.0 1.0'], ['[ bogus ]', 'x y']):
            yield ('unknown-section', bogus[0].strip('[ ]'), 'SectionLineParser.parse_section', 'pos %d' % pos, text[:pos] + bogus + text[pos:])
    atom_lines = {}
    for idx, (t, kind, info) in enumerate(lines):
        if kind == 'atom':
            atom_lines.setdefault(info['mol'], []).append(idx)
    for idx, (t, kind, info) in enumerate(lines):
        if kind == 'atom':
            for src in atom_lines[info['mol']]:
                if src <= idx and (every_position or rng.random() < 0.3):
                    yield ('duplicate-block-atom', 'itp', 'ITPDirector._parse_block_atom', 'line %d repeated after line %d' % (src + 1, idx + 1),
                           text[:idx + 1] + [lines[src][0]] + text[idx + 1:])
        if kind == 'interaction':
            toks = info['toks']
            sec = info['sec']
            ncols = info['ncols']
            if sec == 'exclusions':
                atom_positions = list(range(len(toks)))
            elif sec == 'virtual_sitesn':
                atom_positions = [0] + list(range(2, len(toks)))
            else:
                atom_positions = list(range(ncols))
            for variant, ref in (('index-high', str(info['natoms'] + 1)), ('index-zero', '0'), ('name', 'BB')):
                for at in (atom_positions if every_position else [rng.choice(atom_positions)]):
                    yield ('undefined-block-atom', variant, 'ITPDirector._treat_block_interaction_atoms',
                           'line %d column %d -> %s' % (idx + 1, at + 1, ref),
                           text[:idx] + [' '.join(toks[:at] + [ref] + toks[at + 1:])] + text[idx + 1:])
            if ncols is not None:
                for k in range(1, ncols):
                    yield ('wrong-atom-count', 'few', 'ITPDirector._split_atoms_and_parameters', 'line %d [%s]: only %d atoms' % (idx + 1, sec, k),
                           text[:idx] + [' '.join(toks[:k])] + text[idx + 1:])
        if kind in ('atom', 'interaction'):
            toks = t.split(';')[0].split()
            for spot in (range(len(toks) + 1) if every_position else [rng.randrange(len(toks) + 1)]):
                for brace in '{}':
                    yield ('unbalanced-braces', 'inserted', '_tokenize', 'line %d: lone %s at token %d' % (idx + 1, brace, spot),
                           text[:idx] + [' '.join(toks[:spot] + [brace] + toks[spot:])] + text[idx + 1:])


def run(col, rng, quick, end):
    pool = []
    # every number of molecules 1..4, several bodies each; then random
    n = 0
    gen_end = time.time() + 0.5 * (end - time.time())
    while time.time() < gen_end and n < (300 if quick else 8000):
        nmol = 1 + n % 4
        lines, exps = gen_file(rng, nmol)
        ok = check(col, lines, exps, '%d molecules' % nmol)
        if ok and n % 3 == 0:
            pool.append(lines)
        n += 1
    pool.sort(key=len)
    for k, lines in enumerate(pool):
        if time.time() > end:
            break
        for fault, variant, function, where, text in faults(rng, lines, every_position=(k < 5 or k % 5 == 0)):
            if time.time() > end:
                break
            try:
                load(text)
                accepted = True
            except Exception:
                accepted = False
            col.case(('itp-fault', fault, variant, zlib.crc32('\n'.join(text).encode())), True)
            if accepted:
                key = 'read_itp/fault-accepted/%s/%s' % (fault, variant)
                col.violation(key, function, 'a file with the fault "%s" (%s; %s) was loaded instead of rejected' % (fault, variant, where),
                              dict(format='.itp', file=text), 'loaded without error', 'an error')

"""C18 bounded stand-in: the real Go pipeline of /repo runs natively on small systems; the result is compared with an
oracle written from the property statement (site per backbone particle; Go pair <=> symmetric contact, residue-graph
separation, cut-off window; sigma/epsilon; exclusion)."""
import itertools
import logging
import math
import os
import random
import shutil
import tempfile
from .common import Collector, REPO, load_cli  # noqa: F401  (REPO import makes common.py set up sys.path)

SIXTH = 2.0 ** (1.0 / 6.0)


# --------------------------------------------------------------------------------------------------------------------
# input description (plain data, JSON-able)
# --------------------------------------------------------------------------------------------------------------------
# spec = dict(
#   molecules=[ dict(keys=[...] or None,                       # node keys of this molecule (None: 0..n-1)
#                    residues=[ dict(chain, old, resid, resname, beads=[(atomname, atype, (x,y,z)), ...]) ... ],
#                    links=[ ((res_i, bead_j), (res_k, bead_l)), ... ]) ... ],   # extra edges (disulfide-like)
#   contacts=[(old_resid, chain, old_resid, chain), ...],
#   short, long, eps, res_dist, moltype, backbone, vsname)
# Consecutive residues of the same chain inside a molecule are bonded backbone-to-backbone (first bead of each
# residue), beads of a residue are bonded to the residue's first bead.


def flat_atoms(spec):
    """list of (mol_idx, res_idx_in_mol, bead_idx, residue dict, bead tuple) in the order the atoms are given."""
    out = []
    for mi, mol in enumerate(spec['molecules']):
        for ri, res in enumerate(mol['residues']):
            for bi, bead in enumerate(res['beads']):
                out.append((mi, ri, bi, res, bead))
    return out


def residue_ids(spec):
    """global list of residue identities (chain, input resid), in input order."""
    return [(res['chain'], res['old']) for mol in spec['molecules'] for res in mol['residues']]


def residue_adjacency(spec):
    """residue-level adjacency from the bonds of the input, keyed by global residue index."""
    adj = {}
    base = 0
    for mol in spec['molecules']:
        n = len(mol['residues'])
        for ri in range(n):
            adj.setdefault(base + ri, set())
        for ri in range(n - 1):
            a, b = mol['residues'][ri], mol['residues'][ri + 1]
            if a['chain'] == b['chain'] and a['beads'] and b['beads']:
                adj[base + ri].add(base + ri + 1)
                adj[base + ri + 1].add(base + ri)
        for (r1, _b1), (r2, _b2) in mol.get('links', ()):
            if r1 != r2:
                adj[base + r1].add(base + r2)
                adj[base + r2].add(base + r1)
        base += n
    return adj


def graph_distance(adj, a, b):
    """plain breadth-first search; math.inf when there is no path."""
    if a == b:
        return 0
    seen = {a}
    frontier = [a]
    d = 0
    while frontier:
        d += 1
        nxt = []
        for u in frontier:
            for v in adj[u]:
                if v == b:
                    return d
                if v not in seen:
                    seen.add(v)
                    nxt.append(v)
        frontier = nxt
    return math.inf


def backbone_position(spec, gres):
    """position of the (single) backbone bead of global residue gres, or None."""
    i = 0
    for mol in spec['molecules']:
        for res in mol['residues']:
            if i == gres:
                found = [b[2] for b in res['beads'] if b[0] == spec['backbone']]
                return found[0] if len(found) == 1 else None
            i += 1
    return None


def oracle_verdicts(spec):
    """{frozenset({residue id A, residue id B}): (listed both ways, far enough, inside window, distance)} for every
    pair of residues of the molecule that both have a backbone particle - straight from the statement, pair by pair."""
    ids = residue_ids(spec)
    listed = set()
    for ra, ca, rb, cb in spec['contacts']:
        listed.add(((ca, ra), (cb, rb)))
    adj = residue_adjacency(spec)
    out = {}
    for i, j in itertools.combinations(range(len(ids)), 2):
        a, b = ids[i], ids[j]
        pa, pb = backbone_position(spec, i), backbone_position(spec, j)
        if pa is None or pb is None:
            continue
        d = math.sqrt(sum((x - y) ** 2 for x, y in zip(pa, pb)))
        out[frozenset((a, b))] = ((a, b) in listed and (b, a) in listed,
                                  graph_distance(adj, i, j) > spec['res_dist'],
                                  spec['short'] < d < spec['long'],
                                  d)
    return out


def oracle_pairs(spec):
    """{residue pair: distance} of the pairs that must have a Go potential."""
    return {pair: v[3] for pair, v in oracle_verdicts(spec).items() if v[0] and v[1] and v[2]}


def well_posed(spec):
    """inputs for which the statement determines the answer."""
    ids = residue_ids(spec)
    if len(set(ids)) != len(ids):
        return False                    # a contact could not tell the residues apart
    if len(set(spec['contacts'])) != len(spec['contacts']):
        return False                    # 'without repeated entries'
    if spec['backbone'] == spec['vsname']:
        return False
    if spec['res_dist'] < 0:
        return False
    idset = set(ids)
    nbb = {}
    for mol in spec['molecules']:
        for res in mol['residues']:
            nbb[(res['chain'], res['old'])] = sum(1 for b in res['beads'] if b[0] == spec['backbone'])
    for ra, ca, rb, cb in spec['contacts']:
        if (ca, ra) == (cb, rb):
            return False                # a residue in contact with itself: not a pair of residues
        for rid in ((ca, ra), (cb, rb)):
            if rid in idset and nbb[rid] != 1:
                return False            # no backbone distance defined
    # floating point: a distance within rounding of a cut-off is only decided when it is exactly representable
    for i, j in itertools.combinations(range(len(ids)), 2):
        pa, pb = backbone_position(spec, i), backbone_position(spec, j)
        if pa is None or pb is None:
            continue
        d = math.sqrt(sum((x - y) ** 2 for x, y in zip(pa, pb)))
        for c in (spec['short'], spec['long']):
            if d != c and abs(d - c) < 1e-9:
                return False
    return True


# --------------------------------------------------------------------------------------------------------------------
# running the real code
# --------------------------------------------------------------------------------------------------------------------
_FF = None


def build_system(spec):
    import numpy as np
    import vermouth
    from vermouth.forcefield import ForceField
    global _FF
    if _FF is None:
        _FF = ForceField(name='c18ff')
    system = vermouth.System(force_field=_FF)
    tag = 0
    for mol in spec['molecules']:
        m = vermouth.Molecule(force_field=_FF, nrexcl=1)
        natoms = sum(len(r['beads']) for r in mol['residues'])
        keys = mol.get('keys') or list(range(natoms))
        k = 0
        first = {}
        node_of = {}
        cg = 0
        for ri, res in enumerate(mol['residues']):
            for bi, (aname, atype, pos) in enumerate(res['beads']):
                cg += 1
                attrs = dict(atomname=aname, atype=atype, resname=res['resname'], resid=res['resid'],
                             _old_resid=res['old'], chain=res['chain'], position=np.array(pos, dtype=float),
                             mass=72.0, charge=0.0, c18_tag=tag)
                if mol.get('charge_groups', True):
                    attrs['charge_group'] = cg
                m.add_node(keys[k], **attrs)
                node_of[(ri, bi)] = keys[k]
                if bi == 0:
                    first[ri] = keys[k]
                else:
                    m.add_edge(first[ri], keys[k])
                k += 1
                tag += 1
        for ri in range(len(mol['residues']) - 1):
            a, b = mol['residues'][ri], mol['residues'][ri + 1]
            if a['chain'] == b['chain'] and ri in first and ri + 1 in first:
                m.add_edge(first[ri], first[ri + 1])
        for e1, e2 in mol.get('links', ()):
            m.add_edge(node_of[tuple(e1)], node_of[tuple(e2)])
        system.add_molecule(m)
    system.go_params['go_map'] = [[tuple(c) for c in spec['contacts']]]
    return system


def run_real(spec):
    from vermouth.rcsu.go_pipeline import GoPipeline
    system = build_system(spec)
    GoPipeline.run_system(system, moltype=spec['moltype'], cutoff_short=spec['short'], cutoff_long=spec['long'],
                          go_eps=spec['eps'], res_dist=spec['res_dist'], go_anchor_bead=spec['backbone'],
                          go_atomname=spec['vsname'])
    return system


# --------------------------------------------------------------------------------------------------------------------
# comparison
# --------------------------------------------------------------------------------------------------------------------
F_VS = 'VirtualSiteCreator.add_virtual_sites'
F_SEL = 'ComputeStructuralGoBias.contact_selector'
F_INT = 'ComputeStructuralGoBias.compute_go_interaction'


def jsonable(spec):
    s = dict(spec)
    s['contacts'] = [list(c) for c in spec['contacts']]
    return s


def check_sites(col, spec, system):
    """virtual-site clauses. returns {residue id: (site node, site atype, backbone node)} or None when broken."""
    inp = jsonable(spec)
    if len(system.molecules) != 1:
        col.violation('GoPipeline.run_system/one-molecule', 'GoProcessorPipeline.prepare_run',
                      'the system is not one merged molecule afterwards', inp, len(system.molecules), 1)
        return None
    mol = system.molecules[0]
    atoms = flat_atoms(spec)
    order = list(mol.nodes)
    originals = [n for n in order if 'c18_tag' in mol.nodes[n]]
    sites = [n for n in order if 'c18_tag' not in mol.nodes[n]]
    tags = [mol.nodes[n]['c18_tag'] for n in originals]
    if sorted(tags) != list(range(len(atoms))):
        col.violation('add_virtual_sites/existing-atoms-kept', F_VS, 'the existing atoms are not all there exactly once',
                      inp, sorted(tags), list(range(len(atoms))))
        return None
    # frame: existing atoms keep identity, name and place
    for n in originals:
        a = mol.nodes[n]
        _mi, _ri, _bi, res, bead = atoms[a['c18_tag']]
        got = (a.get('atomname'), a.get('resname'), a.get('chain'), a.get('_old_resid'), a.get('atype'),
               tuple(float(x) for x in a['position']), a.get('mass'), a.get('charge'))
        exp = (bead[0], res['resname'], res['chain'], res['old'], bead[1], tuple(float(x) for x in bead[2]), 72.0, 0.0)
        if got != exp:
            col.violation('add_virtual_sites/existing-atoms-unchanged', F_VS, 'an existing atom was modified', inp,
                          list(got), list(exp))
            return None
    bbs = [n for n in originals if mol.nodes[n].get('atomname') == spec['backbone']]
    # count
    if len(sites) != len(bbs):
        col.violation('add_virtual_sites/one-site-per-backbone', F_VS, 'number of new particles differs from the number '
                      'of backbone particles', inp, len(sites), len(bbs))
        return None
    if not sites:
        return {}
    # placement after all existing atoms: by key and by position in the atom order
    if originals and not (min(sites) > max(originals)):
        col.violation('add_virtual_sites/after-existing-atoms', F_VS, 'a site has a key that is not above every '
                      'existing atom', inp, dict(sites=sites, atoms=originals), 'all site keys > all atom keys')
    first_site = min(order.index(s) for s in sites)
    last_atom = max(order.index(o) for o in originals)
    if first_site < last_atom:
        col.violation('add_virtual_sites/after-existing-atoms', F_VS, 'a site precedes an existing atom in the atom order',
                      inp, order, 'all sites after all atoms')
    # construction: one virtual_sitesn per site, built from exactly one backbone particle
    built_from = {}
    vs_inters = mol.interactions.get('virtual_sitesn', [])
    for inter in vs_inters:
        at = list(inter.atoms)
        if not at or at[0] not in sites:
            col.violation('add_virtual_sites/construction', F_VS, 'a virtual_sitesn entry does not define one of the sites',
                          inp, at, 'first atom is a new site')
            return None
        if at[0] in built_from:
            col.violation('add_virtual_sites/construction', F_VS, 'a site is defined twice', inp, at, 'once')
            return None
        built_from[at[0]] = at[1:]
    site_of_bb = {}
    for s in sites:
        src = built_from.get(s)
        if src is None or len(src) != 1 or src[0] not in bbs:
            col.violation('add_virtual_sites/construction', F_VS, 'a site is not constructed from exactly one backbone '
                          'particle', inp, dict(site=s, constructed_from=src), 'one backbone particle')
            return None
        if src[0] in site_of_bb:
            col.violation('add_virtual_sites/one-site-per-backbone', F_VS, 'two sites are built on the same backbone '
                          'particle', inp, dict(backbone=src[0], sites=[site_of_bb[src[0]], s]), 'one each')
            return None
        site_of_bb[src[0]] = s
    # attributes of each site
    result = {}
    types = []
    for bb, s in site_of_bb.items():
        a, b = mol.nodes[s], mol.nodes[bb]
        for attr in ('resid', 'resname', 'chain', '_old_resid'):
            if a.get(attr) != b.get(attr) or attr not in a:
                col.violation('add_virtual_sites/residue-identity', F_VS, 'site does not carry %s of its backbone '
                              'particle' % attr, inp, a.get(attr), b.get(attr))
                return None
        pa = a.get('position')
        if pa is None or tuple(float(x) for x in pa) != tuple(float(x) for x in b['position']):
            col.violation('add_virtual_sites/co-located', F_VS, 'site is not at the position of its backbone particle',
                          inp, None if pa is None else [float(x) for x in pa], [float(x) for x in b['position']])
            return None
        if a.get('mass') != 0 or a.get('mass') is None:
            col.violation('add_virtual_sites/zero-mass', F_VS, 'site mass is not zero', inp, a.get('mass'), 0.0)
        if a.get('charge') != 0 or a.get('charge') is None:
            col.violation('add_virtual_sites/zero-charge', F_VS, 'site charge is not zero', inp, a.get('charge'), 0)
        if a.get('atomname') != spec['vsname']:
            col.violation('add_virtual_sites/atomname', F_VS, 'site does not have the requested atom name', inp,
                          a.get('atomname'), spec['vsname'])
        want = '%s_%s' % (spec['moltype'], b.get('resid'))
        if a.get('atype') != want:
            col.violation('add_virtual_sites/type-name', F_VS, 'site type is not <molecule name>_<resid>', inp,
                          a.get('atype'), want)
        types.append(a.get('atype'))
        result[(b.get('chain'), b.get('_old_resid'))] = (s, a.get('atype'), bb)
    if len(set(types)) != len(types):
        col.violation('add_virtual_sites/type-unique', F_VS, 'two sites share a type', inp, sorted(map(str, types)),
                      'all distinct')
        return None
    # declared: one atomtype record per site
    declared = [at.node for at in system.gmx_topology_params['atomtypes'] if at.molecule is mol]
    foreign = [at.node for at in system.gmx_topology_params['atomtypes'] if at.molecule is not mol]
    if sorted(declared) != sorted(sites) or foreign:
        col.violation('add_virtual_sites/atomtype-record', F_VS, 'the atom type records do not list every site once',
                      inp, dict(nodes=sorted(declared), other_molecule=len(foreign)), sorted(sites))
    return result


def check_pairs(col, spec, system, sites):
    inp = jsonable(spec)
    mol = system.molecules[0]
    exp = oracle_pairs(spec)
    res_of_type = {atype: rid for rid, (_s, atype, _bb) in sites.items()}
    got = {}
    ok = True
    for nb in system.gmx_topology_params['nonbond_params']:
        atoms = tuple(nb.atoms)
        if len(atoms) != 2 or any(a not in res_of_type for a in atoms):
            col.violation('contact_selector/types-are-go-sites', F_SEL, 'a Go pair potential is not between the '
                          'types of two Go sites', inp, list(atoms), 'two of %s' % sorted(res_of_type))
            ok = False
            continue
        key = frozenset(res_of_type[a] for a in atoms)
        if len(key) != 2:
            col.violation('contact_selector/self-pair', F_SEL, 'a Go pair potential of a residue with itself', inp,
                          list(atoms), 'two residues')
            ok = False
            continue
        if key in got:
            col.violation('contact_selector/pair-once', F_SEL, 'the same residue pair has two Go pair potentials', inp,
                          sorted(map(list, key)), 'one potential')
            ok = False
            continue
        got[key] = nb
    if not ok:
        return exp, False

    verdicts = oracle_verdicts(spec)

    def classify(pair):
        """which of the three filters says no for this pair (for the key of an 'extra pair' violation)."""
        v = verdicts.get(pair)
        if v is None:
            return 'no-backbone'
        if not v[0]:
            return 'not-symmetric'
        if not v[1]:
            return 'graph-separation'
        return 'cutoff-window'

    for pair in sorted(set(got) - set(exp), key=lambda p: sorted(map(repr, p))):
        why = classify(pair)
        col.violation('contact_selector/extra-pair/' + why, F_SEL, 'a Go pair potential exists although the statement '
                      'excludes the pair (%s)' % why, inp, sorted(map(list, pair)),
                      dict(expected_pairs=[sorted(map(list, p)) for p in exp]))
    for pair in sorted(set(exp) - set(got), key=lambda p: sorted(map(repr, p))):
        col.violation('contact_selector/missing-pair', F_SEL, 'a contact listed in both directions, far enough along '
                      'the residue graph and inside the cut-off window has no Go pair potential', inp,
                      sorted(map(list, pair)), dict(expected_pairs=[sorted(map(list, p)) for p in exp],
                                                    observed_pairs=[sorted(map(list, p)) for p in got]))
    excl = set()
    for inter in mol.interactions.get('exclusions', []):
        at = list(inter.atoms)
        for x, y in itertools.combinations(at, 2):
            excl.add(frozenset((x, y)))
    for pair in set(exp) & set(got):
        nb = got[pair]
        d = exp[pair]
        want = d / SIXTH
        if not (isinstance(nb.sigma, (int, float)) or hasattr(nb.sigma, '__float__')) or \
                abs(float(nb.sigma) - want) > 1e-9 * max(1.0, abs(want)):
            col.violation('compute_go_interaction/sigma', F_INT, 'sigma is not distance / 2^(1/6)', inp,
                          float(nb.sigma), want)
        if nb.epsilon != spec['eps']:
            col.violation('compute_go_interaction/epsilon', F_INT, 'the depth is not the requested one', inp,
                          nb.epsilon, spec['eps'])
        a, b = tuple(pair)
        bba, bbb = sites[a][2], sites[b][2]
        if frozenset((bba, bbb)) not in excl:
            col.violation('contact_selector/exclusion', F_SEL, 'the two backbone particles of a Go pair are not '
                          'excluded from each other', inp,
                          [list(i.atoms) for i in mol.interactions.get('exclusions', [])], [bba, bbb])
    return exp, True


def parse_itp(path, section):
    """independent mini-reader: token lists of the data lines of one directive."""
    rows = []
    cur = None
    with open(path) as fh:
        for line in fh:
            line = line.split(';')[0].strip()
            if not line or line.startswith('#'):
                continue
            if line.startswith('['):
                cur = line.strip('[] \t')
                continue
            if cur == section:
                rows.append(line.split())
    return rows


def check_written(col, spec, system, sites, exp):
    """what ends up in the written parameter files (anchor gmx/topology.py)."""
    from vermouth.gmx.topology import write_atomtypes, write_nonbond_params
    from vermouth.file_writer import DeferredFileWriter
    inp = jsonable(spec)
    tmp = tempfile.mkdtemp(prefix='c18_')
    try:
        p1 = os.path.join(tmp, 'at.itp')
        p2 = os.path.join(tmp, 'nb.itp')
        write_atomtypes(system, p1)
        write_nonbond_params(system, p2)
        DeferredFileWriter().write()
        rows = parse_itp(p1, 'atomtypes')
        got = sorted((r[0], float(r[1]), float(r[2])) for r in rows)
        want = sorted((atype, 0.0, 0.0) for (_s, atype, _bb) in sites.values())
        if got != want:
            col.violation('write_atomtypes/site-types', 'write_atomtypes', 'written atom types are not one zero-mass '
                          'zero-charge line per site', inp, got, want)
        rows = parse_itp(p2, 'nonbond_params')
        got = sorted((tuple(sorted(r[:2])), float(r[3]), float(r[4])) for r in rows)
        want = sorted((tuple(sorted((sites[a][1], sites[b][1]))), d / SIXTH, float(spec['eps']))
                      for (a, b), d in ((tuple(p), d) for p, d in exp.items()))
        same = len(got) == len(want) and all(g[0] == w[0] and abs(g[1] - w[1]) <= 1e-7 and abs(g[2] - w[2]) <= 1e-7
                                             for g, w in zip(got, want))
        if not same:
            col.violation('write_nonbond_params/go-pairs', 'write_nonbond_params', 'written pair potentials differ from '
                          'the expected Go pairs (8 decimals)', inp, got, want)
    finally:
        shutil.rmtree(tmp, ignore_errors=True)


def evaluate(spec, written=False):
    """run the real pipeline on one input; returns (violations, non-trivial, expected pairs) without side effects."""
    sub = Collector('scratch')
    inp = jsonable(spec)
    try:
        system = run_real(spec)
    except SystemExit as err:
        sub.violation('GoPipeline.run_system/exit', F_SEL, 'the pipeline exits on a well-posed input', inp,
                      'SystemExit(%r)' % (err.code,), 'a result')
        return sub.violations, True, None
    except Exception as err:  # pylint: disable=broad-except
        sub.violation('GoPipeline.run_system/raises/%s' % type(err).__name__, 'GoProcessorPipeline.run_system',
                      'the pipeline raises on a well-posed input', inp, '%s: %s' % (type(err).__name__, err), 'a result')
        return sub.violations, True, None
    sites = check_sites(sub, spec, system)
    exp = None
    if sites is not None:
        exp, comparable = check_pairs(sub, spec, system, sites)
        if written and comparable:
            check_written(sub, spec, system, sites, exp)
    listed = {((ca, ra), (cb, rb)) for ra, ca, rb, cb in spec['contacts']}
    nontrivial = bool(exp) or any((b, a) in listed for a, b in listed)
    return sub.violations, nontrivial, exp


def reductions(spec):
    """smaller variants of an input (for reporting a small reproducer)."""
    for i in range(len(spec['contacts'])):
        yield dict(spec, contacts=spec['contacts'][:i] + spec['contacts'][i + 1:])
    mols = spec['molecules']
    if len(mols) > 1:
        for m in range(len(mols)):
            yield dict(spec, molecules=mols[:m] + mols[m + 1:])
    for m, mol in enumerate(mols):
        def with_mol(new):
            return dict(spec, molecules=mols[:m] + [new] + mols[m + 1:])
        links = [tuple(map(tuple, l)) for l in mol.get('links', ())]
        for i in range(len(links)):
            yield with_mol(dict(mol, links=links[:i] + links[i + 1:]))
        if mol.get('keys'):
            yield with_mol(dict(mol, keys=None))
        nres = len(mol['residues'])
        for r in range(nres):
            if nres == 1:
                break
            keep = [l for l in links if l[0][0] != r and l[1][0] != r]
            keep = [tuple((ri - (ri > r), bi) for ri, bi in l) for l in keep]
            yield with_mol(dict(mol, residues=mol['residues'][:r] + mol['residues'][r + 1:], links=keep, keys=None))
        for r, res in enumerate(mol['residues']):
            for b in range(1, len(res['beads'])):
                keep = [l for l in links if (r, b) not in l]
                keep = [tuple((ri, bi - (ri == r and bi > b)) for ri, bi in l) for l in keep]
                newres = dict(res, beads=res['beads'][:b] + res['beads'][b + 1:])
                yield with_mol(dict(mol, residues=mol['residues'][:r] + [newres] + mol['residues'][r + 1:],
                                    links=keep, keys=None))


def shrink(spec, key, budget=400):
    """greedy reduction that keeps the violation `key` alive."""
    best = None
    changed = True
    while changed and budget > 0:
        changed = False
        for cand in reductions(spec):
            budget -= 1
            if budget <= 0:
                break
            if not well_posed(cand):
                continue
            found = [v for v in evaluate(cand)[0] if v['key'] == key]
            if found:
                spec, best, changed = cand, found[0], True
                break
    return best


def check_case(col, spec, written=False):
    if not well_posed(spec):
        return False
    violations, nontrivial, exp = evaluate(spec, written)
    inp = jsonable(spec)
    col.case(repr(inp), nontrivial, dict(input=inp, go_pairs=[sorted(map(list, p)) for p in (exp or {})]))
    known = {v['key'] for v in col.violations}
    for v in violations:
        if v['key'] in known:
            continue
        small = None
        if not v['key'].startswith('write_'):
            small = shrink(spec, v['key'])
        v = small or v
        col.violation(v['key'], v['function'], v['what'], v['input'], v['observed'], v['expected'])
    return True


# --------------------------------------------------------------------------------------------------------------------
# generation
# --------------------------------------------------------------------------------------------------------------------
G = 0.125    # dyadic grid: squared distances are exact, so a distance equal to a cut-off is really equal


def mk_res(chain, old, resid, resname, pos, bb='BB', bbtype='P2', side=True, sctype='C1'):
    beads = [(bb, bbtype, tuple(pos))]
    if side:
        beads.append(('SC1', sctype, (pos[0], pos[1], pos[2] + G)))
    return dict(chain=chain, old=old, resid=resid, resname=resname, beads=beads)


def shapes3(backbone='BB'):
    """the molecules of the exhaustive part: 3 residues on the grid, distances 0.5 (r0-r1), 1.0 (r0-r2), 0.5 (r1-r2)
    for the straight ones and a 3-4-5 triangle for the others."""
    line = [(0.0, 0.0, 0.0), (4 * G, 0.0, 0.0), (8 * G, 0.0, 0.0)]          # 0.5, 1.0, 0.5
    tri = [(0.0, 0.0, 0.0), (3 * G, 0.0, 0.0), (3 * G, 4 * G, 0.0)]         # 0.375, 0.625, 0.5
    out = []
    # one chain, consecutive numbering from 1
    out.append(('chainA-line', [dict(residues=[mk_res('A', i + 1, i + 1, 'ALA', line[i], backbone) for i in range(3)])]))
    # one chain, numbering with a gap, a negative and unordered input resids; sparse unordered node keys
    olds = [7, -2, 40]
    out.append(('chainA-tri-gaps', [dict(keys=[11, 4, 30, 31, 8, 50],
                                         residues=[mk_res('A', olds[i], i + 1, 'GLY', tri[i], backbone) for i in range(3)])]))
    # two chains in one molecule with the same input numbering, linked side chain to side chain (disulfide-like)
    res = [mk_res('A', 1, 1, 'CYS', tri[0], backbone), mk_res('A', 2, 2, 'ALA', tri[1], backbone),
           mk_res('B', 1, 3, 'CYS', tri[2], backbone)]
    out.append(('chainsAB-linked', [dict(residues=res, links=[((0, 1), (2, 1))])]))
    # two separate molecules (merged by the pipeline), same chain-less numbering in different chains
    out.append(('two-molecules', [dict(residues=[mk_res('A', 5, 1, 'ALA', line[0], backbone),
                                                mk_res('A', 6, 2, 'ALA', line[1], backbone)]),
                                  dict(residues=[mk_res('B', 5, 1, 'LYS', line[2], backbone)], charge_groups=True)]))
    return out


WINDOWS_Q = [(0.25, 1.25), (0.5, 1.0), (0.375, 0.625), (0.5, 0.5), (0.4375, 0.5625)]


def ordered_pairs(ids):
    return [(a[1], a[0], b[1], b[0]) for a in ids for b in ids if a != b]


def exhaustive_part(col, tier, rng):
    quick = tier != 'thorough'
    shapes = shapes3()
    res_dists = [0, 1, 2]
    n = 0
    for name, mols in shapes:
        base = dict(molecules=mols, eps=9.414, moltype='molecule_0', backbone='BB', vsname='CA')
        ids = residue_ids(base)
        universe = ordered_pairs(ids)
        if not quick:
            ghost_r = ('A', 99)
            ghost_c = ('Z', ids[0][1])
            universe = universe + [(ids[0][1], ids[0][0], ghost_r[1], ghost_r[0]),
                                   (ghost_r[1], ghost_r[0], ids[0][1], ids[0][0]),
                                   (ids[1][1], ids[1][0], ghost_c[1], ghost_c[0]),
                                   (ghost_c[1], ghost_c[0], ids[1][1], ids[1][0])]
        for mask in range(2 ** len(universe)):
            subset = [universe[i] for i in range(len(universe)) if mask >> i & 1]
            orders = [subset, subset[::-1]] if len(subset) > 1 else [subset]
            for contacts in orders:
                for (lo, hi) in WINDOWS_Q:
                    for rd in res_dists:
                        spec = dict(base, contacts=list(contacts), short=lo, long=hi, res_dist=rd)
                        check_case(col, spec)
                        n += 1
                if len(col.violations) >= 12:
                    return n
    return n


CHAINS = ['A', 'B', 'C', ' ', 'a']
RESNAMES = ['ALA', 'GLY', 'CYS', 'LYS', 'TRP']
BBTYPES = ['P2', 'SP2', 'Q5', 'SQ5n', 'P1']
MOLTYPES = ['molecule_0', 'molecule_0', 'mol', 'prot_A', 'P', 'molecule_0_1', 'C']


def random_spec(rng, tier):
    backbone = rng.choice(['BB', 'BB', 'BB', 'CA', 'B1'])
    vsname = rng.choice(['CA', 'CA', 'VS', 'GO'])
    if vsname == backbone:
        vsname = 'VS'
    moltype = rng.choice(MOLTYPES)
    grid = rng.random() < 0.7
    nmol = rng.choice([1, 1, 1, 2, 2, 3])
    molecules = []
    used = set()
    chain_pool = rng.sample(CHAINS, len(CHAINS))
    occupied = set()
    for _m in range(nmol):
        nchains = rng.choice([1, 1, 2, 3]) if nmol == 1 else rng.choice([1, 1, 2])
        residues = []
        resid = 0
        for _c in range(nchains):
            chain = rng.choice(chain_pool[:4])
            nres = rng.randint(1, 6 if nmol == 1 and nchains == 1 else 4)
            style = rng.choice(['from1', 'offset', 'gaps', 'negative', 'descending'])
            start = {'from1': 1, 'offset': rng.randint(2, 300), 'gaps': rng.randint(1, 50),
                     'negative': rng.randint(-5, 0), 'descending': rng.randint(20, 60)}[style]
            old = start
            for _r in range(nres):
                tries = 0
                while (chain, old) in used:
                    old += 1 if style != 'descending' else -1
                    tries += 1
                used.add((chain, old))
                resid += rng.choice([1, 1, 1, 2]) if residues else rng.choice([1, 1, 3])
                while True:
                    if grid:
                        pos = (rng.randint(0, 8) * G, rng.randint(0, 8) * G, rng.randint(0, 4) * 2 * G)
                    else:
                        pos = (round(rng.uniform(0, 1.2), 3), round(rng.uniform(0, 1.2), 3), round(rng.uniform(0, 0.6), 3))
                    if pos not in occupied:
                        occupied.add(pos)
                        break
                has_bb = rng.random() > 0.04
                res = mk_res(chain, old, resid, rng.choice(RESNAMES), pos, backbone if has_bb else 'LIG',
                             rng.choice(BBTYPES), side=rng.random() < 0.6, sctype=rng.choice(['C1', 'SC5', 'TC3']))
                if rng.random() < 0.15:
                    res['beads'].append(('SC2', 'TC4', (pos[0] + G / 2, pos[1], pos[2])))
                residues.append(res)
                old += {'from1': 1, 'offset': 1, 'gaps': rng.choice([1, 1, 2, 5]), 'negative': 1,
                        'descending': -1}[style]
        links = []
        if len(residues) >= 3 and rng.random() < 0.5:
            for _l in range(rng.choice([1, 1, 2])):
                i, j = rng.sample(range(len(residues)), 2)
                bi = len(residues[i]['beads']) - 1
                bj = len(residues[j]['beads']) - 1
                links.append(((i, rng.randint(0, bi)), (j, rng.randint(0, bj))))
        mol = dict(residues=residues, links=links)
        natoms = sum(len(r['beads']) for r in residues)
        if len(molecules) == 0:
            mode = rng.choice(['plain', 'plain', 'from1', 'sparse', 'unordered'] if nmol == 1
                              else ['plain', 'from1', 'sparse'])
            if mode == 'from1':
                mol['keys'] = list(range(1, natoms + 1))
            elif mode == 'sparse':
                mol['keys'] = sorted(rng.sample(range(0, 5 * natoms + 5), natoms))
            elif mode == 'unordered':
                mol['keys'] = rng.sample(range(0, 3 * natoms + 3), natoms)
        mol['charge_groups'] = rng.random() < 0.8 or nmol > 1
        molecules.append(mol)
    spec = dict(molecules=molecules, moltype=moltype, backbone=backbone, vsname=vsname,
                eps=rng.choice([9.414, 12.0, 0.5, 1]))
    ids = residue_ids(spec)
    with_bb = [rid for i, rid in enumerate(ids) if backbone_position(spec, i) is not None]
    # contacts: symmetric ones, one-directional ones, absent residues and chains
    contacts = []
    pairs = list(itertools.combinations(with_bb, 2))
    rng.shuffle(pairs)
    for a, b in pairs[:rng.randint(0, min(len(pairs), 10))]:
        kind = rng.random()
        fwd, bwd = (a[1], a[0], b[1], b[0]), (b[1], b[0], a[1], a[0])
        if kind < 0.6:
            contacts += [fwd, bwd]
        elif kind < 0.8:
            contacts.append(fwd)
        else:
            contacts.append(bwd)
    if with_bb and rng.random() < 0.5:
        for _g in range(rng.randint(1, 3)):
            a = rng.choice(with_bb)
            ghost = rng.choice([(a[0], 9999), ('Z', a[1]), ('Q', 1), (a[0], a[1] + 1000)])
            if ghost in set(ids):
                continue
            fwd, bwd = (a[1], a[0], ghost[1], ghost[0]), (ghost[1], ghost[0], a[1], a[0])
            contacts += rng.choice([[fwd], [bwd], [fwd, bwd]])
    contacts = list(dict.fromkeys(contacts))
    rng.shuffle(contacts)
    spec['contacts'] = contacts
    # cut-offs: often exactly a distance that occurs (boundary), otherwise somewhere around
    dists = []
    for i, j in itertools.combinations(range(len(ids)), 2):
        pa, pb = backbone_position(spec, i), backbone_position(spec, j)
        if pa is not None and pb is not None:
            dists.append(math.sqrt(sum((x - y) ** 2 for x, y in zip(pa, pb))))
    dists.sort()

    def pick(default):
        r = rng.random()
        if dists and grid and r < 0.45:
            return rng.choice(dists)
        if dists and r < 0.75:
            d = rng.choice(dists)
            return max(0.0, d + rng.choice([-0.05, 0.05, -0.2, 0.2]))
        return default
    lo, hi = pick(0.3), pick(1.1)
    if rng.random() < 0.85 and lo > hi:
        lo, hi = hi, lo
    spec['short'], spec['long'] = lo, hi
    spec['res_dist'] = rng.choice([0, 1, 2, 3, 3, 4, 6])
    return spec


def bounded(tier, seed):
    logging.disable(logging.CRITICAL)
    try:
        return _bounded(tier, seed)
    finally:
        logging.disable(logging.NOTSET)


def _bounded(tier, seed):
    rng = random.Random(seed)
    quick = tier != 'thorough'
    col = Collector('GoPipeline.run_system on the real code. exhaustive part: 4 three-residue systems (one chain; one '
                    'chain with gapped/negative/unordered input numbering and sparse unordered node keys; two chains '
                    'with identical numbering and a disulfide-like cross-link; two separate molecules) x every subset '
                    'of the ordered residue contacts (thorough: plus contacts to an absent residue and an absent '
                    'chain) in two list orders x 5 cut-off windows (bounds equal to occurring distances included) x '
                    'minimum separation {0,1,2}; then seeded random systems of 1-3 molecules, 1-3 chains, <= 6 '
                    'residues per chain, random names/cut-offs/separation/links. oracle: pair-by-pair recomputation '
                    '(own BFS over the input bonds, own distance), site clauses checked attribute by attribute. '
                    'non-trivial = at least one contact listed in both directions', max_violations=12)
    n = exhaustive_part(col, tier, rng)
    col.exhaustive = True
    col.bound = ('%d runs: 4 three-residue systems x all subsets of ordered contacts%s x 2 orders x 5 windows x 3 '
                 'separations' % (n, '' if quick else ' (+4 contacts to absent residue/chain)'))
    n_rand = 4000 if quick else 50000
    done = 0
    attempts = 0
    while done < n_rand and attempts < 3 * n_rand:
        attempts += 1
        spec = random_spec(rng, tier)
        if check_case(col, spec, written=(done % 25 == 0)):
            done += 1
    return col.result()


def replay_model(function, model):
    return None

"""C06 bounded stand-in: the real ISMAGS matcher of the working tree runs natively on many small graph pairs and is
compared with brute-force spec functions written from the property statement.

Spec vocabulary (all by naive enumeration, nothing of vermouth is used):
  AllIso(G, S)  every injective map f: V(S) -> V(G) with node equality, edge <-> edge (the induced condition) and edge
                equality on the edges;
  Aut(S)        AllIso(S, S);
  f ~ f'        f' = f o a for an a in Aut(S)   (partial maps: a carries the domain of f' onto the domain of f);
  MaxCommon     the injective partial maps T -> V(G), T a subset of V(S), that are isomorphisms of the induced
                subgraphs, of the largest size for which one exists.
Clauses:
  find_isomorphisms(symmetry=False)  no duplicates, set == AllIso
  find_isomorphisms(symmetry=True)   subset of AllIso, at most one per ~class, every ~class hit
  largest_common_subgraph(both)      every result in MaxCommon; every member of MaxCommon ~ a result
  the answers do not depend on what the matcher object (or a shared symmetry cache) was asked before.
"""
import hashlib
import itertools
import logging
import random
import time
import traceback

from .common import Collector, REPO, load_cli  # noqa: F401  (REPO/sys.path handling lives in common)

# --------------------------------------------------------------------------------------------------------------------
# graph specifications: plain data, JSON-able.  spec = dict(nodes=[[key, colour], ...], edges=[[u, v, colour], ...])
# the order of `nodes` is the insertion order into the networkx graph.
# --------------------------------------------------------------------------------------------------------------------

NODE_EQ = {
    'none': None,
    'cat': lambda a, b: a == b,
    'parity': lambda a, b: a % 2 == b % 2,     # transitive, symmetric, coarser than identity
}


def mkspec(nodes, edges, ncol=None, ecol=None):
    nodes = list(nodes)
    return dict(nodes=[[n, (ncol or {}).get(n, 0)] for n in nodes],
                edges=[[u, v, (ecol or {}).get((u, v), (ecol or {}).get((v, u), 0))] for u, v in edges])


def relabel(spec, keymap, order=None):
    nodes = [[keymap[n], c] for n, c in spec['nodes']]
    if order is not None:
        nodes = [nodes[i] for i in order]
    return dict(nodes=nodes, edges=[[keymap[u], keymap[v], c] for u, v, c in spec['edges']])


def jkey(k):
    return list(k) if isinstance(k, tuple) else k


def jspec(spec):
    return dict(nodes=[[jkey(n), c] for n, c in spec['nodes']], edges=[[jkey(u), jkey(v), c] for u, v, c in spec['edges']])


def build(spec):
    import networkx as nx
    g = nx.Graph()
    for n, c in spec['nodes']:
        g.add_node(n, c=c)
    for u, v, c in spec['edges']:
        g.add_edge(u, v, c=c)
    return g


class View:
    """adjacency view of a spec for the oracle."""

    def __init__(self, spec):
        self.nodes = [n for n, _ in spec['nodes']]
        self.ncol = {n: c for n, c in spec['nodes']}
        self.ecol = {}
        for u, v, c in spec['edges']:
            self.ecol[u, v] = c
            self.ecol[v, u] = c
        self.index = {n: i for i, n in enumerate(self.nodes)}


# --------------------------------------------------------------------------------------------------------------------
# oracle
# --------------------------------------------------------------------------------------------------------------------

def compatible(G, S, neq, eeq, s1, g1, s2, g2):
    """may s1->g1 and s2->g2 coexist (s1 != s2)?"""
    if g1 == g2:
        return False
    se = S.ecol.get((s1, s2))
    ge = G.ecol.get((g1, g2))
    if (se is None) != (ge is None):
        return False
    if se is not None and eeq is not None and not eeq(se, ge):
        return False
    return True


def node_ok(G, S, neq, s, g):
    return neq is None or bool(neq(S.ncol[s], G.ncol[g]))


def all_isos(G, S, neq, eeq):
    """AllIso(G, S) as list of dicts {pattern node: graph node}."""
    out = []
    order = S.nodes

    def rec(i, f):
        if i == len(order):
            out.append(dict(f))
            return
        s = order[i]
        for g in G.nodes:
            if not node_ok(G, S, neq, s, g):
                continue
            if all(compatible(G, S, neq, eeq, s, g, s2, g2) for s2, g2 in f.items()):
                f[s] = g
                rec(i + 1, f)
                del f[s]
    if len(order) <= len(G.nodes):
        rec(0, {})
    return out


def max_common(G, S, neq, eeq):
    """(k, list of all partial maps of size k) with k the largest size of a common induced subgraph."""
    order = S.nodes
    best = [0, []]

    def rec(i, f):
        if len(f) + (len(order) - i) < best[0]:
            return
        if i == len(order):
            if len(f) > best[0]:
                best[0] = len(f)
                best[1] = []
            if len(f) == best[0]:
                best[1].append(dict(f))
            return
        s = order[i]
        for g in G.nodes:
            if not node_ok(G, S, neq, s, g):
                continue
            if all(compatible(G, S, neq, eeq, s, g, s2, g2) for s2, g2 in f.items()):
                f[s] = g
                rec(i + 1, f)
                del f[s]
        rec(i + 1, f)
    rec(0, {})
    return best[0], best[1]


def valid_partial(G, S, neq, eeq, f):
    """direct pair-by-pair recomputation: is f (pattern node -> graph node) an isomorphism of induced subgraphs?"""
    if any(s not in S.index for s in f) or any(g not in G.index for g in f.values()):
        return False
    if len(set(f.values())) != len(f):
        return False
    if not all(node_ok(G, S, neq, s, g) for s, g in f.items()):
        return False
    return all(compatible(G, S, neq, eeq, s1, f[s1], s2, f[s2]) for s1, s2 in itertools.combinations(list(f), 2))


def orbit(G, S, auts, f):
    """the plain keys of {f o a : a in Aut(S)}; a maps pattern node -> pattern node."""
    # Aut is a group: running over the inverses runs over Aut.  f o a is defined on a^-1(dom f) and
    # (f o a)(a^-1(t)) = f(t)
    return {tuple(sorted((S.index[inv[t]], G.index[g]) for t, g in f.items())) for inv in auts}


def classify(G, S, auts, maps):
    """{plain key of a map: representative key of its ~class} for a list of maps closed under ~."""
    cls = {}
    for f in maps:
        if plain_key(G, S, f) in cls:
            continue
        orb = orbit(G, S, auts, f)
        rep = min(orb)
        for key in orb:
            cls[key] = rep
    return cls


def plain_key(G, S, f):
    return tuple(sorted((S.index[s], G.index[g]) for s, g in f.items()))


class Truth:
    """everything the oracle knows about one input, computed lazily."""

    def __init__(self, gspec, sspec, neq_name, eeq_name):
        self.gspec, self.sspec, self.neq_name, self.eeq_name = gspec, sspec, neq_name, eeq_name
        self.G, self.S = View(gspec), View(sspec)
        self.neq, self.eeq = NODE_EQ[neq_name], NODE_EQ[eeq_name]
        self._iso = self._aut = self._mc = self._isocls = self._mccls = None

    @property
    def iso_classes(self):
        if self._isocls is None:
            self._isocls = classify(self.G, self.S, self.auts, self.isos)
        return self._isocls

    @property
    def mc_classes(self):
        if self._mccls is None:
            self._mccls = classify(self.G, self.S, self.auts, self.maxcommon[1])
        return self._mccls

    @property
    def isos(self):
        if self._iso is None:
            self._iso = all_isos(self.G, self.S, self.neq, self.eeq)
        return self._iso

    @property
    def auts(self):
        if self._aut is None:
            self._aut = all_isos(self.S, self.S, self.neq, self.eeq)
        return self._aut

    @property
    def maxcommon(self):
        if self._mc is None:
            self._mc = max_common(self.G, self.S, self.neq, self.eeq)
        return self._mc

    def describe(self):
        return dict(graph=jspec(self.gspec), subgraph=jspec(self.sspec), node_match=self.neq_name,
                    edge_match=self.eeq_name)


def jmap(f):
    """pattern node -> graph node, JSON-able and deterministic."""
    return sorted(([jkey(s), jkey(g)] for s, g in f.items()), key=repr)


def judge_iso(t, symmetry, yielded):
    """yielded: list of {graph node: pattern node} as produced by the matcher.  -> list of (clause, what, obs, exp)"""
    G, S = t.G, t.S
    problems = []
    maps = []
    for y in yielded:
        f = {s: g for g, s in y.items()}
        if len(f) != len(y) or set(f) != set(S.nodes) or not valid_partial(G, S, t.neq, t.eeq, f):
            problems.append(('sound', 'a yielded mapping is not an induced subgraph isomorphism respecting the '
                             'node/edge equality', sorted(([jkey(g), jkey(s)] for g, s in y.items()), key=repr),
                             'a member of AllIso (%d members)' % len(t.isos)))
            return problems
        maps.append(f)
    truth = {plain_key(G, S, f) for f in t.isos}
    keys = [plain_key(G, S, f) for f in maps]
    if not symmetry:
        if len(set(keys)) != len(keys):
            dup = next(f for f, k in zip(maps, keys) if keys.count(k) > 1)
            problems.append(('duplicate', 'the same isomorphism is yielded more than once', jmap(dup), 'each once'))
        missing = truth - set(keys)
        if missing:
            ex = next(f for f in t.isos if plain_key(G, S, f) in missing)
            problems.append(('complete', '%d of %d isomorphisms are not yielded' % (len(missing), len(truth)),
                             'missing e.g. (pattern->graph) %s' % jmap(ex), 'all %d' % len(truth)))
    else:
        cls = t.iso_classes
        seen = {}
        for f in maps:
            ck = cls[plain_key(G, S, f)]
            if ck in seen:
                problems.append(('one-per-class', 'two yielded isomorphisms differ only by a symmetry of the pattern',
                                 [jmap(seen[ck]), jmap(f)], 'one representative per class (|Aut|=%d)' % len(t.auts)))
                break
            seen[ck] = f
        missing = set(cls.values()) - {cls[k] for k in keys}
        if missing:
            rep = sorted(missing)[0]
            ex = next(f for f in t.isos if plain_key(G, S, f) == rep)
            problems.append(('class-missing', '%d of %d symmetry classes have no representative'
                             % (len(missing), len(set(cls.values()))), 'no representative of the class of '
                             '(pattern->graph) %s' % jmap(ex), '%d classes (|AllIso|=%d, |Aut|=%d)'
                             % (len(set(cls.values())), len(truth), len(t.auts))))
    return problems


def judge_lcs(t, symmetry, yielded):
    G, S = t.G, t.S
    k, maxi = t.maxcommon
    problems = []
    maps = []
    for y in yielded:
        f = {s: g for g, s in y.items()}
        if len(f) != len(y) or not valid_partial(G, S, t.neq, t.eeq, f):
            problems.append(('sound', 'a returned mapping is not a common induced subgraph',
                             sorted(([jkey(g), jkey(s)] for g, s in y.items()), key=repr),
                             'an isomorphism between induced subgraphs'))
            return problems
        if len(f) != k:
            problems.append(('maximum', 'a returned common subgraph does not have the maximum size', 'size %d: %s'
                             % (len(f), jmap(f)), 'size %d' % k))
            return problems
        maps.append(f)
    if k == 0:
        # the statement does not say whether the empty correspondence counts as a result
        return problems
    cls = t.mc_classes
    got = {cls[plain_key(G, S, f)] for f in maps}
    missing = [f for f in maxi if cls[plain_key(G, S, f)] not in got]
    if missing:
        problems.append(('complete', '%d of %d maximum common induced subgraphs (size %d) are neither returned nor '
                         'symmetry-equivalent to a returned one' % (len(missing), len(maxi), k),
                         'e.g. (pattern->graph) %s; returned %d mappings' % (jmap(missing[0]), len(maps)),
                         'every maximum one up to Aut (|Aut|=%d)' % len(t.auts)))
    return problems


# --------------------------------------------------------------------------------------------------------------------
# the real thing
# --------------------------------------------------------------------------------------------------------------------

def matcher(t, cache=None, graphs=None):
    from vermouth.ismags import ISMAGS
    g, s = graphs if graphs is not None else (build(t.gspec), build(t.sspec))
    nm = None if t.neq is None else (lambda a, b, eq=t.neq: eq(a['c'], b['c']))
    em = None if t.eeq is None else (lambda a, b, eq=t.eeq: eq(a['c'], b['c']))
    if cache is None:
        return ISMAGS(g, s, node_match=nm, edge_match=em)
    return ISMAGS(g, s, node_match=nm, edge_match=em, cache=cache)


QUERIES = [('find_isomorphisms', False), ('find_isomorphisms', True),
           ('largest_common_subgraph', False), ('largest_common_subgraph', True)]
RESPONSIBLE = {('find_isomorphisms', False): 'ISMAGS._map_nodes',
               ('find_isomorphisms', True): 'ISMAGS.analyze_symmetry',
               ('largest_common_subgraph', False): 'ISMAGS._largest_common_subgraph',
               ('largest_common_subgraph', True): 'ISMAGS._largest_common_subgraph'}


def blame(err, label, default):
    """(error text, stage for the key, responsible function) of an exception raised by the matcher."""
    frames = [f.name for f in traceback.extract_tb(err.__traceback__) if f.filename.endswith('ismags.py')]
    text = '%s: %s' % (type(err).__name__, str(err)[:200])
    if 'analyze_symmetry' in frames:     # the same defect whichever question needed the pattern symmetry
        return text, 'analyze_symmetry', 'ISMAGS.%s' % frames[-1]
    return text, label, 'ISMAGS.%s' % (frames[-1] if frames else default)


def ask(m, query):
    """-> (list of yielded mappings, None) or (None, (error text, stage, responsible function))."""
    name, sym = query
    try:
        return list(getattr(m, name)(symmetry=sym)), None
    except Exception as err:  # pylint: disable=broad-except
        return None, blame(err, qname(query), name)


def ask_bool(m, name, **kwargs):
    try:
        return getattr(m, name)(**kwargs), None
    except Exception as err:  # pylint: disable=broad-except
        return None, blame(err, name, name)


def judge(t, query, yielded):
    return (judge_iso if query[0] == 'find_isomorphisms' else judge_lcs)(t, query[1], yielded)


def qname(query):
    return '%s[symmetry=%s]' % query


def check_fresh(col, t, queries=QUERIES):
    """every query on a matcher object of its own. returns {query: set of failed clauses}."""
    failed = {}
    for query in queries:
        got, err = ask(matcher(t), query)
        if err is not None:
            failed[query] = {'raises'}
            col.violation('%s/raises' % err[1], err[2], 'the matcher raises instead of answering (%s)' % qname(query),
                          t.describe(), err[0], 'a result')
            continue
        probs = judge(t, query, got)
        failed[query] = {p[0] for p in probs}
        for clause, what, obs, exp in probs:
            col.violation('%s/%s' % (qname(query), clause), RESPONSIBLE[query], what, t.describe(), obs, exp)
    return failed


def check_boolean(col, t):
    """the yes/no front ends follow from soundness + completeness."""
    exp_sub = bool(t.isos)
    exp_iso = exp_sub and len(t.S.nodes) == len(t.G.nodes)
    for sym in (False, True):
        for name, exp in (('subgraph_is_isomorphic', exp_sub), ('is_isomorphic', exp_iso)):
            got, err = ask_bool(matcher(t), name, symmetry=sym)
            if err is not None:
                col.violation('%s/raises' % err[1], err[2], 'the matcher raises instead of answering (%s, symmetry=%s)'
                              % (name, sym), t.describe(), err[0], exp)
            elif got is not exp:
                col.violation('%s/result' % name, 'ISMAGS.%s' % name, 'yes/no answer differs from the existence of an '
                              'isomorphism (symmetry=%s)' % sym, t.describe(), got, exp)


def check_reuse(col, t, sequence, fresh_failed):
    """one matcher object asked `sequence` (queries and yes/no questions) in a row: same clauses must hold."""
    m = matcher(t)
    history = []
    for step in sequence:
        if isinstance(step, str):
            got, err = ask_bool(m, step)
            exp = bool(t.isos) and (step != 'is_isomorphic' or len(t.S.nodes) == len(t.G.nodes))
            if history and (err is not None or got is not exp):
                fresh, ferr = ask_bool(matcher(t), step)
                if ferr is None and fresh is exp:
                    col.violation('reuse:%s/history-dependent' % step, 'ISMAGS.%s' % step, 'answer of a matcher object '
                                  'that was used before differs', dict(t.describe(), asked_before=list(history)),
                                  got if err is None else err[0], exp)
            history.append(step)
            continue
        got, err = ask(m, step)
        probs = [('raises', 'the matcher raises', err[0], 'a result')] if err is not None else judge(t, step, got)
        for clause, what, obs, exp in probs:
            if step not in fresh_failed:
                fresh_failed.update(check_fresh(col, t, [step]))
            if clause in fresh_failed[step] or not history:
                continue    # the same thing a fresh object does: reported under the plain key
            col.violation('reuse:%s/history-dependent' % step[0], 'ISMAGS.%s' % step[0],
                          '%s (%s, clause %s) - only when the same matcher object was asked something else before'
                          % (what, qname(step), clause),
                          dict(t.describe(), asked_before=list(history)), obs, exp)
        history.append(qname(step))


def check_cache_group(col, truths, rounds=2):
    """several matchers sharing one symmetry cache (the public `cache` argument)."""
    cache = {}
    history = []
    for _ in range(rounds):
        for t in truths:
            for query in (('find_isomorphisms', True), ('largest_common_subgraph', True)):
                got, err = ask(matcher(t, cache=cache), query)
                probs = [('raises', 'the matcher raises', err[0], 'a result')] if err is not None else judge(t, query, got)
                if probs and history:
                    fresh = check_fresh(col, t, [query])[query]
                    for clause, what, obs, exp in probs:
                        if clause in fresh:
                            continue
                        col.violation('cache:analyze_symmetry/history-dependent', 'ISMAGS.analyze_symmetry',
                                      '%s (%s, clause %s) - only with a symmetry cache shared with earlier matchers'
                                      % (what, qname(query), clause),
                                      dict(t.describe(), earlier_patterns_in_cache=[jspec(h) for h in history[-6:]]),
                                      obs, exp)
            history.append(t.sspec)


# --------------------------------------------------------------------------------------------------------------------
# generation
# --------------------------------------------------------------------------------------------------------------------

def labelled_graphs(n):
    pairs = list(itertools.combinations(range(n), 2))
    for mask in range(1 << len(pairs)):
        yield mkspec(range(n), [p for i, p in enumerate(pairs) if mask >> i & 1])


def atlas(max_nodes):
    import networkx as nx
    out = []
    for g in nx.graph_atlas_g():
        if len(g) > max_nodes:
            break
        out.append(mkspec(sorted(g.nodes), sorted(g.edges)))
    return out


def family():
    """fixed 6-9 node symmetric patterns (the known hard cases need 7+ nodes)."""
    import networkx as nx
    fam = {}
    for n in (6, 7, 8):
        fam['C%d' % n] = nx.cycle_graph(n)
    fam['star5'] = nx.star_graph(5)
    fam['star6'] = nx.star_graph(6)
    # the double broom drawn in the comment of _process_ordered_pair_partitions, with its numbering
    fam['double_broom'] = nx.Graph([(0, 3), (0, 4), (4, 5), (0, 8), (8, 9), (3, 12), (12, 13), (3, 16), (16, 17)])
    fam['broom_short'] = nx.Graph([(0, 1), (0, 2), (0, 3), (1, 4), (1, 5)])
    fam['K33'] = nx.complete_bipartite_graph(3, 3)
    fam['cube'] = nx.hypercube_graph(3)
    fam['prism'] = nx.circular_ladder_graph(3)
    fam['two_triangles'] = nx.disjoint_union(nx.cycle_graph(3), nx.cycle_graph(3))
    fam['three_paths'] = nx.disjoint_union_all([nx.path_graph(2), nx.path_graph(2), nx.path_graph(2)])
    fam['two_P3_and_K1'] = nx.disjoint_union_all([nx.path_graph(3), nx.path_graph(3), nx.path_graph(1)])
    fam['spiro'] = nx.Graph([(0, 1), (1, 2), (2, 0), (0, 3), (3, 4), (4, 0), (1, 5), (3, 6)])
    fam['bicyclo'] = nx.Graph([(0, 1), (1, 2), (2, 3), (3, 0), (0, 4), (4, 2), (1, 5), (3, 6)])
    fam['H_tree'] = nx.Graph([(0, 1), (1, 2), (1, 3), (3, 4), (3, 5), (0, 6), (6, 7), (6, 8)])
    out = {}
    for name, g in fam.items():
        g = nx.convert_node_labels_to_integers(g) if name in ('cube',) else g
        out[name] = mkspec(sorted(g.nodes), sorted(g.edges))
    return out


KEY_POOLS = [
    lambda n, rng: list(range(n)),
    lambda n, rng: rng.sample(range(-5, 60), n),                                  # gaps, negative, unordered
    lambda n, rng: rng.sample(['a', 'B', 'c', 'Da', 'e1', 'f', 'zz', 'A', 'm', 'n0', 'q', 'r'], n),
    lambda n, rng: rng.sample([(i, j) for i in range(4) for j in 'xyz'], n),    # (resid, atomname) like keys
    lambda n, rng: rng.sample([0.5, 1.5, -2.0, 3.25, 7.0, 8.5, 9.75, 11.0, 12.5, 20.0, 21.5, 30.0], n),
]


def random_keys(spec, rng, pool=None):
    old = [n for n, _ in spec['nodes']]
    pool = rng.choice(KEY_POOLS) if pool is None else pool
    new = pool(len(old), rng)
    order = list(range(len(old)))
    rng.shuffle(order)
    out = relabel(spec, dict(zip(old, new)), order)
    edges = [[v, u, c] if rng.random() < 0.5 else [u, v, c] for u, v, c in out['edges']]
    rng.shuffle(edges)
    out['edges'] = edges
    return out


def colour(spec, rng, n_ncol, n_ecol):
    return dict(nodes=[[n, rng.randrange(n_ncol)] for n, _ in spec['nodes']],
                edges=[[u, v, rng.randrange(n_ecol)] for u, v, _ in spec['edges']])


def random_graph(rng, n, p):
    return mkspec(range(n), [e for e in itertools.combinations(range(n), 2) if rng.random() < p])


def extend(spec, rng, extra, p):
    """a supergraph: the pattern plus `extra` nodes wired at random (so that isomorphisms exist)."""
    nodes = [n for n, _ in spec['nodes']]
    new = list(range(len(nodes), len(nodes) + extra))
    mapping = dict(zip(nodes, range(len(nodes))))
    base = relabel(spec, mapping)
    edges = list(base['edges'])
    for a in new:
        for b in range(a):
            if rng.random() < p:
                edges.append([b, a, 0])
    return dict(nodes=base['nodes'] + [[a, 0] for a in new], edges=edges)


def fingerprint(t, tag):
    return (tag, repr(t.gspec['nodes']), repr(t.gspec['edges']), repr(t.sspec['nodes']), repr(t.sspec['edges']),
            t.neq_name, t.eeq_name)


def nontrivial(t):
    return len(t.S.nodes) >= 2 and len(t.G.nodes) >= 2 and (bool(t.isos) or t.maxcommon[0] >= 2)


def digest(fp):
    return hashlib.md5(repr(fp).encode()).hexdigest()


def weight(inp):
    """size of a violation input: smaller examples are preferred."""
    if not isinstance(inp, dict) or 'graph' not in inp:
        return 10 ** 6
    w = 0
    for side in ('graph', 'subgraph'):
        w += 3 * len(inp[side]['nodes']) + len(inp[side]['edges'])
        w += sum(1 for _, c in inp[side]['nodes'] if c) + sum(1 for _, _, c in inp[side]['edges'] if c)
    w += len(inp.get('asked_before', ())) + 10 * len(inp.get('earlier_patterns_in_cache', ()))
    return w


class Findings(Collector):
    """Collector that keeps, per key, the smallest failing input seen, and shrinks the fresh-matcher ones."""

    def __init__(self, rule, max_violations=5):
        super().__init__(rule, max_violations)
        self.best = {}

    def violation(self, key, function, what, inp, observed, expected):
        old = self.best.get(key)
        if old is None or weight(inp) < weight(old['input']):
            self.best[key] = dict(key=key, function=function, what=what, input=inp, observed=observed,
                                  expected=expected)

    def violations_list(self):
        return [self.best[k] for k in sorted(self.best)]

    def shrink_all(self, per_key_s=3.0):
        for key in sorted(self.best):
            v = self.best[key]
            if key.startswith(('reuse:', 'cache:')) or key.endswith('/result') or 'graph' not in v['input']:
                continue
            small = shrink(key, v['input'], time.time() + per_key_s)
            if small is not None:
                self.best[key] = small

    def result(self):
        self.violations = self.violations_list()
        return super().result()


def truth_of(inp):
    def spec(d):
        def key(k):
            return tuple(k) if isinstance(k, list) else k
        return dict(nodes=[[key(n), c] for n, c in d['nodes']], edges=[[key(u), key(v), c] for u, v, c in d['edges']])
    return Truth(spec(inp['graph']), spec(inp['subgraph']), inp['node_match'], inp['edge_match'])


def reductions(inp):
    """one-step smaller inputs."""
    for side in ('subgraph', 'graph'):
        g = inp[side]
        keys = [n for n, _ in g['nodes']]
        if keys != list(range(len(keys))):      # plain numbering, in sorted order if the keys can be sorted
            try:
                ranked = sorted(keys, key=lambda k: tuple(k) if isinstance(k, list) else k)
            except TypeError:
                ranked = keys
            new = {repr(k): i for i, k in enumerate(ranked)}
            yield dict(inp, **{side: dict(nodes=sorted([new[repr(n)], c] for n, c in g['nodes']),
                                          edges=sorted(sorted([new[repr(u)], new[repr(v)]]) + [c] for u, v, c in g['edges']))})
    for side in ('subgraph', 'graph'):
        g = inp[side]
        for i, (n, _) in enumerate(g['nodes']):
            smaller = dict(nodes=g['nodes'][:i] + g['nodes'][i + 1:], edges=[e for e in g['edges'] if n not in e[:2]])
            yield dict(inp, **{side: smaller})
    for side in ('subgraph', 'graph'):
        g = inp[side]
        for i in range(len(g['edges'])):
            yield dict(inp, **{side: dict(nodes=g['nodes'], edges=g['edges'][:i] + g['edges'][i + 1:])})
    for name in ('node_match', 'edge_match'):
        if inp[name] != 'none':
            yield dict(inp, **{name: 'none'})
    for side in ('subgraph', 'graph'):
        g = inp[side]
        for i, (n, c) in enumerate(g['nodes']):
            if c:
                yield dict(inp, **{side: dict(nodes=g['nodes'][:i] + [[n, 0]] + g['nodes'][i + 1:], edges=g['edges'])})
        for i, (u, v, c) in enumerate(g['edges']):
            if c:
                yield dict(inp, **{side: dict(nodes=g['nodes'], edges=g['edges'][:i] + [[u, v, 0]] + g['edges'][i + 1:])})


def shrink(key, inp, deadline):
    """greedy delta-debugging of a fresh-matcher violation: the same key must keep firing."""
    current = None
    progress = True
    base = dict(graph=inp['graph'], subgraph=inp['subgraph'], node_match=inp['node_match'],
                edge_match=inp['edge_match'])
    while progress and time.time() < deadline:
        progress = False
        for cand in reductions(base):
            if time.time() > deadline:
                break
            probe = Findings('shrink')
            check_fresh(probe, truth_of(cand))
            if key in probe.best:
                base = dict(graph=probe.best[key]['input']['graph'], subgraph=probe.best[key]['input']['subgraph'],
                            node_match=cand['node_match'], edge_match=cand['edge_match'])
                current = probe.best[key]
                progress = True
                break
    return current


REUSE_STEPS = list(QUERIES) + ['is_isomorphic', 'subgraph_is_isomorphic']


def random_sequence(rng):
    seq = [rng.choice(REUSE_STEPS) for _ in range(rng.randint(2, 4))]
    if not any(not isinstance(s, str) for s in seq[1:]):
        seq.append(rng.choice(QUERIES))
    return seq


RULE = ('real ISMAGS vs brute-force AllIso / Aut / MaxCommon (find_isomorphisms and largest_common_subgraph, symmetry False '
        'and True, fresh matcher per query; yes/no front ends). exhaustive: (a) every labelled uncoloured pattern on nodes '
        '0..n-1 x every graph up to isomorphism (atlas numbering); (b) every graph up to isomorphism with every node '
        '2-colouring, and with every edge 2-colouring (<= 8 edges), as pattern against itself. seeded beyond: a fixed '
        'family of 6-10 node symmetric patterns (cycles, stars, brooms, K33, cube, prism, repeated components, ...) '
        'plain and with structured colourings (proper node/edge colourings, one marked node/edge) and random ones, '
        'against themselves, supergraphs and each other, renumbered; one matcher object asked several questions in a '
        'row; several matchers sharing one symmetry cache; random pairs with 1-3 node/edge colours, categorical and '
        'parity equality, sparse/negative/string/tuple/float node keys in shuffled insertion order. non-trivial = both '
        'graphs have >= 2 nodes and an isomorphism or a common subgraph of >= 2 nodes exists')


class Part:
    """what a job sends back to the parent."""

    def __init__(self):
        self.col = Findings('part')
        self.cases = []
        self.done = 0

    def case(self, t, tag):
        nontriv = nontrivial(t)
        sample = None
        if nontriv and len(self.col.samples) < 2 and len(t.S.nodes) >= 3 and len(t.isos) > 1:
            sample = dict(t.describe(), n_isomorphisms=len(t.isos), n_pattern_automorphisms=len(t.auts),
                          max_common_size=t.maxcommon[0])
            self.col.samples.append(sample)
        self.cases.append((digest(fingerprint(t, tag)), nontriv, sample))
        self.done += 1

    def result(self):
        return dict(cases=self.cases, violations=self.col.violations_list(), done=self.done)


def job_exhaustive(args):
    """labelled uncoloured patterns[lo:hi] x all atlas graphs."""
    pmax, gmax, lo, hi, deadline = args
    part = Part()
    patterns = [p for n in range(0, pmax + 1) for p in labelled_graphs(n)][lo:hi]
    graphs = atlas(gmax)
    for sspec in patterns:
        if time.time() > deadline:
            return dict(part.result(), incomplete=True)
        for gspec in graphs:
            t = Truth(gspec, sspec, 'none', 'none')
            part.case(t, 'x')
            check_fresh(part.col, t)
            if len(sspec['nodes']) <= 3 or len(sspec['nodes']) == len(gspec['nodes']):
                check_boolean(part.col, t)
    return part.result()


def job_coloured_self(args):
    """atlas graphs[lo:hi] with every node 2-colouring / every edge 2-colouring as pattern against itself."""
    nmax, lo, hi, deadline = args
    part = Part()
    for spec in [g for g in atlas(nmax) if len(g['nodes']) >= 2][lo:hi]:
        if time.time() > deadline:
            return dict(part.result(), incomplete=True)
        nodes = [n for n, _ in spec['nodes']]
        edges = [(u, v) for u, v, _ in spec['edges']]
        for ncs in itertools.product(range(2), repeat=len(nodes) - 1):
            s = dict(nodes=[[n, c] for n, c in zip(nodes, (0,) + ncs)], edges=spec['edges'])
            t = Truth(s, s, 'cat', 'none')
            part.case(t, 'nc')
            check_fresh(part.col, t)
        if 1 <= len(edges) <= 8:
            for ecs in itertools.product(range(2), repeat=len(edges) - 1):
                s = dict(nodes=spec['nodes'], edges=[[u, v, c] for (u, v), c in zip(edges, (0,) + ecs)])
                t = Truth(s, s, 'none', 'cat')
                part.case(t, 'ec')
                check_fresh(part.col, t)
    return part.result()


def proper_node_colouring(spec):
    col = {}
    nbrs = {n: set() for n, _ in spec['nodes']}
    for u, v, _ in spec['edges']:
        nbrs[u].add(v)
        nbrs[v].add(u)
    for n, _ in spec['nodes']:
        used = {col[m] for m in nbrs[n] if m in col}
        col[n] = next(c for c in itertools.count() if c not in used)
    return col


def proper_edge_colouring(spec):
    col = {}
    at = {n: set() for n, _ in spec['nodes']}
    for u, v, _ in spec['edges']:
        c = next(c for c in itertools.count() if c not in at[u] and c not in at[v])
        col[u, v] = c
        at[u].add(c)
        at[v].add(c)
    return col


def structured_colourings(spec, rng, n_random):
    """(name, node equality, edge equality, coloured spec): colourings that keep part of the symmetry."""
    nodes = [n for n, _ in spec['nodes']]
    edges = [(u, v) for u, v, _ in spec['edges']]
    pn, pe = proper_node_colouring(spec), proper_edge_colouring(spec)
    out = [('proper-nodes', 'cat', 'none', mkspec(nodes, edges, ncol=pn)),
           ('proper-edges', 'none', 'cat', mkspec(nodes, edges, ecol=pe)),
           ('proper-edges-mod2', 'none', 'cat', mkspec(nodes, edges, ecol={e: c % 2 for e, c in pe.items()})),
           ('proper-both', 'cat', 'cat', mkspec(nodes, edges, ncol=pn, ecol=pe)),
           ('proper-parity', 'parity', 'parity', mkspec(nodes, edges, ncol=pn, ecol=pe)),
           ('marked-node', 'cat', 'none', mkspec(nodes, edges, ncol={nodes[-1]: 1}))]
    if edges:
        out.append(('marked-edge', 'none', 'cat', mkspec(nodes, edges, ecol={edges[len(edges) // 2]: 1})))
    for i in range(n_random):
        kind = i % 3
        out.append(('random', 'cat' if kind != 1 else 'none', 'cat' if kind != 0 else 'none',
                    colour(spec, rng, 2 if kind != 1 else 1, 2 if kind != 0 else 1)))
    return out


def job_family(args):
    seed, name, variants, n_random, deadline = args
    part = Part()
    rng = random.Random('%s/fam/%s' % (seed, name))
    fam = family()
    sspec = fam[name]
    n = len(sspec['nodes'])
    targets = [sspec, extend(sspec, rng, 2, 0.3)]
    other = fam[rng.choice(sorted(fam))]
    if len(other['nodes']) <= 8 and n <= 8:
        targets.append(other)
    for gspec in targets:
        for variant in range(variants):
            if time.time() > deadline:
                return dict(part.result(), incomplete=True)
            s2 = sspec if variant == 0 else random_keys(sspec, rng, KEY_POOLS[variant % len(KEY_POOLS)])
            g2 = gspec if variant == 0 else random_keys(gspec, rng)
            t = Truth(g2, s2, 'none', 'none')
            part.case(t, 'fam')
            check_fresh(part.col, t, QUERIES if (n <= 8 and len(g2['nodes']) <= 8) else QUERIES[:2])
    if n <= 8:
        for cname, neq, eeq, cs in structured_colourings(sspec, rng, n_random):
            if time.time() > deadline:
                return dict(part.result(), incomplete=True)
            bigger = extend(cs, rng, 1, 0.4)     # the extra node/edges get colour 0
            for variant, gspec in enumerate((cs, bigger, random_keys(bigger, rng))):
                s2 = cs if variant < 2 else random_keys(cs, rng, KEY_POOLS[1])
                t = Truth(gspec, s2, neq, eeq)
                part.case(t, 'famcol')
                check_fresh(part.col, t)
    return part.result()


REUSE_SEQS = [['subgraph_is_isomorphic', ('largest_common_subgraph', True), ('largest_common_subgraph', False)],
              [('find_isomorphisms', True), ('largest_common_subgraph', False), ('find_isomorphisms', False)],
              [('largest_common_subgraph', True), ('find_isomorphisms', True), ('find_isomorphisms', False),
               ('largest_common_subgraph', True)],
              ['is_isomorphic', ('find_isomorphisms', False), ('find_isomorphisms', True)],
              [('find_isomorphisms', False), ('largest_common_subgraph', True)]]


def job_reuse(args):
    """one matcher object asked several questions: atlas patterns (2..4 nodes) x atlas graphs (2..5 nodes), slice."""
    seed, lo, hi, deadline = args
    part = Part()
    rng = random.Random('%s/reuse' % seed)
    pairs = [(s, g) for s in atlas(4) if len(s['nodes']) >= 2 for g in atlas(5) if len(g['nodes']) >= 2]
    rng.shuffle(pairs)
    for i, (sspec, gspec) in list(enumerate(pairs))[lo:hi]:
        if time.time() > deadline:
            return dict(part.result(), incomplete=True)
        rng_i = random.Random('%s/reuse/%d' % (seed, i))
        t = Truth(gspec, random_keys(sspec, rng_i) if i % 3 == 2 else sspec, 'none', 'none')
        part.case(t, 'reuse')
        check_reuse(part.col, t, REUSE_SEQS[i % len(REUSE_SEQS)], {})
    return part.result()


def job_cache(args):
    """several matchers sharing one symmetry cache: same keys, same/different edges, different colourings."""
    seed, lo, hi, deadline = args
    part = Part()
    for trial in range(lo, hi):
        if time.time() > deadline:
            return dict(part.result(), incomplete=True)
        rng = random.Random('%s/cache/%d' % (seed, trial))
        n = rng.randint(2, 5)
        base = random_graph(rng, n, rng.choice([0.4, 0.6, 0.9]))
        if trial % 2:
            base = mkspec(range(n), [(i, i + 1) for i in range(n - 1)])
        gspec = colour(random_graph(rng, rng.randint(n, 6), 0.5), rng, 2, 1)
        if trial % 3 == 0:
            gspec = colour(mkspec(range(n + 2), [(i, i + 1) for i in range(n + 1)]), rng, 2, 1)
        truths = []
        for _ in range(rng.randint(2, 4)):
            sspec = colour(base, rng, 2, 1) if rng.random() < 0.8 else colour(random_graph(rng, n, 0.5), rng, 2, 1)
            truths.append(Truth(gspec, sspec, 'cat', 'none'))
        for t in truths:
            part.case(t, 'cache')
        check_cache_group(part.col, truths)
    return part.result()


def job_atlas7(args):
    """every graph with 7 nodes (up to isomorphism), slice: against itself, a supergraph and a perturbed copy."""
    seed, lo, hi, deadline = args
    part = Part()
    specs = [g for g in atlas(7) if len(g['nodes']) == 7][lo:hi]
    for i, spec in enumerate(specs):
        if time.time() > deadline:
            return dict(part.result(), incomplete=True)
        rng = random.Random('%s/atlas7/%d' % (seed, lo + i))
        s2 = random_keys(spec, rng, KEY_POOLS[0])
        for tgt in (s2, extend(s2, rng, 1, 0.4)):
            t = Truth(tgt, s2, 'none', 'none')
            part.case(t, 'a7')
            check_fresh(part.col, t, QUERIES[:2])
        nodes = [n for n, _ in spec['nodes']]
        u, v = sorted(rng.sample(nodes, 2))
        edges = [(a, b) for a, b, _ in spec['edges']]
        edges = [e for e in edges if e != (u, v)] if (u, v) in edges else edges + [(u, v)]
        t = Truth(mkspec(nodes, edges), s2, 'none', 'none')
        part.case(t, 'a7p')
        check_fresh(part.col, t)
    return part.result()


def random_case(rng, quick, fam):
    nmax = 6 if quick else 7
    ns = rng.randint(1, nmax)
    shape = rng.random()
    if shape < 0.35:
        sspec = random_graph(rng, ns, rng.choice([0.2, 0.4, 0.6, 0.8]))
    elif shape < 0.6:     # trees / forests: lots of symmetry
        sspec = mkspec(range(ns), [(rng.randrange(i), i) for i in range(1, ns) if rng.random() < 0.9])
    elif shape < 0.8:     # several copies of one small component (disconnected, swappable components)
        k = rng.randint(1, 3)
        comp = random_graph(rng, k, 0.7)
        copies = rng.randint(2, max(2, min(3, nmax // k)))
        sspec = mkspec(range(k * copies), [(u + k * c, v + k * c) for c in range(copies) for u, v, _ in comp['edges']])
    else:
        sspec = fam[rng.choice(sorted(fam))]
        if len(sspec['nodes']) > nmax:
            sspec = fam['C6']
    how = rng.random()
    if how < 0.4:
        gspec = extend(sspec, rng, rng.randint(0, 2), rng.choice([0.2, 0.5]))
    elif how < 0.5:
        gspec = sspec
    else:
        gspec = random_graph(rng, rng.randint(1, nmax + 1), rng.choice([0.2, 0.4, 0.6]))
    mode = rng.random()
    neq = eeq = 'none'
    if mode < 0.25:
        pass
    elif mode < 0.5:
        neq = 'cat'
        nc = rng.choice([1, 2, 2, 3])
        sspec, gspec = colour(sspec, rng, nc, 1), colour(gspec, rng, nc, 1)
    elif mode < 0.7:
        eeq = 'cat'
        sspec, gspec = colour(sspec, rng, 1, 2), colour(gspec, rng, 1, 2)
    elif mode < 0.9:
        neq = eeq = 'cat'
        sspec, gspec = colour(sspec, rng, 2, 2), colour(gspec, rng, 2, 2)
    else:
        neq = 'parity'
        eeq = rng.choice(['none', 'parity'])
        sspec, gspec = colour(sspec, rng, 4, 4), colour(gspec, rng, 4, 4)
    if rng.random() < 0.7:
        sspec = random_keys(sspec, rng)
    if rng.random() < 0.7:
        gspec = random_keys(gspec, rng)
    return Truth(gspec, sspec, neq, eeq)


def job_random(args):
    """seeded random pairs; each case has its own generator, so the set of cases does not depend on timing."""
    seed, lo, hi, quick, deadline = args
    part = Part()
    fam = family()
    for idx in range(lo, hi):
        if time.time() > deadline:
            return dict(part.result(), incomplete=True)
        rng = random.Random('%s/rnd/%d' % (seed, idx))
        t = random_case(rng, quick, fam)
        part.case(t, 'rnd')
        failed = check_fresh(part.col, t)
        if idx % 4 == 0:
            check_reuse(part.col, t, random_sequence(rng), dict(failed))
        if idx % 16 == 0:
            check_boolean(part.col, t)
    return part.result()


def run_job(job):
    logging.disable(logging.CRITICAL)
    fn, args = job
    return fn(args)


def slices(total, size):
    return [(lo, min(lo + size, total)) for lo in range(0, total, size)]


def bounded(tier, seed):
    logging.getLogger('vermouth').addHandler(logging.NullHandler())
    quick = tier != 'thorough'
    t0 = time.time()
    deadline = t0 + (45 if quick else 800)
    workers = 4 if quick else 8
    col = Findings(RULE)

    pmax, gmax = (4, 5) if quick else (5, 5)
    n_patterns = sum(2 ** (n * (n - 1) // 2) for n in range(pmax + 1))
    cmax = 5 if quick else 6
    n_cgraphs = len([g for g in atlas(cmax) if len(g['nodes']) >= 2])
    n_pairs = len([1 for s in atlas(4) if len(s['nodes']) >= 2 for g in atlas(5) if len(g['nodes']) >= 2])
    n_reuse = 300 if quick else n_pairs
    n_cache = 60 if quick else 600
    n_random = 2400 if quick else 100000

    stages = [
        ('exhaustive', [(job_exhaustive, (pmax, gmax, lo, hi, deadline)) for lo, hi in slices(n_patterns, 6 if quick else 24)]),
        ('coloured_self', [(job_coloured_self, (cmax, lo, hi, deadline)) for lo, hi in slices(n_cgraphs, 4)]),
        ('family', [(job_family, (seed, name, 2 if quick else 6, 2 if quick else 12, deadline)) for name in sorted(family())]),
        ('reuse', [(job_reuse, (seed, lo, hi, deadline)) for lo, hi in slices(n_reuse, 50)]),
        ('cache', [(job_cache, (seed, lo, hi, deadline)) for lo, hi in slices(n_cache, 20)]),
    ]
    if not quick:
        stages.append(('atlas7', [(job_atlas7, (seed, lo, hi, deadline)) for lo, hi in slices(853, 20)]))
    stages.append(('random', [(job_random, (seed, lo, hi, quick, deadline)) for lo, hi in slices(n_random, 25 if quick else 250)]))
    jobs = [job for _, js in stages for job in js]
    owner = [name for name, js in stages for _ in js]

    parts = None
    try:
        import multiprocessing
        with multiprocessing.get_context('fork').Pool(workers) as pool:
            parts = pool.map(run_job, jobs, chunksize=1)
    except (ImportError, OSError, ValueError, AttributeError):
        parts = None
    if parts is None:
        parts = [run_job(job) for job in jobs]

    done = {}
    incomplete = set()
    for name, part in zip(owner, parts):
        done[name] = done.get(name, 0) + part['done']
        if part.get('incomplete'):
            incomplete.add(name)
        for fp, nontriv, sample in part['cases']:
            col.case(fp, nontriv, sample)
        for v in part['violations']:
            col.violation(v['key'], v['function'], v['what'], v['input'], v['observed'], v['expected'])
    col.shrink_all(per_key_s=2.0 if quick else 10.0)
    col.exhaustive = not ({'exhaustive', 'coloured_self'} & incomplete)
    col.bound = ('(a) %d labelled uncoloured patterns with <= %d nodes x %d graphs with <= %d nodes up to isomorphism; '
                 '(b) %d graphs with 2..%d nodes up to isomorphism x every node 2-colouring and every edge 2-colouring '
                 '(<= 8 edges) against itself; 4 queries each on fresh matchers'
                 % (n_patterns, pmax, len(atlas(gmax)), gmax, n_cgraphs, cmax))
    res = col.result()
    res['timing'] = dict(total_s=round(time.time() - t0, 1), cases_per_stage=done,
                         stages_cut_short_by_deadline=sorted(incomplete), workers=workers)
    return res


def replay_model(function, model):
    """counter-models of the helper contracts (make_partitions, intersect, ...) are not graph pairs."""
    return None

"""C19 bounded stand-in: mutation / modification requests hit exactly the residues they name.

The real code (AnnotateMutMod -> RepairGraph, parse_residue_spec) runs natively on many small systems; the
expectation comes from an oracle written from the property statement only:

  stage 1  parser      parse_residue_spec(s) against an independent reading of the documented grammar
                       [<chain>-][<resname>][[#]<resid>] (without '#': the longest digit suffix is the resid).
  stage 2  annotate    AnnotateMutMod(...).run_system(system) on generated systems; the oracle works on the
                       generator's own description of the residues and of the residue adjacency (never on
                       make_residue_graph / residue_matches) and says, for every atom, which requests mark it,
                       which requests match nowhere (must be reported at warning level), and whether an
                       error is due (unknown target of a request that matches something).
  stage 3  repair      AnnotateMutMod + RepairGraph on small peptides built from the blocks of the real charmm
                       force field (a fresh force-field object per case): a marked residue ends with exactly the
                       atom names of the requested block plus the extra atoms of the requested modifications, all
                       under the name of the requested block; residues no request names keep name, atoms and stay
                       unmarked. Some cases make several annotate+repair passes over the same system (the system
                       of a later pass is one that was annotated and repaired before); every pass is judged the
                       same way, each atom carrying each request exactly once.

Inputs the statement leaves open are not generated / not judged: the empty specification, 'nter'/'cter'
combined with a residue number, names containing '-' or '#', a name ending in a digit written without '#',
two different mutations or twice the same modification on one residue, a further pass over a residue that was
mutated in an earlier pass, modifications whose anchor does not exist in the residue, the target 'none',
unknown targets of requests that match nothing (error or report both accepted), residues that share
chain/number/name/insertion code inside one molecule, the order of the marks on an atom.
A trailing '#' ("PO4#") is read as "the name ends here, no number given": it is the only way to give the name
alone when it ends in a digit.
Repair cases run under a wall-clock limit (the common-subgraph search has exponential corner cases when
hydrogens are present on large residues); a case that hits it is dropped and counted in `bound`.
"""
import itertools
import logging
import random
import re
import time
from collections import Counter

from .common import Collector, REPO, load_cli  # noqa: F401  (REPO/load_cli: sys.path handling lives in common)

# the oracle's own notion of "protein residue": the twenty standard amino acids
STD_AMINO = {'ALA', 'ARG', 'ASN', 'ASP', 'CYS', 'GLN', 'GLU', 'GLY', 'HIS', 'ILE', 'LEU', 'LYS', 'MET', 'PHE',
             'PRO', 'SER', 'THR', 'TRP', 'TYR', 'VAL'}
TERMINI = ('nter', 'cter')
DIGITS = '0123456789'

_FF = {}


def force_field():
    if 'ff' not in _FF:
        import vermouth.forcefield
        _FF['ff'] = vermouth.forcefield.get_native_force_field('charmm')
    return _FF['ff']


# --------------------------------------------------------------------------------------------------------------
# stage 1: the specification grammar
# --------------------------------------------------------------------------------------------------------------

def oracle_parse(spec):
    """independent reading of [<chain>-][<resname>][[#]<resid>]; None = the statement does not say."""
    if spec.count('#') > 1:
        return None
    chain = None
    rest = spec
    if '-' in spec:
        cut = spec.index('-')
        chain, rest = spec[:cut], spec[cut + 1:]
        if chain == '' or '-' in rest or '#' in chain:
            return None
    if '#' in rest:
        # the separator ends the name; nothing behind it = no residue number given (the only way to write the
        # name alone when it ends in a digit)
        name, digits = rest.split('#')
        if any(ch not in DIGITS for ch in digits):
            return None
    else:
        # lazy name, then digits up to the end: the digits are the longest digit suffix
        name, digits = re.fullmatch(r'(.*?)([0-9]*)', rest, re.S).groups()
    out = {}
    if chain is not None:
        out['chain'] = chain
    if name:
        out['resname'] = name
    if digits:
        value = 0
        for ch in digits:
            value = value * 10 + DIGITS.index(ch)
        out['resid'] = value
    return out


def render_spec(chain, name, resid, hash_sep=False, zero_pad=0):
    """the string a user writes for the given parts ('#' is forced when the name ends in a digit)."""
    out = ''
    if chain is not None:
        out += chain + '-'
    if name is not None:
        out += name
    if resid is not None:
        if hash_sep or (name is not None and name[-1] in DIGITS):
            out += '#'
        out += '0' * zero_pad + str(resid)
    elif hash_sep or (name is not None and name[-1] in DIGITS):
        out += '#'
    return out


def stage_parser(col, rng, quick):
    from vermouth.processors.annotate_mut_mod import parse_residue_spec
    fn = 'parse_residue_spec'

    def one(spec, expected, tag):
        try:
            got = parse_residue_spec(spec)
        except Exception as err:  # pylint: disable=broad-except
            got = 'ERR %s' % type(err).__name__
        nontrivial = len(expected) >= 2 or any(ch in DIGITS for ch in expected.get('resname', ''))
        col.case(('parse', spec), nontrivial, dict(stage='parser', spec=spec, result=got))
        if got != expected:
            if isinstance(got, str):
                key = 'parse_residue_spec/error'
            elif '#' in spec:
                key = 'parse_residue_spec/hash-separator'
            elif got.get('chain') != expected.get('chain'):
                key = 'parse_residue_spec/chain'
            else:
                key = 'parse_residue_spec/digit-suffix'
            col.violation(key, fn, 'specification parsed differently from the documented grammar (%s)' % tag,
                          spec, got, expected)

    # exhaustive: every string of length <= 5 over a small alphabet (those the grammar decides)
    alphabet = 'Ab4-#' if quick else 'Ab40-#'
    n_exh = 0
    for length in range(0, 6):
        for tup in itertools.product(alphabet, repeat=length):
            spec = ''.join(tup)
            expected = oracle_parse(spec)
            if expected is None:
                continue
            n_exh += 1
            one(spec, expected, 'exhaustive')
    # constructive: parts -> string -> parts
    chains = [None, 'A', 'B', 'X', '1', 'AB', 'a']
    names = [None, 'ALA', 'PHE', 'GLY', 'PO4', 'C12', 'GL1', 'T3P', 'W', 'nter', 'cter', 'A1B2', '2MPA', 'HSE', 'x9']
    resids = [None, 0, 1, 5, 45, 100, 9999, 123456]
    for chain, name, resid in itertools.product(chains, names, resids):
        variants = [(False, 0), (True, 0)]
        if resid is not None:
            variants += [(False, 2), (True, 1)]
        for hash_sep, pad in variants:
            spec = render_spec(chain, name, resid, hash_sep, pad)
            expected = {}
            if chain is not None:
                expected['chain'] = chain
            if name is not None:
                expected['resname'] = name
            if resid is not None:
                expected['resid'] = resid
            # the constructive expectation and the grammar reading must agree, else the case is ambiguous
            if oracle_parse(spec) != expected:
                continue
            one(spec, expected, 'constructed')
    return n_exh


# --------------------------------------------------------------------------------------------------------------
# stage 2: which residues a request marks
# --------------------------------------------------------------------------------------------------------------
# description of a system, owned by the generator:
#   system   = [molecule, ...]
#   molecule = dict(residues=[(chain|None, resid, resname, icode|None), ...], edges=[(i, j), ...])

def neighbours(mol, idx):
    out = set()
    for i, j in mol['edges']:
        if i == idx and j != idx:
            out.add(j)
        if j == idx and i != idx:
            out.add(i)
    return out


def oracle_residue_matches(parts, mol, idx):
    """the statement: all given parts equal; nter/cter = protein residue with a single neighbour of higher/lower number."""
    chain, resid, resname, _icode = mol['residues'][idx]
    if 'chain' in parts and parts['chain'] != chain:
        return False
    if 'resid' in parts and parts['resid'] != resid:
        return False
    name = parts.get('resname')
    if name in TERMINI:
        near = neighbours(mol, idx)
        if len(near) != 1:
            return False
        if resname not in STD_AMINO:
            return False
        other = mol['residues'][next(iter(near))][1]
        return other > resid if name == 'nter' else other < resid
    if name is not None and name != resname:
        return False
    return True


def build_system(desc, rng, atoms_per_residue=(1, 3)):
    """real vermouth System for a description; returns (system, atom_keys[mol][res] -> list of node keys)."""
    from vermouth.molecule import Molecule
    from vermouth.system import System
    ff = force_field()
    system = System(force_field=ff)
    all_keys = []
    for mol in desc:
        molecule = Molecule(force_field=ff)
        n_res = len(mol['residues'])
        counts = [rng.randint(*atoms_per_residue) for _ in range(n_res)]
        # sparse, unordered node keys; atoms of different residues interleaved
        pool = rng.sample(range(0, 40 * (sum(counts) + 1)), sum(counts))
        owners = [r for r, cnt in enumerate(counts) for _ in range(cnt)]
        rng.shuffle(owners)
        keys = [[] for _ in range(n_res)]
        for key, owner in zip(pool, owners):
            chain, resid, resname, icode = mol['residues'][owner]
            attrs = dict(atomname='X%d' % len(keys[owner]), resname=resname, resid=resid, element='C')
            if chain is not None:
                attrs['chain'] = chain
            if icode is not None:
                attrs['insertion_code'] = icode
            molecule.add_node(key, **attrs)
            keys[owner].append(key)
        for ks in keys:
            for a, b in zip(ks, ks[1:]):
                molecule.add_edge(a, b)
        for i, j in mol['edges']:
            for _ in range(rng.choice((1, 1, 2))):
                molecule.add_edge(rng.choice(keys[i]), rng.choice(keys[j]))
        system.add_molecule(molecule)
        all_keys.append(keys)
    return system, all_keys


class _Capture(logging.Handler):
    def __init__(self):
        super().__init__(level=logging.WARNING)
        self.texts = []

    def emit(self, record):
        try:
            self.texts.append(record.getMessage())
        except Exception:  # pylint: disable=broad-except
            self.texts.append(str(record.msg))


def run_annotate(system, requests):
    """requests: [(kind, spec string, target)]; returns (error or None, warning texts)."""
    import vermouth
    logger = logging.getLogger('vermouth')
    handler = _Capture()
    old_level, old_prop = logger.level, logger.propagate
    logger.addHandler(handler)
    logger.setLevel(logging.WARNING)
    logger.propagate = False
    error = None
    try:
        mods = [(spec, target) for kind, spec, target in requests if kind == 'modification']
        muts = [(spec, target) for kind, spec, target in requests if kind == 'mutation']
        try:
            vermouth.AnnotateMutMod(modifications=mods, mutations=muts).run_system(system)
        except Exception as err:  # pylint: disable=broad-except
            error = err
    finally:
        logger.removeHandler(handler)
        logger.setLevel(old_level)
        logger.propagate = old_prop
    return error, handler.texts


def target_known(kind, target):
    ff = force_field()
    if kind == 'modification' and target == 'none':
        return True             # the placeholder that asks for no modification is always accepted
    return target in (ff.blocks if kind == 'mutation' else ff.modifications)


def spec_parts_of(req_parts):
    chain, name, resid = req_parts
    parts = {}
    if chain is not None:
        parts['chain'] = chain
    if name is not None:
        parts['resname'] = name
    if resid is not None:
        parts['resid'] = resid
    return parts


def check_annotate(col, desc, requests, rng, tag):
    """requests: [(kind, (chain, name, resid), hash_sep, target)]"""
    real_requests = []
    marks = []      # per request: set of (mol, res)
    for kind, req_parts, hash_sep, target in requests:
        spec = render_spec(*req_parts, hash_sep=hash_sep)
        parts = spec_parts_of(req_parts)
        real_requests.append((kind, spec, target))
        marks.append({(m, r) for m, mol in enumerate(desc) for r in range(len(mol['residues']))
                      if oracle_residue_matches(parts, mol, r)})
    must_fail = any(marks[q] and not target_known(kind, target)
                    for q, (kind, _s, target) in enumerate(real_requests))
    may_fail = any(not target_known(kind, target) for kind, _s, target in real_requests)
    unmatched = [q for q in range(len(requests)) if not marks[q]]
    inp = dict(system=[dict(residues=[list(r) for r in mol['residues']], edges=[list(e) for e in mol['edges']])
                       for mol in desc],
               requests=['%s %s:%s' % r for r in real_requests])
    system, keys = build_system(desc, rng)
    error, warnings = run_annotate(system, real_requests)
    n_marked = sum(len(m) for m in marks)
    n_res = sum(len(mol['residues']) for mol in desc)
    nontrivial = bool(requests) and 0 < n_marked and (n_marked < n_res * len(requests) or bool(unmatched))
    col.case(('annotate', repr(desc), repr(real_requests)), nontrivial,
             dict(stage='annotate', input=inp, marked=[sorted(m) for m in marks], warnings=warnings,
                  error=repr(error) if error else None))

    if must_fail:
        if error is None:
            col.violation('_resiter/unknown-target-accepted', '_resiter',
                          'a request that matches a residue names an unknown block/modification but no error is raised (%s)' % tag,
                          inp, 'no error', 'an error')
        return False
    if error is not None:
        if may_fail and isinstance(error, NameError):
            return False  # unknown target of a request that matches nothing: the statement allows an error
        col.violation('AnnotateMutMod.run_system/error-on-valid-requests/%s' % type(error).__name__,
                      'AnnotateMutMod.run_system' if isinstance(error, IndexError) else 'annotate_modifications',
                      'valid requests (known targets) end in an exception instead of marks and reports (%s)' % tag,
                      inp, '%s: %s' % (type(error).__name__, error), 'no error; unmatched requests reported')
        return False

    # marks on every atom
    mismatches = []
    for m, mol in enumerate(desc):
        molecule = system.molecules[m]
        for r in range(len(mol['residues'])):
            for kind in ('mutation', 'modification'):
                expected = Counter(real_requests[q][2] for q in range(len(requests))
                                   if real_requests[q][0] == kind and (m, r) in marks[q])
                per_atom = [Counter(molecule.nodes[k].get(kind) or []) for k in keys[m][r]]
                if all(c == expected for c in per_atom):
                    continue
                involved = set()
                for c in per_atom:
                    involved |= set((c - expected) + (expected - c))
                terminal = any(real_requests[q][2] in involved and requests[q][1][1] in TERMINI
                               and real_requests[q][0] == kind for q in range(len(requests)))
                where = 'terminal' if terminal else 'plain'
                func = '_terminal_matches' if terminal else 'residue_matches'
                if any(c != per_atom[0] for c in per_atom):
                    key, func, what = '_resiter/not-on-all-atoms', '_resiter', 'the atoms of one residue carry different marks'
                elif sum((per_atom[0] - expected).values()):
                    key, what = 'residue_matches/%s-marks-other-residue' % where, 'a residue the request does not name is marked'
                else:
                    key, what = 'residue_matches/%s-misses-residue' % where, 'a residue the request names is not marked'
                mismatches.append((key, func, '%s (%s, %s)' % (what, kind, tag),
                                   dict(inp, molecule=m, residue=list(mol['residues'][r])),
                                   [dict(c) for c in per_atom], dict(expected)))
    if mismatches and len(requests) > 1:
        # name the request that goes wrong: each request alone on the same system
        alone = [check_annotate(col, desc, [request], rng, tag + ', request isolated') for request in requests]
        if not any(alone):
            for key, func, what, where, observed, expected in mismatches:
                col.violation(key + '/only-in-combination', func, what, where, observed, expected)
    else:
        for mismatch in mismatches:
            col.violation(*mismatch)

    # reporting of requests that match nowhere
    klass = 'single-request' if len(requests) == 1 else 'multi-request'
    for q in unmatched:
        kind, spec, target = real_requests[q]
        needles = [target] + [str(p) for p in requests[q][1] if p is not None]
        if not any(all(n in text for n in needles) for text in warnings):
            col.violation('AnnotateMutMod.run_system/unmatched-not-reported/%s' % klass, 'AnnotateMutMod.run_system',
                          'a request that matches no residue in the whole system is not reported at warning level (%s)' % tag,
                          dict(inp, unmatched='%s %s:%s' % real_requests[q]), warnings,
                          'a warning naming %s' % needles)
    if not unmatched and warnings:
        col.violation('AnnotateMutMod.run_system/matched-reported-missing', 'AnnotateMutMod.run_system',
                      'every request matches a residue, yet a warning is emitted (%s)' % tag, inp, warnings, [])
    return bool(mismatches)


def R(chain, resid, name, icode=None):
    return (chain, resid, name, icode)


def fixed_molecules():
    return dict(
        linear=dict(residues=[R('A', 1, 'ALA'), R('A', 2, 'GLY'), R('A', 5, 'ALA')], edges=[(0, 1), (1, 2)]),
        descending=dict(residues=[R('B', 5, 'GLY'), R('B', 2, 'ALA'), R('B', 1, 'ALA')], edges=[(0, 1), (1, 2)]),
        star=dict(residues=[R('A', 2, 'GLY'), R('A', 1, 'ALA'), R('A', 5, 'ALA'), R('B', 1, 'GLY'), R('A', 2, 'ALA', 'A')],
                  edges=[(0, 1), (0, 2), (0, 3), (0, 4)]),
        nonprotein=dict(residues=[R('A', 1, 'PO4'), R('A', 2, 'PO4'), R('B', 5, 'GL1')], edges=[(0, 1), (1, 2)]),
        mixed=dict(residues=[R('A', 1, 'ALA'), R('A', 2, 'PO4'), R('A', 5, 'GLY')], edges=[(0, 1), (1, 2)]),
        icodes=dict(residues=[R('A', 2, 'GLY', ''), R('A', 5, 'ALA', ''), R('A', 5, 'ALA', 'A'), R('A', 5, 'GLY', 'B')],
                    edges=[(0, 1), (1, 2), (2, 3)]),
        single=dict(residues=[R('A', 1, 'ALA')], edges=[]),
        nochain=dict(residues=[R(None, 1, 'ALA'), R(None, 2, 'GLY')], edges=[(0, 1)]),
        ring=dict(residues=[R('A', 1, 'ALA'), R('A', 2, 'GLY'), R('A', 5, 'ALA')], edges=[(0, 1), (1, 2), (0, 2)]),
        bridged=dict(residues=[R('A', 1, 'ALA'), R('A', 2, 'GLY'), R('B', 1, 'GLY'), R('B', 2, 'ALA')],
                     edges=[(0, 1), (1, 2), (2, 3)]),
        equal=dict(residues=[R('B', 5, 'ALA'), R('B', 5, 'GLY')], edges=[(0, 1)]),
    )


def fixed_systems():
    mols = fixed_molecules()
    systems = [[mols[name]] for name in mols]
    for combo in (('linear', 'nonprotein'), ('descending', 'star', 'nochain'), ('linear', 'linear'),
                  ('icodes', 'mixed', 'bridged'), ('ring', 'nonprotein'), ('single', 'equal', 'descending')):
        systems.append([mols[name] for name in combo])
    return systems


def every_spec(chains, names, resids):
    for chain, name, resid in itertools.product([None] + chains, [None] + names, [None] + resids):
        if chain is None and name is None and resid is None:
            continue  # the empty specification: not decided by the statement
        if name in TERMINI and resid is not None:
            continue  # terminus together with a number: not decided by the statement
        yield (chain, name, resid)


PROTEIN_NAMES = ['ALA', 'GLY', 'SER', 'PHE', 'LYS']
OTHER_NAMES = ['PO4', 'GL1', 'C12', 'T3P', 'W', 'HOH', 'DA']


def random_molecule(rng):
    n_res = rng.choice((1, 2, 2, 3, 3, 4, 5, 6))
    flavour = rng.choice(('protein', 'protein', 'other', 'mixed'))
    residues = []
    seen = set()
    while len(residues) < n_res:
        if flavour == 'protein':
            name = rng.choice(PROTEIN_NAMES)
        elif flavour == 'other':
            name = rng.choice(OTHER_NAMES)
        else:
            name = rng.choice(PROTEIN_NAMES + OTHER_NAMES)
        res = R(rng.choice(('A', 'A', 'B', None)), rng.choice((1, 2, 3, 5, 45, 100)), name,
                rng.choice((None, None, '', 'A')))
        if res in seen:
            continue
        seen.add(res)
        residues.append(res)
    edges = []
    shape = rng.choice(('chain', 'tree', 'tree', 'extra'))
    for idx in range(1, n_res):
        parent = idx - 1 if shape == 'chain' else rng.randrange(idx)
        edges.append((parent, idx))
    if shape == 'extra' and n_res >= 3:
        i, j = rng.sample(range(n_res), 2)
        if (i, j) not in edges and (j, i) not in edges:
            edges.append((i, j))
    if rng.random() < 0.1 and edges:
        edges.pop(rng.randrange(len(edges)))  # a molecule in two pieces
    return dict(residues=residues, edges=edges)


MUT_TARGETS = ['ALA', 'GLY', 'SER', 'XXX', 'N-ter']
MOD_TARGETS = ['N-ter', 'C-ter', 'NH2-ter', 'FOO', 'ALA']


def random_request(rng, desc):
    pool = [res for mol in desc for res in mol['residues']]
    res = rng.choice(pool)
    roll = rng.random()
    if roll < 0.3:
        name = rng.choice(TERMINI)
        parts = (res[0] if rng.random() < 0.4 else None, name, None)
    else:
        chain = res[0] if rng.random() < 0.5 else None
        name = res[2] if rng.random() < 0.6 else None
        resid = res[1] if rng.random() < 0.6 else None
        if rng.random() < 0.2:   # perturb one part so that some requests match nothing
            which = rng.choice('cnr')
            if which == 'c':
                chain = rng.choice(('A', 'B', 'Z'))
            elif which == 'n':
                name = rng.choice(PROTEIN_NAMES + OTHER_NAMES)
            else:
                resid = rng.choice((1, 2, 3, 5, 45, 100, 999))
        if chain is None and name is None and resid is None:
            resid = res[1]
        parts = (chain, name, resid)
    kind = rng.choice(('mutation', 'modification'))
    weights = (5, 3, 2, 1, 1) if kind == 'mutation' else (5, 4, 2, 1, 1)
    target = rng.choices(MUT_TARGETS if kind == 'mutation' else MOD_TARGETS, weights)[0]
    hash_sep = parts[1] not in TERMINI and rng.random() < 0.3
    return (kind, parts, hash_sep, target)


def stage_annotate(col, rng, quick, deadline):
    systems = fixed_systems()
    specs = list(every_spec(['A', 'B'], ['ALA', 'GLY', 'PO4', 'nter', 'cter'], [1, 2, 5]))
    kinds = [('mutation', 'ALA'), ('mutation', 'XXX'), ('modification', 'N-ter'), ('modification', 'FOO')]
    key_rng = random.Random(19)
    n = 0
    for desc in systems:
        for parts in specs:
            for kind, target in kinds:
                check_annotate(col, desc, [(kind, parts, False, target)], key_rng, 'exhaustive single request')
                n += 1
    bound = '%d fixed systems (<= 3 molecules) x %d specifications (every subset of parts) x %d targets' % (
        len(systems), len(specs), len(kinds))
    # the empty request list and the empty system
    check_annotate(col, systems[0], [], key_rng, 'empty request list')
    check_annotate(col, [], [('mutation', ('A', 'ALA', 1), False, 'GLY')], key_rng, 'system without molecules')
    # pairs of known-target requests on the fixed systems: the bookkeeping of reports
    pair_specs = [('A', 'ALA', 1), (None, 'GLY', None), ('B', None, 5), (None, 'nter', None), ('A', 'cter', None),
                  ('Z', 'ALA', 1), (None, 'PHE', 45), (None, None, 999)]
    pair_kinds = [('mutation', 'ALA'), ('modification', 'C-ter')]
    pairs = list(itertools.product(itertools.product(pair_specs, pair_kinds), repeat=2))
    if quick:
        pairs = key_rng.sample(pairs, 60)
    for desc in systems if not quick else systems[::3]:
        for (p1, (k1, t1)), (p2, (k2, t2)) in pairs:
            check_annotate(col, desc, [(k1, p1, False, t1), (k2, p2, False, t2)], key_rng, 'pair of requests')
    # seeded random systems and request lists
    n_rand = 4000 if quick else 120000
    for _ in range(n_rand):
        if time.time() > deadline:
            break
        desc = [random_molecule(rng) for _m in range(rng.choice((1, 1, 2, 3)))]
        requests = [random_request(rng, desc) for _q in range(rng.choice((1, 2, 2, 3, 4)))]
        check_annotate(col, desc, requests, rng, 'random')
    return bound


# --------------------------------------------------------------------------------------------------------------
# stage 3: after repair the marked residue has the atoms of the requested block / modification
# --------------------------------------------------------------------------------------------------------------

def element_of(atomname):
    return atomname[0]


def fresh_force_field(block_names):
    """a new force field object per case (copies of the needed charmm blocks, the charmm modifications): whatever a
    case writes into its force field stays inside that case."""
    import vermouth.forcefield
    source = force_field()
    ff = vermouth.forcefield.ForceField(name=source.name)
    for name in block_names:
        block = source.blocks[name].copy()
        if hasattr(block, '_force_field'):
            block._force_field = ff  # pylint: disable=protected-access
        ff.blocks[name] = block
    ff.modifications = dict(source.modifications)
    return ff


def build_peptide(ff, seq, chain, resids, rng, with_h, drop_prob, add_oxt):
    """a peptide with the atoms (names, bonds) of the charmm blocks; returns (molecule, description)."""
    from vermouth.molecule import Molecule
    molecule = Molecule(force_field=ff)
    key = rng.randrange(0, 5)
    last_c = None
    residues = []
    for resname, resid in zip(seq, resids):
        block = ff.blocks[resname]
        local = {}
        for name in block.nodes:
            atomname = block.nodes[name]['atomname']
            if element_of(atomname) == 'H' and not with_h:
                continue
            if atomname not in ('N', 'CA', 'C', 'O') and element_of(atomname) != 'H' and rng.random() < drop_prob:
                continue
            molecule.add_node(key, atomname=atomname, resname=resname, resid=resid, chain=chain,
                              element=element_of(atomname))
            local[name] = key
            key += rng.choice((1, 1, 1, 3))
        for a, b in block.edges:
            if a in local and b in local:
                molecule.add_edge(local[a], local[b])
        if last_c is not None:
            molecule.add_edge(last_c, local['N'])
        last_c = local['C']
        residues.append(R(chain, resid, resname))
    if add_oxt:
        molecule.add_node(key, atomname='OXT', resname=seq[-1], resid=resids[-1], chain=chain, element='O')
        molecule.add_edge(last_c, key)
    desc = dict(residues=residues, edges=[(i, i + 1) for i in range(len(seq) - 1)])
    return molecule, desc


def block_atomnames(resname):
    block = force_field().blocks[resname]
    return Counter(block.nodes[n]['atomname'] for n in block.nodes)


def modification_extra_atomnames(modname):
    if modname == 'none':
        return Counter()        # the placeholder: "no modification here" - the plain block, surplus atoms removed
    mod = force_field().modifications[modname]
    return Counter(mod.nodes[n]['atomname'] for n in mod.nodes if mod.nodes[n].get('PTM_atom'))


REPAIR_NAMES = ['GLY', 'ALA', 'SER', 'CYS', 'VAL', 'THR', 'ASP', 'ASN']
REPAIR_BIG = ['PHE', 'LEU', 'LYS']
# the common-subgraph search of make_reference takes seconds to minutes for these when hydrogens are present
SLOW_WITH_H = {'VAL', 'PHE', 'LEU', 'LYS'}
SAFE_NAMES = [name for name in REPAIR_NAMES if name not in SLOW_WITH_H]


class _TimeLimit(BaseException):
    """not an Exception: must pass through every `except Exception` between the alarm and limited()."""


_LIMIT = dict(seconds=4.0, hit=0)


def _alarm_usable():
    import signal
    import threading
    return hasattr(signal, 'setitimer') and threading.current_thread() is threading.main_thread()


def limited(function, *args):
    """function(*args) under a wall-clock limit (the common-subgraph search of make_reference has exponential
    corner cases); a case that hits the limit is dropped, not judged. Without a usable alarm: no limit."""
    if not _alarm_usable():
        return function(*args)
    import signal

    def on_alarm(_signum, _frame):
        raise _TimeLimit()
    previous = signal.signal(signal.SIGALRM, on_alarm)
    signal.setitimer(signal.ITIMER_REAL, _LIMIT['seconds'])
    try:
        return function(*args)
    except _TimeLimit:
        _LIMIT['hit'] += 1
        logging.disable(logging.NOTSET)
        return False
    finally:
        signal.setitimer(signal.ITIMER_REAL, 0)
        signal.signal(signal.SIGALRM, previous)


def check_repair(col, rng, peptides, rounds, tag):
    """see _check_repair; cases that can be slow are only run when a time limit can be enforced."""
    heavy = (len(rounds) > 1 or any(pep[3] for pep in peptides))
    risky = any(name in SLOW_WITH_H for pep in peptides for name in pep[0]) or any(
        req[0] == 'mutation' and req[3] in SLOW_WITH_H for reqs in rounds for req in reqs)
    if heavy and risky:
        return False  # hydrogens (present from the start or built by an earlier pass) on the large residues: minutes
    if heavy and not _alarm_usable():
        return False
    return limited(_check_repair, col, rng, peptides, rounds, tag)


def _check_repair(col, rng, peptides, rounds, tag):
    """peptides: [(seq, chain, resids, with_h, drop_prob, add_oxt)]; rounds: [[request, ...], ...] (known targets), each
    round being one AnnotateMutMod + RepairGraph pass over the same system (requests as in check_annotate)."""
    import vermouth
    from vermouth.system import System
    everything = [(n, req) for n, reqs in enumerate(rounds) for req in reqs]
    ff = fresh_force_field({name for pep in peptides for name in pep[0]}
                           | {req[3] for _n, req in everything if req[0] == 'mutation'})
    system = System(force_field=ff)
    desc = []
    for pep in peptides:
        molecule, mol_desc = build_peptide(ff, pep[0], pep[1], pep[2], rng, *pep[3:])
        system.add_molecule(molecule)
        desc.append(mol_desc)
    rendered = [(kind, render_spec(*parts, hash_sep=hs), target) for _n, (kind, parts, hs, target) in everything]
    marks = [{(m, r) for m, mol in enumerate(desc) for r in range(len(mol['residues']))
              if oracle_residue_matches(spec_parts_of(req[1]), mol, r)} for _n, req in everything]
    if any(req[0] == 'mutation' and n != len(rounds) - 1 and marks[q] for q, (n, req) in enumerate(everything)):
        return False  # a further pass over an already mutated residue: not decided by the statement
    inp = dict(peptides=[dict(sequence=list(p[0]), chain=p[1], resids=list(p[2]), hydrogens=p[3], dropped=p[4], oxt=p[5])
                         for p in peptides],
               rounds=[['%s %s:%s' % rendered[q] for q, (n, _r) in enumerate(everything) if n == number]
                       for number in range(len(rounds))])

    def plan_upto(number):
        plan = {}
        for m, mol in enumerate(desc):
            for r in range(len(mol['residues'])):
                hit = [q for q, (n, _req) in enumerate(everything) if n <= number and (m, r) in marks[q]]
                muts = {rendered[q][2] for q in hit if rendered[q][0] == 'mutation'}
                mods = [rendered[q][2] for q in hit if rendered[q][0] == 'modification']
                if len(muts) > 1 or len(set(mods)) != len(mods):
                    return None  # two different mutations / twice the same modification: not decided by the statement
                plan[(m, r)] = (next(iter(muts)) if muts else None, mods)
        return plan

    if plan_upto(len(rounds) - 1) is None:
        return False

    names_before = {(m, r): None for m, mol in enumerate(desc) for r in range(len(mol['residues']))}

    def atoms_of(m, r):
        chain, resid, _name, _ic = desc[m]['residues'][r]
        molecule = system.molecules[m]
        return [molecule.nodes[k] for k in molecule.nodes
                if molecule.nodes[k].get('resid') == resid and molecule.nodes[k].get('chain') == chain]

    for where_key in names_before:
        names_before[where_key] = Counter(a.get('atomname') for a in atoms_of(*where_key))
    for number in range(len(rounds)):
        plan = plan_upto(number)
        later = '' if number == 0 else '/later-pass'
        this_round = [rendered[q] for q, (n, _r) in enumerate(everything) if n == number]
        error, _warnings = run_annotate(system, this_round)
        if error is not None:
            if number == 0:
                return False  # defects of the annotation of a fresh system are judged in stage 2
            probe = System(force_field=ff)
            for pep in peptides:
                probe.add_molecule(build_peptide(ff, pep[0], pep[1], pep[2], random.Random(0), *pep[3:])[0])
            if type(run_annotate(probe, this_round)[0]) is type(error):
                return False  # the same requests fail on a fresh system too: judged in stage 2
            col.violation('AnnotateMutMod.run_system/error-on-valid-requests%s/%s' % (later, type(error).__name__),
                          '_resiter', 'requests on a system that was annotated and repaired before end in an exception', inp,
                          '%s: %s' % (type(error).__name__, error), 'marks')
            return True
        # the marks, on every atom, each request once
        for (m, r), (mut, mods) in plan.items():
            for node in atoms_of(m, r):
                got = node.get('modification') or []
                if Counter(got) != Counter(mods):
                    if set(got) == set(mods):
                        key, what = '_resiter/mark-duplicated', 'an atom carries a request more often than it was made'
                    elif set(got) - set(mods):
                        key, what = 'residue_matches/peptide-marks-other-residue', 'an atom carries a request that does not name its residue'
                    else:
                        key, what = 'residue_matches/peptide-misses-residue', 'an atom of a named residue lacks the request'
                    col.violation(key + later, '_resiter', '%s (%s, pass %d)' % (what, tag, number + 1),
                                  dict(inp, molecule=m, residue=list(desc[m]['residues'][r]), atom=node.get('atomname')),
                                  list(got), mods)
                if number == len(rounds) - 1:
                    got = node.get('mutation') or []
                    if Counter(got) != Counter([mut] if mut else []) and set(got) != ({mut} if mut else set()):
                        col.violation('residue_matches/peptide-mutation-marks' + later, '_resiter',
                                      'mutation marks differ from the requests (%s)' % tag,
                                      dict(inp, molecule=m, residue=list(desc[m]['residues'][r]), atom=node.get('atomname')),
                                      list(got), [mut] if mut else [])
        logging.disable(logging.CRITICAL)
        try:
            try:
                vermouth.RepairGraph(include_graph=False).run_system(system)
            except Exception as err:  # pylint: disable=broad-except
                error = err
        finally:
            logging.disable(logging.NOTSET)
        marked = [k for k, (mut, mods) in plan.items() if mut or mods]
        col.case(('repair', repr(inp), number), bool(marked), dict(stage='repair', input=inp, marked=sorted(marked)))
        if error is not None:
            col.violation('RepairGraph/error-on-valid-requests%s/%s' % (later, type(error).__name__), 'make_reference',
                          'repair of a system with valid marks ends in an exception (%s, pass %d)' % (tag, number + 1), inp,
                          '%s: %s' % (type(error).__name__, error), 'repaired system')
            return True
        if len(system.molecules) != len(desc):
            col.violation('RepairGraph/molecule-lost', 'RepairGraph.run_system', 'molecules disappeared during repair', inp,
                          len(system.molecules), len(desc))
            return True
        for (m, r), (mut, mods) in plan.items():
            chain, resid, resname, _ic = desc[m]['residues'][r]
            atoms = atoms_of(m, r)
            got = Counter(a.get('atomname') for a in atoms)
            got_resnames = sorted({a.get('resname') for a in atoms})
            where = dict(inp, molecule=m, residue=[chain, resid, resname], mutation=mut, modifications=mods, after_pass=number + 1)
            if not (mut or mods):
                if got_resnames != [resname]:
                    col.violation('repair/unmarked-residue-renamed', '_get_reference_residue',
                                  'a residue no request names changed its residue name (%s)' % tag, where, got_resnames, [resname])
                if names_before[(m, r)] - got:
                    col.violation('repair_graph/unmarked-residue-loses-atoms', 'repair_graph',
                                  'a residue no request names lost atoms (%s)' % tag, where,
                                  sorted((names_before[(m, r)] - got).elements()), 'all atoms kept')
                stray = sorted({(key, repr(a.get(key))) for a in atoms for key in ('mutation', 'modification') if a.get(key)})
                if stray:
                    col.violation('_get_reference_residue/unmarked-residue-carries-mark', '_get_reference_residue',
                                  'after repair the atoms of a residue that no request names carry a mutation/modification '
                                  'mark (%s)' % tag, where, stray, 'no mark')
                continue
            final = mut or resname
            expected = block_atomnames(final)
            for mod in mods:
                expected = expected + modification_extra_atomnames(mod)
            surplus = got - expected
            lacking = expected - got
            kind = ('mutation' if mut else '') + ('+' if mut and mods else '') + ('modification' if mods else '')
            if surplus:
                col.violation('repair_graph/surplus-atoms-kept/%s%s' % (kind, later), 'repair_graph',
                              'the marked residue keeps atoms that the requested block/modification does not have (%s)' % tag,
                              where, sorted(surplus.elements()), 'atoms of %s %s only' % (final, mods))
            if lacking:
                col.violation('_get_reference_residue/atoms-missing/%s%s' % (kind, later), '_get_reference_residue',
                              'the marked residue lacks atoms of the requested block/modification (%s)' % tag,
                              where, sorted(lacking.elements()), 'all atoms of %s %s' % (final, mods))
            wrong = sorted(a.get('atomname') for a in atoms if a.get('resname') != final)
            if wrong:
                mod_names = set()
                for mod in mods:
                    mod_names |= set(modification_extra_atomnames(mod))
                which = 'modification-atoms' if set(wrong) <= mod_names else 'block-atoms'
                col.violation('repair_residue/resname-after-mutation/%s' % which, 'repair_residue',
                              'atoms of the marked residue do not carry the name of the requested block, so the residue '
                              'falls apart into two residues (%s)' % tag,
                              where, dict(atoms_with_other_resname=wrong, resnames=got_resnames), [final])
    return True


def random_repair_request(rng, desc, targets):
    pool = [res for mol in desc for res in mol['residues']]
    res = rng.choice(pool)
    roll = rng.random()
    if roll < 0.35:
        name = rng.choice(TERMINI)
        parts = (res[0] if rng.random() < 0.3 else None, name, None)
        target = rng.choice(('N-ter', 'NH2-ter', 'none') if name == 'nter' else ('C-ter', 'COOH-ter', 'none'))
        return ('modification', parts, False, target)
    chain = res[0] if rng.random() < 0.5 else None
    name = res[2] if rng.random() < 0.6 else None
    resid = res[1] if rng.random() < 0.7 or name is None else None
    parts = (chain, name, resid)
    if roll < 0.85:
        return ('mutation', parts, rng.random() < 0.3, rng.choice(targets))
    return ('modification', parts, False, rng.choice(('N-ter', 'C-ter', 'NH2-ter', 'COOH-ter', 'none')))


def stage_repair(col, rng, quick, deadline):
    # a fixed family first: every (source, target) pair of the small residues in the middle of a tripeptide
    fixed_rng = random.Random(7)
    names = REPAIR_NAMES[:5] if quick else REPAIR_NAMES
    for src, dst in itertools.product(names, repeat=2):
        if time.time() > deadline:
            return
        pep = (['ALA', src, 'GLY'], 'A', [1, 2, 3], False, 0.0, True)
        reqs = [('mutation', ('A', src, 2), False, dst), ('modification', (None, 'nter', None), False, 'N-ter'),
                ('modification', (None, 'cter', None), False, 'C-ter')]
        check_repair(col, fixed_rng, [pep], [reqs], 'mutation matrix')
    # mutation of the termini together with the terminal modifications, with hydrogens, with an OXT but no request
    for src, dst in (('SER', 'ALA'), ('ALA', 'SER'), ('PHE', 'ALA'), ('GLY', 'VAL'), ('CYS', 'GLY')):
        if time.time() > deadline:
            return
        pep = ([src, 'GLY', src], 'B', [5, 6, 7], src not in SLOW_WITH_H and dst not in SLOW_WITH_H, 0.0, True)
        termini = [('modification', ('B', 'nter', None), False, 'NH2-ter'),
                   ('modification', ('B', 'cter', None), False, 'COOH-ter')]
        check_repair(col, fixed_rng, [pep], [[('mutation', (None, src, None), False, dst)] + termini], 'termini')
        check_repair(col, fixed_rng, [pep], [[('mutation', (None, None, 7), False, dst)]], 'surplus OXT')
        # the placeholder 'none' (martinize2 -cter none): the plain block, so the surplus OXT has to go - alone, with the other
        # terminus modified, and together with a mutation
        check_repair(col, fixed_rng, [pep], [[('modification', ('B', 'cter', None), False, 'none')]], 'cter none')
        check_repair(col, fixed_rng, [pep], [[('modification', ('B', 'cter', None), False, 'none'),
                                              ('modification', ('B', 'nter', None), False, 'NH2-ter')]], 'cter none + nter')
        check_repair(col, fixed_rng, [pep], [[('modification', (None, None, 7), False, 'none'),
                                              ('mutation', (None, None, 7), False, dst)]], 'none + mutation')
        # a second pass over a system that was annotated and repaired before
        check_repair(col, fixed_rng, [pep], [termini, [('modification', ('B', src, 5), False, 'C-ter'),
                                                       ('mutation', ('B', 'GLY', None), False, dst)]], 'second pass')
        check_repair(col, fixed_rng, [pep], [termini, [('modification', (None, None, 7), False, 'N-ter')],
                                             [('mutation', (None, None, 6), True, 'ALA')]], 'third pass')
    n_rand = 150 if quick else 6000
    done = 0
    attempts = 0
    while done < n_rand and attempts < 20 * n_rand and time.time() < deadline:
        attempts += 1
        peptides = []
        n_rounds = rng.choice((1, 1, 2))
        all_h = rng.random() < 0.4
        light = n_rounds > 1 or all_h   # see check_repair: these stay away from the large residues
        for chain in rng.sample(['A', 'B', 'C'], rng.choice((1, 1, 2))):
            length = rng.choice((2, 3, 3, 4))
            big = rng.random() < 0.2
            names = SAFE_NAMES if light else REPAIR_NAMES + (REPAIR_BIG if big else [])
            seq = [rng.choice(names) for _ in range(length)]
            start = rng.choice((1, 2, 10, 45, 99))
            step = rng.choice((1, 1, 2, -1))
            resids = [start + step * i for i in range(length)]
            if min(resids) < 0:
                continue
            with_h = all_h
            peptides.append((seq, chain, resids, with_h, rng.choice((0.0, 0.0, 0.2)), rng.random() < 0.5))
        if not peptides:
            continue
        desc = [dict(residues=[R(p[1], i, n) for n, i in zip(p[0], p[2])],
                     edges=[(i, i + 1) for i in range(len(p[0]) - 1)]) for p in peptides]
        rounds = [[random_repair_request(rng, desc, SAFE_NAMES if light else REPAIR_NAMES)
                   for _ in range(rng.choice((1, 2, 3)))] for _ in range(n_rounds)]
        if check_repair(col, rng, peptides, rounds, 'random'):
            done += 1


# --------------------------------------------------------------------------------------------------------------

def bounded(tier, seed):
    quick = tier != 'thorough'
    rng = random.Random(seed)
    start = time.time()
    col = Collector('parser: every string of length <= 5 over a 5/6-letter alphabet that the grammar decides, plus every '
                    'combination of 7 chains x 15 names (incl. names ending in / containing digits) x 8 numbers, with and '
                    'without "#", zero padded; annotate: fixed systems of <= 3 molecules (linear, descending numbers, star, '
                    'ring, non-protein, protein next to non-protein, insertion codes, no chain, equal numbers, two chains in '
                    'one molecule, repeated ids across molecules; sparse shuffled interleaved node keys) x every subset of '
                    'specification parts x known/unknown mutation and modification targets, the empty request list, the '
                    'empty system, pairs of requests, then seeded random systems (trees, cycles, split molecules) with 1-4 '
                    'requests; repair: tripeptides of charmm blocks, every source->target pair of small residues with '
                    'terminal modifications, then seeded random peptides (1-2 chains, hydrogens or not, missing side-chain '
                    'atoms, surplus OXT, descending numbering, 1-2 annotate+repair passes). non-trivial = a request marks some but not all residues / a '
                    'specification with >= 2 parts or digits in the name / a repaired system with a marked residue')
    logging.getLogger('vermouth').addHandler(logging.NullHandler())
    total = 45.0 if quick else 780.0
    _LIMIT.update(seconds=4.0 if quick else 20.0, hit=0)
    n_exh = stage_parser(col, rng, quick)
    bound = stage_annotate(col, rng, quick, start + total * 0.55)
    stage_repair(col, rng, quick, start + total)
    col.exhaustive = True
    col.bound = ('parser: %d strings of length <= 5 decided by the grammar; annotate: %s (single requests); '
                 'the random and repair parts are samples (%d repair cases dropped at the %g s limit)'
                 % (n_exh, bound, _LIMIT['hit'], _LIMIT['seconds']))
    return col.result()


def replay_model(function, model):
    """counter-model of a contract obligation -> native run against the oracle (parser only; others: None)."""
    try:
        if 'parse_residue_spec' in function:
            spec = model.get('resspec')
            if not isinstance(spec, str):
                return None
            expected = oracle_parse(spec)
            if expected is None or any(ord(ch) > 127 for ch in spec):
                return None
            from vermouth.processors.annotate_mut_mod import parse_residue_spec
            try:
                got = parse_residue_spec(spec)
            except Exception as err:  # pylint: disable=broad-except
                got = 'ERR %s' % type(err).__name__
            if got != expected:
                return dict(key='parse_residue_spec/replay', function='parse_residue_spec', what='replayed counter-model',
                            input=spec, observed=got, expected=expected)
    except Exception:  # pylint: disable=broad-except
        return None
    return None

"""C13 bounded stand-in, mapping part: backward-style .map files (read_backmapping_file) and new-style .mapping
files (MappingDirector / read_mapping_file / read_mapping_directory) are written from a random declaration and
what was loaded is compared with the declaration. The force fields the mappings refer to are built through the
object API (no parser of /repo involved)."""
import os
import shutil
import tempfile
import time
import zlib

from . import c13_ff as F

FINE = ['N', 'HN', 'CA', 'HA', 'CB', 'C', 'O', 'CG', 'CD', 'OXT']
BEADS = ['BB', 'SC1', 'SC2', 'SC3', 'SC4']


def crc(lines):
    return zlib.crc32('\n'.join(lines).encode())


def noise(rng, lines):
    """comments / blank lines sprinkled between the lines of a file."""
    out = []
    for ln in lines:
        if rng.random() < 0.1:
            ln += rng.choice([' ; comment', ';x'])
        out.append(ln)
        if rng.random() < 0.07:
            out.append(rng.choice(['', '; note', '  ']))
    return out


def hdr(rng, name):
    return rng.choice(['[ %s ]', '[%s]', '[ %s]', '[%s ]']) % name


# ================================================================================================= backward .map
def make_world(rng):
    """force fields with blocks; node keys are sparse, unordered integers on the fine side, names on the coarse side."""
    from vermouth.forcefield import ForceField
    from vermouth.molecule import Block
    ffs = {n: ForceField(name=n) for n in ['universal', 'martini22', 'ffA', 'ffB', 'cg2']}
    table = {}     # (ff, block) -> {atomname: node key}
    molnames = ['ALA', 'GLY', 'LYS', 'POPC', 'W', 'CHOL']
    for mol in molnames:
        fine = rng.sample(FINE, rng.randint(2, 6))
        beads = rng.sample(BEADS, rng.randint(1, 4))
        for ffname in ['universal', 'ffA', 'ffB']:
            if ffname != 'universal' and rng.random() < 0.25:
                continue
            blk = Block(force_field=ffs[ffname], name=mol, nrexcl=1)
            keys = rng.sample(range(0, 40), len(fine))
            for key, an in zip(keys, fine):
                blk.add_node(key, atomname=an, resname=mol, resid=1)
            ffs[ffname].blocks[mol] = blk
            table[(ffname, mol)] = dict(zip(fine, keys))
        for ffname in ['martini22', 'cg2']:
            if ffname != 'martini22' and rng.random() < 0.25:
                continue
            blk = Block(force_field=ffs[ffname], name=mol, nrexcl=1)
            for n, bead in enumerate(beads):
                key = bead if ffname == 'martini22' else 10 * n + 3
                blk.add_node(key, atomname=bead, resname=mol, resid=1)
            ffs[ffname].blocks[mol] = blk
            table[(ffname, mol)] = {b: (b if ffname == 'martini22' else 10 * n + 3) for n, b in enumerate(beads)}
        table[('fine', mol)] = fine
        table[('beads', mol)] = beads
    return ffs, table, molnames


def gen_backmap(rng, table, molnames):
    """-> (lines, expected {(from, to, name): (mapping by node key, extra)})"""
    lines, exp = [], {}
    for mol in rng.sample(molnames, rng.randint(1, 4)):
        fine, beads = table[('fine', mol)], table[('beads', mol)]
        lines.append(hdr(rng, 'molecule'))
        lines.append(mol)
        from_ffs = rng.choice([None, ['universal'], ['ffA'], ['universal', 'ffA'], ['ffA', 'ffB'], ['ffB', 'universal', 'ffA']])
        to_ffs = rng.choice([None, ['martini22'], ['cg2'], ['martini22', 'cg2']])
        sections = []
        if from_ffs is not None:
            name = rng.choice(['from', 'mapping'])
            if len(from_ffs) > 1 and rng.random() < 0.5:
                sections.append([hdr(rng, name)] + from_ffs)            # one name per line
            else:
                sections.append([hdr(rng, name), ' '.join(from_ffs)])
        if to_ffs is not None:
            sections.append([hdr(rng, 'to')] + ([' '.join(to_ffs)] if rng.random() < 0.5 else to_ffs))
        sections.append([hdr(rng, 'martini'), ' '.join(beads)])
        weights = {}
        atom_lines = []
        for n, atom in enumerate(rng.sample(fine, rng.randint(1, len(fine))), 1):
            style = rng.random()
            if style < 0.3:
                targets = [rng.choice(beads)]
            elif style < 0.5:
                targets = [rng.choice(beads)] * rng.randint(2, 3)                     # one bead repeated
            elif style < 0.6:
                targets = []
            else:
                targets = [rng.choice(beads) for _ in range(rng.randint(1, 5))]        # several beads, multiplicity
            nonnull = set(targets)
            nulls = [b for b in beads if b not in nonnull]
            marked = ['!' + b for b in rng.sample(nulls, rng.randint(0, min(2, len(nulls))))] if rng.random() < 0.4 else []
            if marked and rng.random() < 0.3:
                marked.append(marked[0])
            written = targets + marked
            rng.shuffle(written)
            atom_lines.append('%d %s %s' % (n, atom, ' '.join(written)))
            w = {}
            for b in nonnull:
                w[b] = targets.count(b) / len(targets)
            for m in marked:
                w[m[1:]] = 0
            weights[atom] = w
        cut = rng.randint(0, len(atom_lines)) if rng.random() < 0.2 else len(atom_lines)
        sections.append([hdr(rng, 'atoms')] + atom_lines[:cut])
        if cut < len(atom_lines):
            sections.append([hdr(rng, 'atoms')] + atom_lines[cut:])                    # the section repeated
        extra = None
        if rng.random() < 0.3:
            extra = rng.sample(['XA', 'XB', 'XC'], rng.randint(1, 2))
            sections.append([hdr(rng, 'extra'), ' '.join(extra)])
        for ignored in rng.sample(['chiral', 'trans', 'out'], rng.randint(0, 2)):
            sections.append([hdr(rng, ignored), 'CB CA N C', 'HA CA N CB C'])
        # keep the relative order of the two [atoms] parts, everything else in any order
        order = list(range(len(sections)))
        rng.shuffle(order)
        atom_idx = sorted(i for i in order if sections[i][0].strip('[ ]') == 'atoms')
        placed, it = [], iter(atom_idx)
        for i in order:
            placed.append(next(it) if sections[i][0].strip('[ ]') == 'atoms' else i)
        for i in placed:
            lines.extend(sections[i])
        for f in (from_ffs or ['universal']):
            for t in (to_ffs or ['martini22']):
                if (f, mol) in table and (t, mol) in table:
                    mapping = {}
                    for atom, w in weights.items():
                        if w:
                            mapping[table[(f, mol)][atom]] = {table[(t, mol)][b]: x for b, x in w.items()}
                    exp[(f, t, mol)] = (mapping, extra or [])
    return noise(rng, lines), exp


def same_weights(got, exp):
    if set(got) != set(exp):
        return False
    for k in exp:
        if set(got[k]) != set(exp[k]):
            return False
        for j in exp[k]:
            if abs(got[k][j] - exp[k][j]) > 1e-12:
                return False
    return True


def plain(d):
    return {str(k): {str(j): x for j, x in dict(v).items()} for k, v in dict(d).items()}


def check_backmap(col, rng, ffs, table, molnames, via_directory=False):
    from vermouth.map_input import read_backmapping_file, read_mapping_directory
    lines, exp = gen_backmap(rng, table, molnames)

    def report(key, function, what, observed, expected):
        col.violation(key, function, what, dict(format='.map', file=lines,
                                                 blocks={'%s/%s' % k: v for k, v in table.items() if k[0] not in ('fine', 'beads')}),
                      observed, expected)

    col.case(('map', crc(lines)), len(exp) >= 2, dict(kind='.map', lines=len(lines), mappings=sorted('%s>%s:%s' % k for k in exp)))
    try:
        if via_directory:
            tmp = tempfile.mkdtemp()
            try:
                with open(os.path.join(tmp, 'x.map'), 'w') as out:
                    out.write('\n'.join(lines) + '\n')
                got = read_mapping_directory(tmp, ffs)
            finally:
                shutil.rmtree(tmp, ignore_errors=True)
        else:
            got = read_backmapping_file(lines, ffs)
    except Exception as exc:
        report('read_backmapping_file/rejects-well-formed', 'read_backmapping_file', 'a well-formed .map file was rejected',
               '%s: %s' % (type(exc).__name__, exc), 'loads')
        return
    triples = sorted((f, t, n) for f in got for t in got[f] for n in got[f][t])
    if triples != sorted(exp):
        report('read_backmapping_file/mappings-exactly-once', 'read_backmapping_file',
               'the (from, to, molecule) mappings loaded are not exactly the declared ones', triples, sorted(exp))
        return
    for (f, t, n), (mapping, extra) in exp.items():
        obj = got[f][t][n]
        if not same_weights(plain(obj.mapping), plain(mapping)):
            report('read_backmapping_file/weights', '_compute_weights',
                   'weights do not reflect multiplicity / "!" markers (weight = occurrences of the bead / number of non-! beads on the line; !bead = 0) for %s>%s:%s' % (f, t, n),
                   plain(obj.mapping), plain(mapping))
        if list(obj.block_to.extra) != list(extra):
            report('read_backmapping_file/extra', '_read_mapping_partial', '[extra] differs', list(obj.block_to.extra), list(extra))
        if tuple(obj.names) != (n,) or obj.ff_from is not ffs[f] or obj.ff_to is not ffs[t]:
            report('read_backmapping_file/header', 'make_mapping_object', 'names / force fields differ',
                   [list(obj.names), str(obj.ff_from), str(obj.ff_to)], [[n], f, t])
        if set(obj.block_from.nodes) != set(mapping) or set(obj.block_to.nodes) != set(table[(t, n)].values()):
            report('read_backmapping_file/blocks', 'make_mapping_object', 'block_from is not the mapped atoms / block_to not the whole target block',
                   [sorted(map(str, obj.block_from.nodes)), sorted(map(str, obj.block_to.nodes))],
                   [sorted(map(str, mapping)), sorted(map(str, table[(t, n)].values()))])


# ================================================================================================= new-style .mapping
RES = {
    'ALA': (['N', 'CA', 'CB', 'C', 'O'], [('N', 'CA'), ('CA', 'CB'), ('CA', 'C'), ('C', 'O')], ['BB']),
    'GLY': (['N', 'CA', 'C', 'O'], [('N', 'CA'), ('CA', 'C'), ('C', 'O')], ['BB']),
    'LYS': (['N', 'CA', 'CB', 'CG', 'CD', 'C', 'O'], [('N', 'CA'), ('CA', 'CB'), ('CB', 'CG'), ('CG', 'CD'), ('CA', 'C'), ('C', 'O')],
            ['BB', 'SC1', 'SC2']),
}
MODS = {'C-ter': (['CA', 'C', 'O', 'OXT'], [('CA', 'C'), ('C', 'O'), ('C', 'OXT')], ['BB']),
        'N-ter': (['CA', 'N', 'HN2', 'HN3'], [('CA', 'N'), ('N', 'HN2'), ('N', 'HN3')], ['BB'])}


def make_world2():
    from vermouth.forcefield import ForceField
    from vermouth.molecule import Block, Modification
    ffs = {n: ForceField(name=n) for n in ['aa', 'aa2', 'cg']}
    for res, (atoms, edges, beads) in RES.items():
        for ffname, names, es in (('aa', atoms, edges), ('aa2', atoms, edges), ('cg', beads, list(zip(beads[:-1], beads[1:])))):
            blk = Block(force_field=ffs[ffname], name=res, nrexcl=1)
            for n, an in enumerate(names, 1):
                blk.add_atom(dict(atomname=an, resname=res, resid=1, atype='X', charge_group=n))
            blk.add_edges_from(es)
            ffs[ffname].blocks[res] = blk
    for mod, (atoms, edges, beads) in MODS.items():
        for ffname, names, es in (('aa', atoms, edges), ('cg', beads, [])):
            m = Modification(force_field=ffs[ffname], name=mod)
            for an in names:
                m.add_node(an, atomname=an, PTM_atom=an in ('OXT', 'HN2', 'HN3'), order=0)
            m.add_edges_from(es)
            ffs[ffname].modifications[mod] = m
    return ffs


def gen_mapping_entry(rng, macros):
    """one [block] or [modification] mapping -> (tagged lines, expectation)"""
    L = []

    def emit(text, kind):
        L.append([text, kind])

    def mtok(value):
        names = [n for n, v in macros.items() if v == value]
        return '$' + rng.choice(names) if names and rng.random() < 0.5 else value

    ff_from = rng.choice(['aa', 'aa', 'aa2'])
    if rng.random() < 0.25:
        # ------------------------------------------------------------------ modification
        mod = rng.choice(sorted(MODS))
        atoms, edges, beads = MODS[mod]
        emit(hdr(rng, 'modification'), 'top')
        parts = [[(hdr(rng, 'from'), 'sub'), (mtok('aa'), 'ffname')], [(hdr(rng, 'to'), 'sub'), (mtok('cg'), 'ffname')]]
        rng.shuffle(parts)
        for p in parts:
            for t, k in p:
                emit(t, k)
        parts = [[(hdr(rng, 'from blocks'), 'sub'), (mod, 'blocks')], [(hdr(rng, 'to blocks'), 'sub'), (mod, 'blocks')]]
        rng.shuffle(parts)
        for p in parts:
            for t, k in p:
                emit(t, k)
        extra_nodes = rng.sample(['XN', 'XH', 'XO'], rng.randint(0, 2))
        exp_edges = {frozenset(((1, a), (1, b))) for a, b in edges}
        if extra_nodes:
            emit(hdr(rng, 'from nodes'), 'sub')
            for x in extra_nodes:
                emit(x, 'nodes')
            emit(hdr(rng, 'from edges'), 'sub')
            for x in extra_nodes:
                other = rng.choice(atoms)
                emit('%s %s' % (x, other), 'edges')
                exp_edges.add(frozenset(((1, x), (1, other))))
        emit(hdr(rng, 'mapping'), 'sub')
        mapping = {}
        mapped = rng.sample(atoms, rng.randint(1, len(atoms))) + extra_nodes
        rng.shuffle(mapped)
        for a in mapped:
            w = rng.choice([None, None, 1, 0, 2, 3])
            emit('%s %s' % (a, beads[0]) + ('' if w is None else ' %s' % mtok(str(w))), 'mapping')
            mapping[(1, a)] = {(1, beads[0]): 1 if w is None else w}
        exp = dict(type='modification', names=[mod], ff_from='aa', ff_to='cg', mapping=mapping, references={},
                   from_nodes=sorted(mapping), to_nodes=sorted((1, b) for b in beads),
                   from_edges={e for e in exp_edges if all(n in mapping for n in e)})
        return L, exp
    # ---------------------------------------------------------------------- block
    nres = rng.choice([1, 1, 2, 2, 3])
    residues = [rng.choice(sorted(RES)) for _ in range(nres)]
    style = rng.choice(['short', 'numbered', 'long'])
    if style == 'short':
        idents = list(residues)
        if len(set(idents)) < len(idents):
            style = 'numbered'
    if style == 'numbered':
        idents = ['%s#%d' % (r, n) for n, r in enumerate(residues, 1)]
    if style == 'long':
        idents = ['r%d' % n for n in range(1, nres + 1)]
    emit(hdr(rng, 'block'), 'top')

    def blocks_section(direction):
        out = [(hdr(rng, direction + ' blocks'), 'sub')]
        if style == 'long':
            for n, (i, r) in enumerate(zip(idents, residues), 1):
                out.append(('%s {"resname": "%s", "resid": %d}' % (i, r, n), 'blocks'))
        elif rng.random() < 0.5 or nres == 1:
            out.append((' '.join(idents), 'blocks'))
        else:
            # shorthand over several lines: only unambiguous when the residue numbers are written
            if style == 'short':
                out.append((' '.join(idents), 'blocks'))
            else:
                out.extend((i, 'blocks') for i in idents)
        return out

    head = [[(hdr(rng, 'from'), 'sub'), (mtok(ff_from), 'ffname')], [(hdr(rng, 'to'), 'sub'), (mtok('cg'), 'ffname')]]
    rng.shuffle(head)
    seq = head[0] + head[1]
    blocks = [blocks_section('from'), blocks_section('to')]
    rng.shuffle(blocks)
    seq += blocks[0] + blocks[1]
    for t, k in seq:
        emit(t, k)
    last = {'from': None, 'to': None}

    def spec(direction, n, atom):
        """an atom of residue n (1-based), written with or without its identifier when that is unambiguous."""
        ident = idents[n - 1]
        if (nres == 1 or last[direction] == n) and rng.random() < 0.5:
            return atom
        last[direction] = n
        return '%s:%s' % (ident, atom)

    exp_edges = set()
    for n, r in enumerate(residues, 1):
        exp_edges |= {frozenset(((n, a), (n, b))) for a, b in RES[r][1]}
    extra_from, extra_to = [], []
    if rng.random() < 0.4:
        emit(hdr(rng, 'from nodes'), 'sub')
        for _ in range(rng.randint(1, 2)):
            n, x = rng.randint(1, nres), rng.choice(['XH', 'XO', 'XN'])
            if (n, x) in extra_from:
                continue
            attrs = rng.choice([None, {'element': 'H'}, {'a': 1}])
            emit(spec('from', n, x) + ('' if attrs is None else ' ' + F.json.dumps(attrs)), 'nodes')
            extra_from.append((n, x))
        emit(hdr(rng, 'from edges'), 'sub')
        for (n, x) in extra_from:
            other = rng.choice(RES[residues[n - 1]][0])
            emit('%s %s' % (spec('from', n, x), spec('from', n, other)), 'edges')
            exp_edges.add(frozenset(((n, x), (n, other))))
    if nres >= 2 and rng.random() < 0.5:
        if not extra_from:
            emit(hdr(rng, 'from edges'), 'sub')
        emit('%s %s' % (spec('from', 1, 'C'), spec('from', 2, 'N')), 'edges')
        exp_edges.add(frozenset(((1, 'C'), (2, 'N'))))
    if rng.random() < 0.25:
        emit(hdr(rng, 'to nodes'), 'sub')
        n = rng.randint(1, nres)
        emit(spec('to', n, 'VS'), 'nodes')
        extra_to.append((n, 'VS'))
    emit(hdr(rng, 'mapping'), 'sub')
    mapping = {}
    candidates = [(n, a) for n, r in enumerate(residues, 1) for a in RES[r][0]] + extra_from
    targets = [(n, b) for n, r in enumerate(residues, 1) for b in RES[r][2]] + extra_to
    chosen = rng.sample(candidates, rng.randint(1, len(candidates)))
    for x in extra_from:
        if x not in chosen:
            chosen.append(x)
    for (n, a) in chosen:
        for tgt in rng.sample(targets, min(len(targets), rng.choice([1, 1, 1, 2]))):
            w = rng.choice([None, None, 1, 0, 2, 5])
            emit('%s %s' % (spec('from', n, a), spec('to', tgt[0], tgt[1])) + ('' if w is None else ' %s' % mtok(str(w))), 'mapping')
            mapping.setdefault((n, a), {})[tgt] = 1 if w is None else w
    references = {}
    if rng.random() < 0.3:
        emit(hdr(rng, 'reference atoms'), 'sub')
        tgt = rng.choice(sorted({t for v in mapping.values() for t in v}))
        sources = sorted(s for s, v in mapping.items() if tgt in v)
        src = rng.choice(sources)
        emit('%s %s' % (spec('to', tgt[0], tgt[1]), spec('from', src[0], src[1])), 'reference')
        references[tgt] = src
    exp = dict(type='block', names=list(residues), ff_from=ff_from, ff_to='cg', mapping=mapping, references=references,
               from_nodes=sorted(mapping), to_nodes=sorted(targets),
               from_edges={e for e in exp_edges if all(n in mapping for n in e)})
    return L, exp


def gen_mapping_file(rng, nmap):
    macros = {}
    tagged, exps = [], []
    for n in range(nmap):
        if rng.random() < 0.35:
            tagged.append([hdr(rng, 'macros'), 'top'])
            for _ in range(rng.randint(1, 2)):
                name, value = rng.choice(['f', 'w', 'c', 'two']), rng.choice(['aa', 'cg', '2', '0', 'aa2', '5'])
                tagged.append(['%s %s' % (name, value), 'macro'])
                macros[name] = value
        L, exp = gen_mapping_entry(rng, macros)
        tagged.extend(L)
        exps.append(exp)
    return tagged, exps


def observe_mapping(m):
    def ident(block, key):
        node = block.nodes[key]
        return (node.get('resid'), node.get('atomname'))
    mapping = {}
    for f, targets in dict(m.mapping).items():
        mapping[ident(m.block_from, f)] = {ident(m.block_to, t): w for t, w in dict(targets).items()}
    return dict(type=m.type, names=list(m.names), ff_from=m.ff_from, ff_to=m.ff_to, mapping=mapping,
                references={ident(m.block_to, t): ident(m.block_from, f) for t, f in dict(m.references).items()},
                from_nodes=sorted(ident(m.block_from, k) for k in m.block_from.nodes),
                to_nodes=sorted(ident(m.block_to, k) for k in m.block_to.nodes),
                from_edges={frozenset((ident(m.block_from, a), ident(m.block_from, b))) for a, b in m.block_from.edges})


def jsonable(d):
    def conv(x):
        if isinstance(x, dict):
            return {str(k): conv(v) for k, v in x.items()}
        if isinstance(x, (set, frozenset)):
            return sorted(str(sorted(map(str, e))) if isinstance(e, frozenset) else str(e) for e in x)
        if isinstance(x, (list, tuple)):
            return [conv(v) for v in x]
        return x
    return conv(d)


def load_mapping(lines, ffs):
    from vermouth.map_parser import MappingDirector
    return list(MappingDirector(ffs).parse(iter(lines)))


def check_mapping(col, rng, nmap, pool):
    ffs = make_world2()
    tagged, exps = gen_mapping_file(rng, nmap)
    lines = [t for t, _ in tagged]

    def report(key, function, what, observed, expected):
        col.violation(key, function, what, dict(format='.mapping', file=lines, force_fields='aa/aa2: ALA GLY LYS atomistic, C-ter N-ter; cg: BB(+SC1 SC2)'),
                      jsonable(observed), jsonable(expected))

    col.case(('mapping', crc(lines)), nmap >= 2, dict(kind='.mapping', lines=len(lines), mappings=[e['names'] for e in exps]))
    try:
        got = load_mapping(lines, ffs)
    except Exception as exc:
        report('MappingDirector/rejects-well-formed', 'MappingDirector', 'a well-formed .mapping file was rejected',
               '%s: %s <- %r' % (type(exc).__name__, exc, exc.__cause__), 'loads')
        return
    pool.append(tagged)
    if [list(m.names) for m in got] != [e['names'] for e in exps]:
        report('MappingDirector/mappings-exactly-once-in-order', 'MappingDirector.finalize_section',
               'declared mappings are not loaded once each in file order', [list(m.names) for m in got], [e['names'] for e in exps])
        return
    for m, exp in zip(got, exps):
        obs = observe_mapping(m)
        for field, function in (('type', 'MappingDirector.finalize_section'), ('ff_from', 'MappingDirector._ff'), ('ff_to', 'MappingDirector._ff'),
                                ('mapping', 'MappingDirector._mapping'), ('references', 'MappingDirector._reference_atoms'),
                                ('from_nodes', 'Mapping.__init__'), ('to_nodes', 'MappingDirector._blocks'),
                                ('from_edges', 'MappingDirector._edges')):
            if obs[field] != exp[field]:
                report('MappingDirector/' + field, function, '%s of mapping %s differs from the declaration (atoms as (resid, atomname))' % (field, exp['names']),
                       obs[field], exp[field])


def mapping_faults(col, rng, tagged, every_position, end):
    ffs = None
    lines = [t for t, _ in tagged]
    n = len(lines)
    cases = []
    for pos in (range(n + 1) if every_position else rng.sample(range(n + 1), min(3, n + 1))):
        cases.append(('unknown-section', 'mapping', 'SectionLineParser.parse_section', 'pos %d' % pos, lines[:pos] + ['[ bogus ]', 'x y'] + lines[pos:]))
    for idx, (t, kind) in enumerate(tagged):
        if kind in ('blocks', 'nodes', 'edges', 'macro'):
            toks = t.split(' ')
            for spot in (range(len(toks) + 1) if every_position else [rng.randrange(len(toks) + 1)]):
                for brace in '{}':
                    cases.append(('unbalanced-braces', 'inserted', '_tokenize', 'line %d: lone %s at token %d' % (idx + 1, brace, spot),
                                  lines[:idx] + [' '.join(toks[:spot] + [brace] + toks[spot:])] + lines[idx + 1:]))
    for fault, variant, function, where, text in cases:
        if time.time() > end:
            return
        ffs = make_world2()
        try:
            load_mapping(text, ffs)
            accepted = True
        except Exception:
            accepted = False
        col.case(('mapping-fault', fault, crc(text)), True)
        if accepted:
            col.violation('MappingDirector/fault-accepted/%s/%s' % (fault, variant), function,
                          'a .mapping file with the fault "%s" (%s) was loaded instead of rejected' % (fault, where),
                          dict(format='.mapping', file=text), 'loaded without error', 'an error')


def check_directory(col, rng):
    """a directory with one .map and one .mapping file: both are read, each mapping once."""
    from vermouth.map_input import read_mapping_directory
    ffs2 = make_world2()
    tagged, exps = gen_mapping_file(rng, 2)
    lines = [t for t, _ in tagged]
    back = ['[ molecule ]', 'GLY', '[ from ]', 'aa', '[ to ]', 'cg', '[ martini ]', 'BB', '[ atoms ]', '1 N BB', '2 CA BB BB', '3 C BB']
    tmp = tempfile.mkdtemp()
    try:
        os.makedirs(os.path.join(tmp, 'sub'))
        with open(os.path.join(tmp, 'a.mapping'), 'w') as out:
            out.write('\n'.join(lines) + '\n')
        with open(os.path.join(tmp, 'sub', 'b.map'), 'w') as out:
            out.write('\n'.join(back) + '\n')
        try:
            got = read_mapping_directory(tmp, ffs2)
        except Exception as exc:
            col.violation('read_mapping_directory/rejects-well-formed', 'read_mapping_directory', 'well-formed files were rejected',
                          dict(files={'a.mapping': lines, 'sub/b.map': back}), '%s: %s' % (type(exc).__name__, exc), 'loads')
            return
    finally:
        shutil.rmtree(tmp, ignore_errors=True)
    col.case(('mapdir', crc(lines)), True)
    want = {(e['ff_from'], e['ff_to'], tuple(e['names'])) for e in exps} | {('aa', 'cg', 'GLY')}
    have = {(f, t, n) for f in got for t in got[f] for n in got[f][t]}
    if have != want:
        col.violation('read_mapping_directory/mappings', 'read_mapping_directory', 'the mappings found in the directory are not the declared ones',
                      dict(files={'a.mapping': lines, 'sub/b.map': back}), sorted(map(str, have)), sorted(map(str, want)))


def run(col, rng, quick, end):
    t_half = time.time() + 0.4 * (end - time.time())
    n = 0
    ffs, table, molnames = make_world(rng)
    while time.time() < t_half and n < (600 if quick else 20000):
        if n % 50 == 49:
            ffs, table, molnames = make_world(rng)
        check_backmap(col, rng, ffs, table, molnames, via_directory=(n % 25 == 0))
        n += 1
    pool = []
    t_gen = time.time() + 0.6 * (end - time.time())
    n = 0
    while time.time() < t_gen and n < (300 if quick else 10000):
        check_mapping(col, rng, 1 + n % 4, pool)
        n += 1
    for _ in range(3 if quick else 30):
        check_directory(col, rng)
    for k, tagged in enumerate(sorted(pool[::3], key=len)):
        if time.time() > end:
            break
        mapping_faults(col, rng, tagged, every_position=(k < 5 or k % 5 == 0), end=end)

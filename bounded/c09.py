"""C09 bounded stand-in: the real averaging code runs natively against an oracle written from the statement.

Statement clauses checked (each has its own violation key):
  weighted-mean                  position == sum(w_i x_i) / sum(w_i) over the POSITIONED constituents,
                                 w_i = mapping weight (default 1) * centre-weight attribute (when configured)
  nan-iff-zero-weight            NaN exactly when the weights of the positioned constituents sum to zero
  bounding-box                   non-negative weights -> inside the bounding box of the positioned constituents
  rigid-motion                   real(R x + t) == R real(x) + t      (metamorphic, no oracle involved)
  missing-coordinates-contribute removing the constituents without coordinates changes nothing (metamorphic)
  center-weight                  DoAverageBead picks the centre weight configured by the force field OF THE
                                 MOLECULE BEING PROCESSED (sequences of molecules through one processor instance)
  do_mapping/mapping-weights     the constituents/weights recorded by do_mapping are the declared ones
  *-pipeline/weighted-mean       do_mapping -> DoAverageBead end to end, oracle computed from the mapping declaration
                                 (synthetic blocks; shipped charmm->martini3001 .map files via an independent mini-parser)

The oracle works in exact rational arithmetic (fractions.Fraction; every float is an exact rational), the
comparison tolerance is 1e-9 relative to the coordinate scale ("exactly" is read over the reals).
Excluded as unspecified: negative weights, weight sums in (0, 1e-7), mapping_weights entries for atoms that are not
constituents, particles without constituent information ('graph' absent; they are present in the inputs but not judged).
"""
import glob
import itertools
import logging
import os
import random
from fractions import Fraction

import numpy as np
import networkx as nx

from .common import Collector, REPO, load_cli  # noqa: F401  (REPO/load_cli: import fixes sys.path for VERIF_REPO)

FN = 'do_average_bead'
RTOL = 1e-9


# --------------------------------------------------------------------------------------------------------------
# oracle (independent of /repo): straight from the statement
# --------------------------------------------------------------------------------------------------------------
def wmean(constituents):
    """constituents: [(position or None, weight)] -> list of Fractions, or None when undefined (weights sum to 0)."""
    total = Fraction(0)
    acc = None
    for pos, w in constituents:
        if pos is None:
            continue  # constituents without coordinates never contribute
        w = Fraction(w)
        total += w
        if acc is None:
            acc = [Fraction(0)] * len(pos)
        for d, x in enumerate(pos):
            acc[d] += w * Fraction(x)
    if total == 0:
        return None
    return [a / total for a in acc]


def bbox(constituents):
    pts = [p for p, _ in constituents if p is not None]
    if not pts:
        return None
    return [min(p[d] for p in pts) for d in range(len(pts[0]))], [max(p[d] for p in pts) for d in range(len(pts[0]))]


def spec_constituents(spec, particle):
    """[(pos|None, effective weight)] of one particle of a spec, by the statement."""
    atoms = {a['key']: a for a in spec['atoms']}
    mw = dict(map(tuple, particle['mw'])) if particle['mw'] is not None else {}
    out = []
    for k in particle['atoms']:
        a = atoms[k]
        pos = a['pos'] if isinstance(a['pos'], list) else None
        w = Fraction(mw.get(k, 1))
        if spec['weight'] is not None:
            w *= Fraction(a[spec['weight']])
        out.append((pos, w))
    return out


# --------------------------------------------------------------------------------------------------------------
# rigid motions
# --------------------------------------------------------------------------------------------------------------
def _exact_rotations():
    rots = []
    for perm in itertools.permutations(range(3)):
        for signs in itertools.product((1, -1), repeat=3):
            m = [[0] * 3 for _ in range(3)]
            for r in range(3):
                m[r][perm[r]] = signs[r]
            if round(np.linalg.det(np.array(m, dtype=float))) == 1:
                rots.append(m)
    return rots


ROT24 = _exact_rotations()


def random_rotation(rng):
    q = np.array([rng.gauss(0, 1) for _ in range(4)])
    q /= np.linalg.norm(q)
    a, b, c, d = q
    return [[a*a+b*b-c*c-d*d, 2*(b*c-a*d), 2*(b*d+a*c)],
            [2*(b*c+a*d), a*a-b*b+c*c-d*d, 2*(c*d-a*b)],
            [2*(b*d-a*c), 2*(c*d+a*b), a*a-b*b-c*c+d*d]]


def move(pos, motion):
    if motion is None or pos is None:
        return pos
    rot, t = motion
    return [sum(rot[r][c] * pos[c] for c in range(3)) + t[r] for r in range(3)]


# --------------------------------------------------------------------------------------------------------------
# building real inputs from a JSON-able spec and running the real code
# --------------------------------------------------------------------------------------------------------------
def _fmt(pos, fmt):
    if fmt == 'list':
        return [float(x) for x in pos]
    if fmt == 'tuple':
        return tuple(float(x) for x in pos)
    return np.array(pos, dtype=float)


def build(spec, motion=None, force_field=None, drop_unpositioned=False):
    """spec -> vermouth Molecule of particles carrying 'graph' / 'mapping_weights'."""
    from vermouth.molecule import Molecule
    aa = Molecule(force_field=force_field)
    fmt = spec.get('posfmt', 'array')
    unpositioned = set()
    for a in spec['atoms']:
        attrs = dict(atomname='A%d' % a['key'], resname='X', resid=1, mass=a['mass'], w=a['w'])
        if isinstance(a['pos'], list):
            attrs['position'] = _fmt(move(a['pos'], motion), fmt)
        else:
            unpositioned.add(a['key'])
            if a['pos'] is None:
                attrs['position'] = None
        if not (drop_unpositioned and a['key'] in unpositioned):
            aa.add_node(a['key'], **attrs)
    keys = list(aa.nodes)
    for k1, k2 in zip(keys, keys[1:]):
        aa.add_edge(k1, k2)
    cg = Molecule(force_field=force_field)
    for p in spec['particles']:
        attrs = dict(atomname='B%d' % p['key'], resname='X', resid=1)
        if p.get('stale'):
            attrs['position'] = np.array([99.0, -99.0, 99.0])
        if p['atoms'] is not None:
            members = [k for k in p['atoms'] if not (drop_unpositioned and k in unpositioned)]
            kind = spec.get('graph', 'subgraph')
            if kind == 'subgraph':
                graph = aa.subgraph(members)
            elif kind == 'copy':
                graph = aa.subgraph(members).copy()
            else:
                graph = nx.Graph()
                for k in members:
                    graph.add_node(k, **dict(aa.nodes[k]))
            attrs['graph'] = graph
            if p['mw'] is not None:
                attrs['mapping_weights'] = {k: w for k, w in p['mw']
                                            if not (drop_unpositioned and k in unpositioned)}
        cg.add_node(p['key'], **attrs)
    return cg


def positions_of(cg):
    return {k: (None if n.get('position') is None else np.array(n['position'], dtype=float))
            for k, n in cg.nodes.items()}


def run_real(spec, motion=None, drop_unpositioned=False):
    from vermouth.processors.average_beads import do_average_bead
    cg = build(spec, motion, drop_unpositioned=drop_unpositioned)
    missing = any(p['atoms'] is None for p in spec['particles'])
    do_average_bead(cg, ignore_missing_graphs=missing, weight=spec['weight'])
    return positions_of(cg)


def _is_nan(pos):
    return pos is not None and bool(np.all(np.isnan(np.atleast_1d(pos))))


def _close(got, exp, scale):
    got = np.atleast_1d(np.asarray(got, dtype=float))
    exp = np.asarray(exp, dtype=float)
    return got.shape == exp.shape and bool(np.all(np.isfinite(got))) and bool(np.all(np.abs(got - exp) <= RTOL * scale))


def _scale(points):
    m = 1.0
    for p in points:
        if p is not None:
            m = max(m, max(abs(float(x)) for x in p))
    return 1.0 + m


def _show(pos):
    if pos is None:
        return None
    return [None if np.isnan(x) else float(x) for x in np.atleast_1d(np.asarray(pos, dtype=float))]


def follows(a, b, motion, scale):
    """b (position computed from the moved input) is the moved a (position computed from the original input)."""
    if a is None or b is None:
        return a is None and b is None
    a = np.atleast_1d(np.asarray(a, dtype=float))
    if _is_nan(a):
        return _is_nan(b)
    if a.shape != (3,) or np.any(np.isnan(a)):
        return True  # malformed original: the weighted-mean clause reports it
    return _close(b, move(list(a), motion), scale)


def judge(col, stage, function, inp, got, constituents, tag):
    """one particle against the statement. stage prefixes the key."""
    exp = wmean(constituents)
    if exp is None:
        if not _is_nan(got):
            col.violation(stage + '/nan-iff-zero-weight', function,
                          'the weights of the positioned constituents sum to zero but the position is not NaN (%s)' % tag,
                          inp, _show(got), 'NaN')
        return
    expf = [float(x) for x in exp]
    scale = _scale([p for p, _ in constituents] + [expf])
    if got is None or np.any(np.isnan(np.atleast_1d(got))):
        col.violation(stage + '/nan-iff-zero-weight', function,
                      'position is NaN/absent although the positioned constituents have a non-zero total weight (%s)' % tag,
                      inp, _show(got), expf)
        return
    if not _close(got, expf, scale):
        col.violation(stage + '/weighted-mean', function,
                      'position differs from the weighted mean of the positioned constituents (%s)' % tag,
                      inp, _show(got), expf)
    box = bbox(constituents)
    if box is not None and all(w >= 0 for _, w in constituents):
        g = np.atleast_1d(np.asarray(got, dtype=float))
        lo, hi = np.array(box[0], dtype=float), np.array(box[1], dtype=float)
        if g.shape != lo.shape or np.any(g < lo - RTOL * scale) or np.any(g > hi + RTOL * scale):
            col.violation(stage + '/bounding-box', function,
                          'position outside the bounding box of the constituents with non-negative weights (%s)' % tag,
                          inp, _show(got), dict(low=box[0], high=box[1]))


def spec_nontrivial(spec):
    for p in spec['particles']:
        if p['atoms'] is None:
            continue
        cons = spec_constituents(spec, p)
        pos_w = [w for pos, w in cons if pos is not None and w > 0]
        if len(pos_w) >= 2:
            return True
    return False


def check_spec(col, spec, tag, motions=()):
    fp = repr(spec)
    try:
        got = run_real(spec)
    except Exception as exc:  # the statement gives every such particle a position
        col.case(fp, spec_nontrivial(spec), None)
        col.violation('do_average_bead/exception', FN, 'exception on a valid input (%s)' % tag, spec,
                      '%s: %s' % (type(exc).__name__, exc), 'positions')
        return
    col.case(fp, spec_nontrivial(spec), dict(spec=spec, positions={str(k): _show(v) for k, v in got.items()}))
    for p in spec['particles']:
        if p['atoms'] is None:
            continue
        inp = dict(spec=spec, particle=p['key'])
        judge(col, 'do_average_bead', FN, inp, got[p['key']], spec_constituents(spec, p), tag)
    judged = [p['key'] for p in spec['particles'] if p['atoms'] is not None]
    scale = _scale([a['pos'] for a in spec['atoms'] if isinstance(a['pos'], list)])
    # rigid motion: real(moved input) == moved real(input)
    for motion in motions:
        try:
            moved = run_real(spec, motion)
        except Exception as exc:
            col.violation('do_average_bead/exception', FN, 'exception on a rigidly moved valid input (%s)' % tag,
                          dict(spec=spec, motion=motion), '%s: %s' % (type(exc).__name__, exc), 'positions')
            continue
        mscale = scale * (1 + max(abs(x) for x in motion[1]))
        for k in judged:
            a, b = got[k], moved[k]
            if not follows(a, b, motion, mscale):
                col.violation('do_average_bead/rigid-motion', FN,
                              'the particle does not follow a rigid motion of the input (%s)' % tag,
                              dict(spec=spec, particle=k, rotation=motion[0], translation=motion[1]),
                              _show(b), _show(move(list(a), motion)) if a is not None and a.shape == (3,) else _show(a))
    # constituents without coordinates never contribute: delete them and compare
    if any(not isinstance(a['pos'], list) for a in spec['atoms']):
        try:
            dropped = run_real(spec, drop_unpositioned=True)
        except Exception:
            dropped = None
        if dropped is not None:
            for k in judged:
                a, b = got[k], dropped[k]
                same = (_is_nan(a) and _is_nan(b)) or (a is not None and b is not None and a.shape == b.shape
                                                     and not np.any(np.isnan(a)) and _close(a, b, scale))
                if not same:
                    col.violation('do_average_bead/missing-coordinates-contribute', FN,
                                  'removing the constituents that have no coordinates changes the position (%s)' % tag,
                                  dict(spec=spec, particle=k), _show(a), _show(b))


# --------------------------------------------------------------------------------------------------------------
# generators
# --------------------------------------------------------------------------------------------------------------
A_POINTS = [[1.0, 0.5, -2.0], [-3.0, 2.0, 0.25], [0.5, -1.0, 4.0]]
A_KEYS = [5, 2, 9]
A_MOTION = (ROT24[7], [1.0, -2.0, 0.5])


def exhaustive_specs(thorough):
    """one particle, n <= 3 constituents; every combination of coordinate state x mapping weight x centre weight."""
    mws = ['absent', 0, 1, 2.5]
    masses = [1, 3, 0] if thorough else [1, 3]
    for n in range(0, 4):
        states = ['P', None, 'absent'] if (thorough or n <= 2) else ['P', None]
        for weight in (None, 'mass'):
            ms = masses if weight == 'mass' else [1]
            options = list(itertools.product(states, mws, ms))
            for combo in itertools.product(options, repeat=n):
                atoms = []
                mw = []
                for i, (state, w, mass) in enumerate(combo):
                    atoms.append(dict(key=A_KEYS[i], pos=A_POINTS[i] if state == 'P' else state, mass=mass, w=1))
                    if w != 'absent':
                        mw.append([A_KEYS[i], w])
                variants = [mw] if mw else [None, []]
                for v in variants:
                    yield dict(atoms=atoms, weight=weight, graph='subgraph', posfmt='array',
                               particles=[dict(key=0, atoms=[a['key'] for a in atoms], mw=v, stale=False)])


def dyadic(rng, lo=-8, hi=8):
    return rng.randint(lo * 8, hi * 8) / 8.0


def random_spec(rng, max_atoms=10, max_particles=5):
    n = rng.randint(1, max_atoms)
    akeys = rng.sample(range(0, 60), n)
    p_none = rng.choice([0.0, 0.15, 0.3])
    atoms = []
    for k in akeys:
        r = rng.random()
        if r < p_none:
            pos = None
        elif r < 1.6 * p_none:
            pos = 'absent'
        else:
            pos = [dyadic(rng), dyadic(rng), dyadic(rng)]
        atoms.append(dict(key=k, pos=pos, mass=rng.choice([0, 1, 1.008, 12.011, 14, 15.999, 32.06]),
                          w=rng.choice([0, 0.5, 2, 7])))
    m = rng.randint(1, max_particles)
    pkeys = rng.sample(range(0, 40), m)
    particles = []
    for pk in pkeys:
        if rng.random() < 0.08:
            particles.append(dict(key=pk, atoms=None, mw=None, stale=rng.random() < 0.5))
            continue
        members = rng.sample(akeys, rng.randint(0, min(n, 6)))
        if rng.random() < 0.15:
            mw = None
        else:
            mw = [[k, rng.choice([0, 0, 0.25, 0.5, 1, 1, 2, 3.5])] for k in members if rng.random() < 0.75]
            rng.shuffle(mw)
        particles.append(dict(key=pk, atoms=members, mw=mw, stale=rng.random() < 0.3))
    return dict(atoms=atoms, particles=particles, weight=rng.choice([None, 'mass', 'mass', 'w']),
                graph=rng.choice(['subgraph', 'subgraph', 'copy', 'plain']),
                posfmt=rng.choice(['array', 'array', 'list', 'tuple']))


# --------------------------------------------------------------------------------------------------------------
# processor: which centre weight
# --------------------------------------------------------------------------------------------------------------
C_SPEC = dict(
    atoms=[dict(key=4, pos=[0.0, 0.0, 0.0], mass=1, w=5), dict(key=1, pos=[8.0, 0.0, 4.0], mass=15, w=1),
           dict(key=7, pos=[0.0, 4.0, -8.0], mass=4, w=0), dict(key=3, pos=None, mass=12, w=2)],
    particles=[dict(key=0, atoms=[4, 1], mw=None, stale=False), dict(key=2, atoms=[1, 7, 3], mw=[[1, 0.5], [3, 2]], stale=True),
               dict(key=9, atoms=[4, 1, 7], mw=[[4, 1], [1, 1], [7, 2]], stale=False)],
    weight=None, graph='subgraph', posfmt='array')


def make_ff(kind, counter=[0]):
    import vermouth.forcefield
    counter[0] += 1
    ff = vermouth.forcefield.ForceField(name='c09_%s_%d' % (kind, counter[0]))
    if kind != 'none':
        ff.variables['center_weight'] = kind
    return ff


def expected_attr(mode, kind):
    """processor argument `mode` (None = follow the force field, False = never, name = explicit) and the centre
    weight configured by the molecule's force field -> attribute multiplying the mapping weight."""
    if mode is None:
        return None if kind == 'none' else kind
    if mode is False:
        return None
    return mode


def check_sequence(col, mode, kinds, specs, via, tag, ffs=None):
    """one DoAverageBead instance over several molecules, each with its own force field."""
    from vermouth.processors.average_beads import DoAverageBead
    from vermouth.system import System
    if ffs is None:
        ffs = [make_ff(k) for k in kinds]
    mols = [build(s, force_field=ff) for s, ff in zip(specs, ffs)]
    inp = dict(processor_weight=mode, center_weight_of_force_fields=list(kinds), via=via,
               molecules=specs if any(s is not C_SPEC for s in specs) else 'C_SPEC (see bounded/c09.py)')
    key = 'DoAverageBead.run_molecule/center-weight' if mode is None else 'DoAverageBead.run_molecule/weight-override'
    try:
        proc = DoAverageBead(ignore_missing_graphs=True, weight=mode)
        if via == 'run_system':
            system = System(force_field=ffs[0])
            system.molecules = list(mols)
            proc.run_system(system)
            outs = list(system.molecules)
        else:
            outs = [proc.run_molecule(m) for m in mols]
    except Exception as exc:
        col.case((tag, repr(mode), tuple(kinds), via, repr(specs)), True)
        col.violation(key.rsplit('/', 1)[0] + '/exception', 'DoAverageBead.run_molecule', 'exception (%s)' % tag, inp,
                      '%s: %s' % (type(exc).__name__, exc), 'positions')
        return
    distinguishing = len(set(kinds)) > 1
    col.case((tag, repr(mode), tuple(kinds), via, repr(specs) if any(s is not C_SPEC for s in specs) else ''),
             distinguishing, dict(processor_weight=mode, force_field_center_weights=list(kinds), via=via))
    for idx, (spec, kind, out) in enumerate(zip(specs, kinds, outs)):
        attr = expected_attr(mode, kind)
        got = positions_of(out)

        def mismatch(candidate):
            """first particle not at the weighted mean under centre-weight attribute `candidate`, or None."""
            for p in spec['particles']:
                if p['atoms'] is None:
                    continue
                cons = spec_constituents(dict(spec, weight=candidate), p)
                exp = wmean(cons)
                g = got[p['key']]
                if exp is None:
                    ok = _is_nan(g)
                else:
                    ok = g is not None and _close(g, [float(x) for x in exp], _scale([c[0] for c in cons]))
                if not ok:
                    return p['key'], _show(g), None if exp is None else [float(x) for x in exp]
            return None
        bad = mismatch(attr)
        if bad is None:
            continue
        def defined_somewhere(candidate):
            return any(wmean(spec_constituents(dict(spec, weight=candidate), p)) is not None
                       for p in spec['particles'] if p['atoms'] is not None)
        explained_by = [c for c in (None, 'mass', 'w') if c != attr and mismatch(c) is None and defined_somewhere(c)]
        if explained_by:  # a weighted mean all right, but with the wrong centre weight
            col.violation(key, 'DoAverageBead.run_molecule',
                          'molecule #%d of the sequence is placed with centre-weight attribute %r, its force field/processor '
                          'configure %r (%s)' % (idx, explained_by[0], attr, tag),
                          dict(inp, molecule_index=idx, particle=bad[0]), bad[1], bad[2])
        else:  # not a weighted mean under any centre weight: the averaging itself is off
            ambiguous = any(c != attr and mismatch(c) is None for c in (None, 'mass', 'w'))  # all-NaN coincidence
            col.violation('DoAverageBead.run_molecule/weighted-mean', 'DoAverageBead.run_molecule' if ambiguous else FN,
                          'molecule #%d of the sequence: position differs from the weighted mean of the positioned constituents '
                          'and no other centre weight explains it unambiguously (%s)' % (idx, tag),
                          dict(inp, molecule_index=idx, particle=bad[0]), bad[1], bad[2])
        return


def shipped_center_weight(name):
    """independent mini-parser: value of `center_weight` in the [ variables ] section of a shipped force field."""
    import vermouth
    value = None
    for path in sorted(glob.glob(os.path.join(vermouth.DATA_PATH, 'force_fields', name, '*.ff'))):
        section = None
        with open(path) as handle:
            for line in handle:
                line = line.split(';', 1)[0].strip()
                if not line:
                    continue
                if line.startswith('['):
                    section = line.strip('[] \t').lower()
                elif section == 'variables':
                    fields = line.split(None, 1)
                    if fields[0] == 'center_weight' and len(fields) == 2:
                        value = fields[1].strip().strip('"\'')
    return value


# --------------------------------------------------------------------------------------------------------------
# do_mapping -> DoAverageBead, synthetic blocks
# --------------------------------------------------------------------------------------------------------------
def random_mapping_case(rng, counter=[0]):
    """JSON-able description of residue types, their mappings and an atomistic molecule."""
    nres = rng.randint(1, 3)
    ntypes = rng.randint(1, nres)
    types = []
    for t in range(ntypes):
        na = rng.randint(2, 6)
        names = ['%sA%d' % ('PQR'[t], i) for i in range(na)]
        edges = [[names[rng.randrange(i)], names[i]] for i in range(1, na)]
        nb = rng.randint(1, 3)
        beads = ['%sB%d' % ('PQR'[t], i) for i in range(nb)]
        mapping = {}
        for i, a in enumerate(names):
            if i == na - 1 and na > 2 and rng.random() < 0.15:
                continue  # an unmapped leaf atom
            targets = rng.sample(beads, rng.randint(1, min(nb, 2)))
            mapping[a] = {b: rng.choice([0, 0.5, 1, 1, 2, 3]) for b in targets}
        types.append(dict(name='T%s' % 'PQR'[t], atoms=names, edges=edges, beads=beads, mapping=mapping))
    residues = []
    chosen = [types[r] if r < ntypes else types[rng.randrange(ntypes)] for r in range(nres)]
    keys = rng.sample(range(0, 200), sum(len(ty['atoms']) for ty in chosen))  # sparse, unordered
    resids = sorted(rng.sample(range(1, 40), nres))
    kpos = 0
    for r, ty in enumerate(chosen):
        atoms = []
        for a in ty['atoms']:
            pr = rng.random()
            pos = None if pr < 0.12 else ('absent' if pr < 0.18 else [dyadic(rng), dyadic(rng), dyadic(rng)])
            atoms.append(dict(key=keys[kpos], name=a, pos=pos, mass=rng.choice([1, 1.008, 12.011, 14, 15.999, 32.06])))
            kpos += 1
        residues.append(dict(resid=resids[r], type=ty['name'], atoms=atoms))
    return dict(types=types, residues=residues, center_weight=rng.choice(['mass', 'mass', None]),
                link_atoms=[rng.randrange(100) for _ in range(nres)])


def declared_constituents(case_types, residue, bead, center_weight):
    """by the mapping declaration: [(key, pos|None, weight)] of bead `bead` of `residue`."""
    ty = case_types[residue['type']]
    mapped = [a for a in residue['atoms'] if a['name'] in ty['mapping']]
    members = [(a, ty['mapping'][a['name']][bead]) for a in mapped if bead in ty['mapping'][a['name']]]
    if not members:  # a particle nothing maps to represents no atom with any weight
        members = [(a, 0) for a in mapped]
    out = []
    for a, w in members:
        w = Fraction(w)
        mapw = w
        if center_weight is not None:
            w *= Fraction(a['mass'])
        out.append((a['key'], a['pos'] if isinstance(a['pos'], list) else None, w, mapw))
    return out


def run_mapping_case(case, motion=None):
    import vermouth.forcefield
    from vermouth.molecule import Molecule, Block
    from vermouth.map_parser import Mapping
    from vermouth.processors.do_mapping import do_mapping
    from vermouth.processors.average_beads import DoAverageBead
    ff_aa = vermouth.forcefield.ForceField(name='c09_aa')
    ff_cg = vermouth.forcefield.ForceField(name='c09_cg')
    if case['center_weight'] is not None:
        ff_cg.variables['center_weight'] = case['center_weight']
    mappings = {'c09_aa': {'c09_cg': {}}}
    for ty in case['types']:
        b_aa = Block(force_field=ff_aa)
        b_aa.name = ty['name']
        b_aa.add_nodes_from((a, dict(resid=1, resname=ty['name'], atomname=a)) for a in ty['atoms'])
        b_aa.add_edges_from(map(tuple, ty['edges']))
        b_cg = Block(force_field=ff_cg)
        b_cg.name = ty['name']
        b_cg.add_nodes_from((b, dict(resid=1, resname=ty['name'], atomname=b)) for b in ty['beads'])
        ff_aa.blocks[ty['name']] = b_aa
        ff_cg.blocks[ty['name']] = b_cg
        mappings['c09_aa']['c09_cg'][ty['name']] = Mapping(
            b_aa, b_cg, mapping={a: dict(t) for a, t in ty['mapping'].items()}, references={},
            ff_from=ff_aa, ff_to=ff_cg, names=(ty['name'],), extra=())
    types = {t['name']: t for t in case['types']}
    mol = Molecule(force_field=ff_aa)
    prev = None
    for ridx, res in enumerate(case['residues']):
        byname = {}
        for a in res['atoms']:
            attrs = dict(atomname=a['name'], resname=res['type'], resid=res['resid'], chain='A', mass=a['mass'])
            if isinstance(a['pos'], list):
                attrs['position'] = np.array(move(a['pos'], motion), dtype=float)
            elif a['pos'] is None:
                attrs['position'] = None
            mol.add_node(a['key'], **attrs)
            byname[a['name']] = a['key']
        for n1, n2 in types[res['type']]['edges']:
            mol.add_edge(byname[n1], byname[n2])
        first = res['atoms'][0]['key']
        if prev is not None:
            mol.add_edge(prev[case['link_atoms'][ridx] % len(prev)], first)
        prev = [a['key'] for a in res['atoms']]
    cg = do_mapping(mol, mappings, ff_cg, attribute_keep=('chain',), attribute_must=('resname',),
                    attribute_stash=('resid',))
    DoAverageBead(ignore_missing_graphs=True).run_molecule(cg)
    return cg


def identify(cg, expected_ids):
    """output particles by (input residue number, particle name); None when that is not a bijection (not C09's business)."""
    found = {}
    for k, n in cg.nodes.items():
        ident = (n.get('_old_resid'), n.get('atomname'))
        if ident in found:
            return None
        found[ident] = k
    if set(found) != set(expected_ids):
        return None
    return found


def check_pipeline(col, stage, case, cg, beads_of, constituents_of, all_atoms, tag, nontrivial):
    """shared by the synthetic and the shipped-data pipelines."""
    ids = [(res['resid'], b) for res in case['residues'] for b in beads_of(res)]
    found = identify(cg, ids)
    if found is None:
        return False
    col.case(repr(case), nontrivial, dict(case=case) if len(repr(case)) < 3000 else None)
    for res in case['residues']:
        for b in beads_of(res):
            node = cg.nodes[found[(res['resid'], b)]]
            cons = constituents_of(res, b)
            inp = dict(case=case, residue=res['resid'], particle=b)
            # the recorded constituents and weights are the declared ones
            declared = {k: mapw for k, _, _, mapw in cons}
            graph = node.get('graph')
            recorded_ok = graph is not None
            if recorded_ok:
                rec = node.get('mapping_weights', {})
                for k in all_atoms:
                    r = float(rec.get(k, 1)) if k in graph.nodes else 0.0
                    if abs(r - float(declared.get(k, 0))) > 1e-12:  # declared thirds are not floats
                        recorded_ok = False
                        col.violation('do_mapping/mapping-weights', 'do_mapping',
                                      'the constituents/weights recorded on the particle differ from the mapping declaration (%s)' % tag,
                                      inp, dict(graph=sorted(graph.nodes), mapping_weights={str(a): float(b_) for a, b_ in rec.items()}),
                                      {str(a): float(b_) for a, b_ in declared.items()})
                        break
            got = node.get('position')
            judge(col, stage, FN if recorded_ok else 'do_mapping', inp,
                  None if got is None else np.asarray(got, dtype=float), [(p, w) for _, p, w, _ in cons], tag)
    return True


def check_mapping_case(col, case, tag, motion=None):
    types = {t['name']: t for t in case['types']}
    try:
        cg = run_mapping_case(case)
    except Exception:
        return False  # whether a mapping applies at all is not this property
    all_atoms = [a['key'] for res in case['residues'] for a in res['atoms']]
    nontrivial = any(len([1 for _, p, w, _ in declared_constituents(types, res, b, case['center_weight']) if p is not None and w > 0]) >= 2
                     for res in case['residues'] for b in types[res['type']]['beads'])
    done = check_pipeline(col, 'mapping-pipeline', case, cg, lambda res: types[res['type']]['beads'],
                          lambda res, b: declared_constituents(types, res, b, case['center_weight']), all_atoms, tag, nontrivial)
    if done and motion is not None:
        try:
            moved = run_mapping_case(case, motion)
        except Exception:
            return done
        a = {(n.get('_old_resid'), n.get('atomname')): n.get('position') for n in cg.nodes.values()}
        b = {(n.get('_old_resid'), n.get('atomname')): n.get('position') for n in moved.nodes.values()}
        scale = _scale([x['pos'] for res in case['residues'] for x in res['atoms'] if isinstance(x['pos'], list)]) \
            * (1 + max(abs(x) for x in motion[1]))
        for ident, pa in a.items():
            pb = b.get(ident)
            if pa is None or pb is None:
                continue
            pa, pb = np.asarray(pa, dtype=float), np.asarray(pb, dtype=float)
            if not follows(pa, pb, motion, scale):
                col.violation('mapping-pipeline/rigid-motion', FN, 'the particle does not follow a rigid motion of the input (%s)' % tag,
                              dict(case=case, particle=list(ident), rotation=motion[0], translation=motion[1]), _show(pb),
                              _show(move(list(pa), motion)))
    return done


# --------------------------------------------------------------------------------------------------------------
# do_mapping -> DoAverageBead on shipped data (charmm -> martini3001), oracle from an independent .map mini-parser
# --------------------------------------------------------------------------------------------------------------
AMINO_ACIDS = ['ALA', 'ARG', 'ASN', 'ASP', 'CYS', 'GLN', 'GLU', 'GLY', 'HIS', 'ILE', 'LEU', 'LYS', 'MET', 'PHE',
               'PRO', 'SER', 'THR', 'TRP', 'TYR', 'VAL']


def parse_backward_map(path):
    """(molecule name, {atom: {particle: weight}}, from/to force fields). Backward .map convention: an atom listed
    with several particles is split between them by multiplicity; a '!' prefix means 'belongs to, weight zero'."""
    section = None
    names, atoms, ff_from, ff_to = [], {}, [], []
    with open(path) as handle:
        for line in handle:
            line = line.split(';', 1)[0].strip()
            if not line:
                continue
            if line.startswith('['):
                section = line.strip('[] \t').lower()
                if section == 'molecule' and names:
                    return None  # several molecules in one file: leave alone
            elif section == 'molecule':
                names.append(line.split()[0])
            elif section in ('from', 'mapping'):
                ff_from.extend(line.split())
            elif section == 'to':
                ff_to.extend(line.split())
            elif section == 'atoms':
                fields = line.split()
                atoms[fields[1]] = fields[2:]
    if len(names) != 1:
        return None
    weights = {}
    for atom, targets in atoms.items():
        real = [t for t in targets if not t.startswith('!')]
        w = {}
        for t in targets:
            if t.startswith('!'):
                w[t[1:]] = Fraction(0)
        for t in real:
            w[t] = w.get(t, Fraction(0)) + Fraction(1, len(real))
        if w:
            weights[atom] = w
    return names[0], weights, ff_from, ff_to


class Shipped:
    """lazy loader of the shipped force fields / mappings (real loaders) and the independent reading of the same files."""
    def __init__(self):
        import vermouth
        import vermouth.forcefield
        import vermouth.map_input
        import collections
        self.ff_aa = vermouth.forcefield.get_native_force_field('charmm')
        self.ff_cg = vermouth.forcefield.get_native_force_field('martini3001')
        self.mappings = collections.defaultdict(lambda: collections.defaultdict(dict))
        self.declared = {}
        known = {'charmm': self.ff_aa, 'martini3001': self.ff_cg}
        for path in sorted(glob.glob(os.path.join(vermouth.DATA_PATH, 'mappings', 'martini3001', '*.charmm36.map'))):
            parsed = parse_backward_map(path)
            if parsed is None or parsed[0] not in AMINO_ACIDS:
                continue
            if 'charmm' not in parsed[2] or 'martini3001' not in parsed[3]:
                continue
            with open(path) as handle:
                vermouth.map_input.combine_mappings(self.mappings, vermouth.map_input.read_backmapping_file(handle, known))
            self.declared[parsed[0]] = parsed[1]
        self.center_weight = shipped_center_weight('martini3001')


def shipped_case(rng, shipped, sequence):
    residues = []
    key = rng.randint(0, 5)
    for idx, resname in enumerate(sequence):
        block = shipped.ff_aa.blocks[resname]
        atoms = []
        for bk, bn in block.nodes.items():
            pr = rng.random()
            pos = None if pr < 0.06 else [dyadic(rng, -16, 16), dyadic(rng, -16, 16), dyadic(rng, -16, 16)]
            atoms.append(dict(key=key, name=bn['atomname'], pos=pos, mass=rng.choice([1.008, 12.011, 14.007, 15.999, 32.06])))
            key += rng.choice([1, 1, 1, 2, 5])
        residues.append(dict(resid=3 + 2 * idx, type=resname, atoms=atoms))
    return dict(residues=residues, sequence=list(sequence))


def run_shipped_case(case, shipped):
    from vermouth.molecule import Molecule
    from vermouth.processors.do_mapping import do_mapping
    from vermouth.processors.average_beads import DoAverageBead
    mol = Molecule(force_field=shipped.ff_aa)
    prev_c = None
    for res in case['residues']:
        block = shipped.ff_aa.blocks[res['type']]
        by_name = {}
        for a in res['atoms']:
            attrs = dict(atomname=a['name'], resname=res['type'], resid=res['resid'], chain='A', mass=a['mass'],
                         position=None if a['pos'] is None else np.array(a['pos'], dtype=float))
            mol.add_node(a['key'], **attrs)
            by_name[a['name']] = a['key']
        for b1, b2 in block.edges:
            mol.add_edge(by_name[block.nodes[b1]['atomname']], by_name[block.nodes[b2]['atomname']])
        if prev_c is not None and 'N' in by_name:
            mol.add_edge(prev_c, by_name['N'])
        prev_c = by_name.get('C')
    cg = do_mapping(mol, shipped.mappings, shipped.ff_cg, attribute_keep=('chain',), attribute_must=('resname',),
                    attribute_stash=('resid',))
    DoAverageBead(ignore_missing_graphs=True).run_molecule(cg)
    return cg


def check_shipped_case(col, case, shipped, tag):
    try:
        cg = run_shipped_case(case, shipped)
    except Exception:
        return False
    cw = shipped.center_weight

    def beads_of(res):
        return sorted({b for t in shipped.declared[res['type']].values() for b in t})

    def constituents_of(res, bead):
        decl = shipped.declared[res['type']]
        out = []
        for a in res['atoms']:
            if a['name'] in decl and bead in decl[a['name']]:
                mapw = decl[a['name']][bead]
                w = mapw * Fraction(a[cw]) if cw is not None else mapw
                out.append((a['key'], a['pos'], w, mapw))
        return out
    all_atoms = [a['key'] for res in case['residues'] for a in res['atoms']]
    return check_pipeline(col, 'shipped-mapping-pipeline', case, cg, beads_of, constituents_of, all_atoms, tag, True)


# --------------------------------------------------------------------------------------------------------------
def bounded(tier, seed):
    rng = random.Random(seed)
    thorough = tier == 'thorough'
    col = Collector(
        'do_average_bead natively vs an exact-rational weighted mean written from the statement. Exhaustive: one particle '
        'with <= 3 constituents, each atom x {positioned, position None, position absent} x mapping weight {absent,0,1,2.5} '
        'x centre weight {none, mass in {1,3}}, plus one exact rigid motion and deletion of the unpositioned atoms per case; '
        'then seeded random molecules (<= 10 atoms with sparse unordered keys, <= 5 particles sharing atoms, zero/unequal '
        'weights, missing coordinates, stale positions, subgraph views/copies/plain graphs) with exact and random rigid '
        'motions; DoAverageBead over every sequence of <= 3 molecules whose force fields configure centre weight '
        '{none, mass, w} x processor weight {None, False, mass, w} x {run_molecule, run_system}, and over shipped force '
        'fields; do_mapping -> DoAverageBead end to end on random synthetic blocks/mappings and on the shipped '
        'charmm -> martini3001 amino-acid mappings (oracle from an independent .map mini-parser). '
        'non-trivial = some particle has >= 2 positioned constituents of positive weight')
    logging.disable(logging.CRITICAL)
    try:
        # A. exhaustive small scope
        count = 0
        for spec in exhaustive_specs(thorough):
            check_spec(col, spec, 'exhaustive', motions=(A_MOTION,))
            count += 1
        col.exhaustive = True
        col.bound = ('%d single-particle inputs: <= 3 constituents (%s) x coordinate state x mapping weight {absent,0,1,2.5} '
                     'x centre weight {none, mass %s}' % (count, 'all with 3 coordinate states' if thorough
                                                         else '3 coordinate states up to 2 atoms, {positioned, None} at 3',
                                                         '{0,1,3}' if thorough else '{1,3}'))
        # B. seeded random molecules
        for i in range(20000 if thorough else 600):
            spec = random_spec(rng)
            motions = [(rng.choice(ROT24), [dyadic(rng), dyadic(rng), dyadic(rng)])]
            if i % 3 == 0:
                motions.append((random_rotation(rng), [rng.uniform(-20, 20) for _ in range(3)]))
            check_spec(col, spec, 'random', motions=motions)
        for i in range(1000 if thorough else 30):  # larger
            spec = random_spec(rng, max_atoms=40, max_particles=15)
            check_spec(col, spec, 'random-large', motions=[(random_rotation(rng), [rng.uniform(-20, 20) for _ in range(3)])])
        # C. the processor and the force field's centre weight
        kinds = ['none', 'mass', 'w']
        for mode in (None, False, 'mass', 'w'):
            for n in (1, 2, 3):
                for seq in itertools.product(kinds, repeat=n):
                    for via in ('run_molecule', 'run_system'):
                        check_sequence(col, mode, seq, [C_SPEC] * n, via, 'exhaustive-sequences')
        for i in range(2000 if thorough else 40):
            n = rng.randint(1, 5)
            seq = [rng.choice(kinds) for _ in range(n)]
            specs = [dict(random_spec(rng, 6, 3), weight=None) for _ in range(n)]
            check_sequence(col, rng.choice([None, None, None, False, 'mass', 'w']), seq, specs,
                           rng.choice(['run_molecule', 'run_system']), 'random-sequences')
        import vermouth
        import vermouth.forcefield
        names = ['martini3001', 'charmm']
        if thorough:
            names = sorted(os.path.basename(p) for p in glob.glob(os.path.join(vermouth.DATA_PATH, 'force_fields', '*'))
                           if os.path.isdir(p))
        real = {}
        for name in names:
            try:
                real[name] = (vermouth.forcefield.get_native_force_field(name), shipped_center_weight(name))
            except Exception:
                continue  # loading force fields is another property
        usable = [n for n in real if real[n][1] in (None, 'mass', 'w')]
        orders = list(itertools.permutations(usable, 2)) + [(a, b, a) for a, b in itertools.permutations(usable, 2)] \
            + [(a,) for a in usable]
        if thorough and len(orders) > 80:
            orders = rng.sample(orders, 80) + [(a,) for a in usable]
        for order in orders:
            for via in ('run_molecule', 'run_system'):
                check_sequence(col, None, ['none' if real[n][1] is None else real[n][1] for n in order],
                               [C_SPEC] * len(order), via, 'shipped force fields %s' % '>'.join(order),
                               ffs=[real[n][0] for n in order])
        # D. do_mapping -> DoAverageBead on synthetic blocks
        done = 0
        for i in range(8000 if thorough else 250):
            case = random_mapping_case(rng)
            motion = (rng.choice(ROT24), [dyadic(rng), dyadic(rng), dyadic(rng)]) if i % 2 == 0 else None
            done += bool(check_mapping_case(col, case, 'synthetic mapping', motion))
        # E. shipped charmm -> martini3001 mappings
        if 'martini3001' in real and 'charmm' in real:
            try:
                shipped = Shipped()
            except Exception:
                shipped = None
            if shipped is not None and shipped.declared:
                avail = [a for a in AMINO_ACIDS if a in shipped.declared and a in shipped.ff_aa.blocks]
                seqs = [avail[i:i + 4] for i in range(0, len(avail), 4)]
                for _ in range(500 if thorough else 12):
                    seqs.append([rng.choice(avail) for _ in range(rng.randint(1, 5))])
                for s in seqs:
                    check_shipped_case(col, shipped_case(rng, shipped, s), shipped, 'shipped mapping')
    finally:
        logging.disable(logging.NOTSET)
    return col.result()


def replay_model(function, model):
    """counter-models of the averaging contracts are float/array valued; they are not replayed here."""
    return None

"""C13 bounded stand-in: force-field (.ff), topology (.itp) and mapping (.map / .mapping) files are written from
random declarations, loaded by the REAL readers of the working tree, and what was loaded is compared clause by
clause with the declaration; the six listed faults are injected at line level and must be rejected."""
import itertools
import logging
import random
import time

from .common import Collector, REPO, load_cli  # noqa: F401  (REPO/load_cli: sys.path handling lives in common)
from . import c13_ff as F
from . import c13_itp as I
from . import c13_map as M


# ================================================================================================= .ff round trip
def load_ff(text_lines):
    from vermouth.forcefield import ForceField
    from vermouth.ffinput import read_ff
    ff = ForceField(name='c13ff')
    read_ff(list(text_lines), ff)
    return ff


def first_by_identity(objs):
    seen, out = set(), []
    for o in objs:
        if id(o) not in seen:
            seen.add(id(o))
            out.append(o)
    return out


def compare_interactions(report, stage, exp, got, function='_base_parser'):
    for sec in sorted(set(exp) | set(got)):
        if F.canon(exp.get(sec, [])) != F.canon(got.get(sec, [])):
            report('%s/%s' % (stage, sec), function,
                   'interactions of [%s] (atoms, parameters, metadata, file order) differ from the declaration' % sec,
                   got.get(sec, []), exp.get(sec, []))


def compare_block(report, exp, blk):
    if (blk.name, blk.nrexcl) != (exp['name'], exp['nrexcl']):
        report('read_ff/block-header', 'FFDirector._block', 'block name / nrexcl differ', [blk.name, blk.nrexcl],
               [exp['name'], exp['nrexcl']])
    got_nodes = [[k, dict(blk.nodes[k])] for k in blk.nodes]
    if F.canon(got_nodes) != F.canon(exp['nodes']):
        report('read_ff/block-atoms', '_parse_block_atom', 'atoms of the block (order, names, attributes) differ',
               F.norm(got_nodes), F.norm(exp['nodes']))
    compare_interactions(report, 'read_ff/block-interactions', exp['interactions'], F.obs_interactions(blk.interactions))
    if F.edges_of(blk) != exp['edges']:
        report('read_ff/block-edges', 'FFDirector.finalize_section', 'edges differ from explicit [edges] + bonds/angles/dihedrals/constraints',
               F.norm(F.edges_of(blk)), F.norm(exp['edges']))


def normalise_mod_nodes(nodes):
    out = {}
    for k, a in nodes.items():
        a = dict(a)
        a.setdefault('PTM_atom', False)
        out[k] = a
    return out


def compare_link(report, exp, link, kind='link'):
    got_nodes = {k: dict(link.nodes[k]) for k in link.nodes}
    exp_nodes = exp['nodes']
    if kind == 'modification':
        got_nodes, exp_nodes = normalise_mod_nodes(got_nodes), normalise_mod_nodes(exp_nodes)
    if F.canon(got_nodes) != F.canon(exp_nodes):
        report('read_ff/%s-atoms' % kind, '_treat_atom_prefix', 'atoms (keys from prefix/order, attributes) differ from the declaration',
               F.norm(got_nodes), F.norm(exp_nodes))
    compare_interactions(report, 'read_ff/%s-interactions' % kind, exp['interactions'], F.obs_interactions(link.interactions))
    got_removed = F.obs_interactions(link.removed_interactions, with_attrs=True)
    exp_removed = {}
    for sec, rows in exp['removed'].items():
        exp_removed[sec] = [[r[0], r[1], r[2], [{k: F.LinkNodes.expected_value(v) for k, v in a.items() if k != 'order'}
                                               for a in r[3]]] for r in rows]
    compare_interactions(report, 'read_ff/%s-removed' % kind, exp_removed, got_removed)
    if kind == 'modification':
        if not exp['edges'] <= F.edges_of(link):
            report('read_ff/modification-edges', '_parse_edges', 'declared edges missing', F.norm(F.edges_of(link)), F.norm(exp['edges']))
        return
    if F.edges_of(link) != exp['edges']:
        report('read_ff/link-edges', 'FFDirector.finalize_section', 'edges differ from explicit [edges] + bonds/angles/dihedrals/constraints',
               F.norm(F.edges_of(link)), F.norm(exp['edges']))
    if F.canon(link.patterns) != F.canon(exp['patterns']):
        report('read_ff/link-patterns', '_parse_patterns', 'patterns differ', F.norm(link.patterns), F.norm(exp['patterns']))
    if set(link.features) != exp['features']:
        report('read_ff/link-features', '_parse_features', 'features differ', sorted(link.features), sorted(exp['features']))
    if F.canon(link.molecule_meta) != F.canon(exp['molmeta']):
        report('read_ff/link-molmeta', '_parse_link_attribute', 'molmeta differs', F.norm(link.molecule_meta), F.norm(exp['molmeta']))
    if sorted(F.canon(x) for x in link.non_edges) != sorted(F.canon(x) for x in exp['non_edges']):
        report('read_ff/link-non-edges', '_parse_edges', 'non-edges differ', F.norm(link.non_edges), F.norm(exp['non_edges']))


def check_ff_items(items, report):
    """load the file made of `items`; call report(key, function, what, observed, expected) per broken clause."""
    lines = F.file_lines(items)
    text = F.render(lines)
    try:
        ff = load_ff(text)
    except Exception as exc:  # a well-formed file must load
        report('read_ff/rejects-well-formed/' + F.culprit(exc, lines), 'FFDirector', 'a well-formed file was rejected',
               '%s: %s <- %r' % (type(exc).__name__, exc, exc.__cause__), 'loads')
        return
    blocks = [it['exp'] for it in items if it['kind'] == 'block']
    links = [it['exp'] for it in items if it['kind'] == 'link']
    mods = [it['exp'] for it in items if it['kind'] == 'modification']
    variables = {}
    for it in items:
        if it['kind'] == 'variables':
            variables.update(it['exp'])
    if list(ff.blocks) != [b['name'] for b in blocks]:
        report('read_ff/blocks-exactly-once-in-order', 'FFDirector.finalize_section', 'declared blocks are not loaded once each in file order',
               list(ff.blocks), [b['name'] for b in blocks])
    else:
        for exp in blocks:
            compare_block(report, exp, ff.blocks[exp['name']])
    got_links = list(ff.links)
    if len(got_links) != len(links):
        idx = {id(o): n for n, o in enumerate(first_by_identity(got_links))}
        report('read_ff/links-exactly-once-in-order', 'FFDirector.finalize_section',
               'declared links are not loaded exactly once each (numbers = identity of the loaded objects, in list order)',
               [idx[id(o)] for o in got_links], list(range(len(links))))
        got_links = first_by_identity(got_links)
    if len(got_links) == len(links):
        for exp, link in zip(links, got_links):
            compare_link(report, exp, link)
    if list(ff.modifications) != [m['name'] for m in mods]:
        report('read_ff/modifications-exactly-once-in-order', 'FFDirector.finalize_section', 'declared modifications are not loaded once each in file order',
               list(ff.modifications), [m['name'] for m in mods])
    else:
        for exp in mods:
            mod = ff.modifications[exp['name']]
            if mod.name != exp['name']:
                report('read_ff/modification-header', 'FFDirector._modification', 'name differs', mod.name, exp['name'])
            compare_link(report, exp, mod, kind='modification')
    if F.canon(ff.variables) != F.canon(variables):
        report('read_ff/variables', '_parse_variables', 'variables differ', F.norm(ff.variables), F.norm(variables))


def run_ff_file(col, items, tag):
    """check one file; on the first occurrence of a violation key shrink the file (drop top-level sections that
    are not needed to reproduce that key) before recording it."""
    found = []
    check_ff_items(items, lambda *a: found.append(a))
    text = '\n'.join(F.render(F.file_lines(items)))
    kinds = [it['kind'] for it in items]
    ncontexts = sum(k in ('block', 'link', 'modification') for k in kinds)
    col.case(('ff', F.fingerprint(text)), len(items) >= 2 and ncontexts >= 1,
             dict(kind='.ff round trip', top_level=kinds, lines=len(text.splitlines()), violations=[f[0] for f in found]))
    known = {v['key'] for v in col.violations}
    for key, function, what, observed, expected in found:
        if key in known:
            continue
        known.add(key)
        small = list(items)
        changed = True
        while changed:
            changed = False
            for n in range(len(small)):
                if small[n]['kind'] == 'macros':
                    continue
                trial = small[:n] + small[n + 1:]
                again = []
                check_ff_items(trial, lambda *a: again.append(a))
                hit = [a for a in again if a[0] == key]
                if hit:
                    small, changed = trial, True
                    _, function, what, observed, expected = hit[0]
                    break
        col.violation(key, function, what + ' (%s)' % tag,
                      dict(format='.ff', file=F.render(F.file_lines(small))), observed, expected)


# ------------------------------------------------------------------------------------------------- .ff faults
BOGUS = ['[ bogus ]', 'x y']


def ff_faults(rng, lines, every_position):
    """yield (fault, variant, function, description, text_lines) for the six listed faults on this file."""
    text = F.render(lines)
    n = len(lines)
    positions = range(n + 1) if every_position else sorted(rng.sample(range(n + 1), min(3, n + 1)))
    for pos in positions:
        yield ('unknown-section', 'ff', 'SectionLineParser.parse_section', 'pos %d' % pos, text[:pos] + BOGUS + text[pos:])
    # per-line faults
    block_atoms = {}
    for idx, ln in enumerate(lines):
        kind, info = ln['kind'], ln['info']
        if kind == 'block_atom':
            block_atoms.setdefault(info['block'], []).append(idx)
    cur_block = None
    for idx, ln in enumerate(lines):
        kind, info = ln['kind'], ln['info']
        if kind == 'block_atom':
            cur_block = info['block']
            # duplicate atom: repeat any earlier (or this) atom line of the same block right after this line
            for src in block_atoms[cur_block]:
                if src <= idx and (every_position or rng.random() < 0.3):
                    yield ('duplicate-block-atom', 'ff', '_parse_block_atom', 'line %d repeated after line %d' % (src + 1, idx + 1),
                           text[:idx + 1] + [lines[src]['text']] + text[idx + 1:])
        if kind == 'interaction' and info['ctx'] == 'block':
            parts = info['parts']
            natoms = len(block_atoms.get(cur_block, []))
            for variant, ref in (('name', 'ZZ9'), ('index-high', str(natoms + 1)), ('index-zero', '0')):
                for at in (range(len(parts['refs'])) if every_position else [rng.randrange(len(parts['refs']))]):
                    p = dict(parts, refs=parts['refs'][:at] + [ref] + parts['refs'][at + 1:])
                    yield ('undefined-block-atom', variant, '_treat_block_interaction_atoms', 'line %d atom %d -> %s' % (idx + 1, at + 1, ref),
                           text[:idx] + [F.join_interaction(p)] + text[idx + 1:])
        if kind == 'edge' and info['ctx'] == 'block':
            a, b = ln['text'].split()
            yield ('undefined-block-atom', 'edges-name', '_parse_edges', 'line %d' % (idx + 1), text[:idx] + ['%s ZZ9' % a] + text[idx + 1:])
        if kind in ('interaction', 'del_interaction') and info.get('arity') is not None:
            parts = info['parts']
            arity = info['arity']
            extra = 'ZZ9' if info['ctx'] != 'block' else None
            rem = '-in-removal' if kind == 'del_interaction' else ''
            if info['ctx'] == 'block':
                names = [lines[i]['info']['atomname'] for i in block_atoms.get(cur_block, [])]
                extra = names[0] if names else None
            for k in range(1, arity):
                if every_position or rng.random() < 0.5:
                    yield ('wrong-atom-count', 'few' + rem, '_base_parser', 'line %d: %d atoms, no parameters' % (idx + 1, k),
                           text[:idx] + [' '.join(parts['refs'][:k])] + text[idx + 1:])
                    p = dict(parts, refs=parts['refs'][:k], delim=True, params=parts['params'] or ['1'])
                    yield ('wrong-atom-count', 'few-delimited' + rem, '_base_parser', 'line %d: %d atoms then --' % (idx + 1, k),
                           text[:idx] + [F.join_interaction(p)] + text[idx + 1:])
            if extra is not None:
                p = dict(parts, refs=parts['refs'] + [extra], delim=True)
                yield ('wrong-atom-count', 'many-delimited' + rem, '_base_parser', 'line %d: %d atoms then --' % (idx + 1, arity + 1),
                       text[:idx] + [F.join_interaction(p)] + text[idx + 1:])
        if kind in ('block_atom', 'link_atom', 'mod_atom', 'interaction', 'del_interaction', 'meta', 'edge', 'nonedge',
                    'pattern', 'feature', 'link_attr', 'molmeta', 'variable', 'macro'):
            toks = ln['text'].split(' ')
            spots = range(len(toks) + 1) if every_position else [rng.randrange(len(toks) + 1)]
            for spot in spots:
                for brace in '{}':
                    yield ('unbalanced-braces', 'inserted', '_tokenize', 'line %d: lone %s inserted at token %d' % (idx + 1, brace, spot),
                           text[:idx] + [' '.join(toks[:spot] + [brace] + toks[spot:])] + text[idx + 1:])
            if '{' in ln['text']:
                t = ln['text']
                yield ('unbalanced-braces', 'removed', '_tokenize', 'line %d: last } removed' % (idx + 1),
                       text[:idx] + [t[:t.rindex('}')] + t[t.rindex('}') + 1:]] + text[idx + 1:])
                yield ('unbalanced-braces', 'removed', '_tokenize', 'line %d: first { removed' % (idx + 1),
                       text[:idx] + [t[:t.index('{')] + t[t.index('{') + 1:]] + text[idx + 1:])
        if kind in ('interaction', 'del_interaction', 'link_atom', 'mod_atom', 'edge', 'nonedge') and info['ctx'] != 'block':
            combos = [('+', 0), ('+', -1), ('+', 2), ('++', 1), ('-', 1), ('-', 0), ('--', -1), ('>', 1), ('>', '<'), ('>', '>>'),
                      ('*', 0), ('<', '*'), ('+', '>'), ('>', 0), ('<<', 0)]
            for prefix, order in (combos if every_position else rng.sample(combos, 3)):
                bad = '%sQQ {"order": %s}' % (prefix, F.json.dumps(order))
                if kind in ('interaction', 'del_interaction'):
                    parts = info['parts']
                    at = rng.randrange(len(parts['refs']))
                    new = F.join_interaction(dict(parts, refs=parts['refs'][:at] + [bad] + parts['refs'][at + 1:]))
                elif kind in ('link_atom', 'mod_atom'):
                    new = bad
                else:
                    new = bad + ' ' + bad.replace('QQ', 'RR') if kind == 'edge' else ln['text'].split(' ')[0] + ' ' + bad
                    if kind == 'edge':
                        continue   # an edge needs existing atoms; the contradiction is covered by the other kinds
                yield ('prefix-order-contradiction', 'ff', '_treat_atom_prefix', 'line %d (%s): %s' % (idx + 1, kind, bad),
                       text[:idx] + [new] + text[idx + 1:])


def fault_key(fault, variant):
    return 'read_ff/fault-accepted/%s/%s' % (fault, variant)


def accepted_faults(rng, items, every_position, budget_end, col=None):
    """yield (key, function, description, text) for every injected fault the reader accepted."""
    lines = F.file_lines(items)
    try:
        load_ff(F.render(lines))
    except Exception:
        return          # only faults injected into files that load are meaningful
    for fault, variant, function, where, text in ff_faults(rng, lines, every_position):
        if time.time() > budget_end:
            return
        try:
            load_ff(text)
            accepted = True
        except Exception:
            accepted = False
        if col is not None:
            col.case(('ff-fault', fault, variant, F.fingerprint('\n'.join(text))), True)
        if accepted:
            yield fault_key(fault, variant), function, 'a file with the fault "%s" (%s; %s) was loaded instead of rejected' % (fault, variant, where), text


def run_ff_faults(col, rng, items, every_position, budget_end):
    for key, function, what, text in accepted_faults(rng, items, every_position, budget_end, col):
        if key in {v['key'] for v in col.violations}:
            continue
        # shrink: the same fault on one top-level section alone (with the macros defined before it)
        best = (what, text)
        for n, it in enumerate(items):
            if it['kind'] not in ('block', 'link', 'modification') or len(items) == 1:
                continue
            sub = [x for x in items[:n] if x['kind'] == 'macros'] + [it]
            hit = [(w, t) for k, f, w, t in accepted_faults(rng, sub, True, time.time() + 5) if k == key]
            if hit:
                best = min([best] + hit, key=lambda wt: len(wt[1]))
        col.violation(key, function, best[0], dict(format='.ff', file=best[1]), 'loaded without error', 'an error')


def run_ff_directory(col, rng, n):
    """ForceField(directory): every .ff file of the directory is read, each declaration once."""
    import os
    import shutil
    import tempfile
    from vermouth.forcefield import ForceField
    for _ in range(n):
        files = []
        for names in (['ALA', 'GLY'], ['LYS', 'POPC']):
            macros = {}
            items = [F.gen_macros(rng, macros)] if rng.random() < 0.5 else []
            for name in names:
                items.append(F.gen_block(rng, macros, name, only_section='bonds'))
            items.append(F.gen_link(rng, macros, rich=False, only_section='bonds'))
            files.append(items)
        tmp = tempfile.mkdtemp()
        try:
            path = os.path.join(tmp, 'myff')
            os.makedirs(path)
            for k, items in enumerate(files):
                with open(os.path.join(path, 'part%d.ff' % k), 'w') as out:
                    out.write('\n'.join(F.render(F.file_lines(items))) + '\n')
            try:
                ff = ForceField(path)
            except Exception as exc:
                col.violation('ForceField.read_from/rejects-well-formed', 'ForceField.read_from', 'a directory of well-formed .ff files was rejected',
                              dict(files=[F.render(F.file_lines(i)) for i in files]), '%s: %s' % (type(exc).__name__, exc), 'loads')
                continue
        finally:
            shutil.rmtree(tmp, ignore_errors=True)
        col.case(('ffdir', F.fingerprint(repr([F.render(F.file_lines(i)) for i in files]))), True)
        got = [ff.name, sorted(ff.blocks), len(ff.links)]
        if got != ['myff', ['ALA', 'GLY', 'LYS', 'POPC'], 2]:
            col.violation('ForceField.read_from/declarations-exactly-once', 'ForceField.read_from', 'blocks / links of the files of a directory are not loaded once each',
                          dict(files=[F.render(F.file_lines(i)) for i in files]), got, ['myff', ['ALA', 'GLY', 'LYS', 'POPC'], 2])


# ================================================================================================= unit-level clauses
def tokens_oracle(line):
    """the documented tokens of a line whose braces are balanced and properly nested: maximal brace groups
    (starting at depth 0) and maximal runs free of separators and braces; None when a group never closes or
    a closing brace has no opening one."""
    tokens, cur, depth = [], '', 0
    for ch in line:
        if depth:
            cur += ch
            if ch == '{':
                depth += 1
            elif ch == '}':
                depth -= 1
                if depth == 0:
                    tokens.append(cur)
                    cur = ''
        elif ch == '{':
            if cur:
                tokens.append(cur)
            cur, depth = '{', 1
        elif ch == '}':
            return None
        elif ch in ' \t\n':
            if cur:
                tokens.append(cur)
            cur = ''
        else:
            cur += ch
    if depth:
        return None
    if cur:
        tokens.append(cur)
    return tokens


def run_tokenizer(col, maxlen):
    from vermouth.parser_utils import _tokenize
    for n in range(maxlen + 1):
        for tup in itertools.product('a {}', repeat=n):
            line = ''.join(tup)
            exp = tokens_oracle(line)
            count_balanced = line.count('{') == line.count('}')
            if exp is None and count_balanced:
                continue        # '} {' : closing before opening - whether this is "unbalanced" is not specified
            try:
                got = _tokenize(line)
            except IOError:
                got = None
            col.case(('tok', line), '{' in line or '}' in line)
            if got != exp:
                key = '_tokenize/unbalanced-accepted' if exp is None else ('_tokenize/balanced-rejected' if got is None else '_tokenize/tokens')
                col.violation(key, '_tokenize', 'tokens of a line differ from the documented splitting', line, got, exp)


def run_prefix_table(col):
    """prefix and explicit order mean the same thing; contradiction -> error (every prefix x every order)."""
    from vermouth.ffinput import _treat_atom_prefix
    prefixes = ['', '+', '++', '+++', '-', '--', '>', '>>', '<', '<<', '*', '**']
    orders = [None, 0, 1, 2, 3, -1, -2, '>', '>>', '<', '<<', '*', '**']
    meaning = {'': 0, '+': 1, '++': 2, '+++': 3, '-': -1, '--': -2, '>': '>', '>>': '>>', '<': '<', '<<': '<<', '*': '*', '**': '**'}
    for prefix, order in itertools.product(prefixes, orders):
        attrs = {} if order is None else {'order': order}
        try:
            got = _treat_atom_prefix(prefix + 'BB', dict(attrs, x=1))
            got = [got[0], F.norm(got[1])]
        except IOError:
            got = 'error'
        if order is None or prefix == '':
            final = meaning[prefix] if order is None else order
            exp = [F.prefix_of(final) + 'BB', {'order': final, 'atomname': 'BB', 'x': 1}]
        elif F.canon(meaning[prefix]) == F.canon(order):
            exp = [prefix + 'BB', {'order': order, 'atomname': 'BB', 'x': 1}]
        else:
            exp = 'error'
        col.case(('prefix', prefix, repr(order)), prefix != '' and order is not None)
        if F.canon(got) != F.canon(exp):
            key = '_treat_atom_prefix/contradiction-accepted' if exp == 'error' else '_treat_atom_prefix/equivalence'
            col.violation(key, '_treat_atom_prefix', 'order prefix and explicit order attribute do not mean the same thing',
                          dict(reference=prefix + 'BB', attributes=dict(attrs, x=1)), got, exp)


# ================================================================================================= driver
def bounded(tier, seed):
    logging.disable(logging.CRITICAL)
    try:
        return _bounded(tier, seed)
    finally:
        logging.disable(logging.NOTSET)


def _bounded(tier, seed):
    rng = random.Random(seed)
    quick = tier != 'thorough'
    t0 = time.time()
    col = Collector(
        '.ff: every order of <= 4 top-level sections over {moleculetype, link, modification, macros, citations} (780 files, bodies '
        'random: atoms by name/index, prefix vs order attribute, optional delimiter, #meta, per-line metadata, versions, !-removals, '
        'patterns, features, non-edges, molmeta, macros across sections), every documented interaction section alone in a block / '
        'link / !link / modification, then seeded random larger files; loaded force field compared clause by clause with the '
        'declaration (exactly once, file order). The six faults (unknown section, undefined block atom, duplicate block atom, '
        'unbalanced braces, prefix/order contradiction, wrong atom count) injected at every line of a sample of files and at sampled '
        'lines of the rest. Same for .itp (several molecules, #ifdef/#else), .mapping (several mappings, shorthand / longhand '
        'blocks, extra nodes and edges, weights) and backward .map (several molecules, sections in any order, multiplicity and ! '
        'weights, several force fields per section). _tokenize on every string over {a, space, {, }} up to a length; '
        '_treat_atom_prefix on every prefix x order pair. non-trivial = >= 2 top-level sections, or an injected fault')
    budget = dict(ff_exh=12, ff_rand=6, ff_fault=10, itp=6, map=8) if quick else dict(ff_exh=120, ff_rand=180, ff_fault=200, itp=110, map=130)

    # --- unit-level clauses (cheap, exhaustive)
    run_tokenizer(col, 7 if quick else 9)
    run_prefix_table(col)

    # --- .ff: every documented interaction section alone, in every context
    singles = []
    fixed = random.Random(20240613)      # this scope is the same for every seed
    for sec in list(F.ARITY) + list(F.VARIADIC):
        macros = {}
        files = [([F.gen_block(fixed, macros, 'ALA', plain=True, only_section=sec)], 'block with a single [%s]' % sec),
                 ([F.gen_link(fixed, macros, plain=True, only_section=sec)], 'link with a single [%s]' % sec),
                 ([F.gen_link(fixed, macros, plain=True, only_section=sec, only_delete=True)], 'link with a single [!%s]' % sec),
                 ([F.gen_modification(fixed, macros, 'MOD', plain=True, only_section=sec)], 'modification with a single [%s]' % sec)]
        blk = F.gen_block(fixed, macros, 'GLY', plain=True, only_section='bonds', natoms=5)
        files.append(([blk, F.gen_link(fixed, macros, plain=True, only_section=sec, bases=blk['exp']['atomnames'])],
                      'block, then a link with a single [%s] on atoms of the same names' % sec))
        for items, tag in files:
            run_ff_file(col, items, tag)
            singles.append(items)

    # --- .ff: exhaustive over the order of top-level sections
    kinds = ['B', 'L', 'M', 'macros', 'citations']
    maxlen = 4 if quick else 5
    sequences = [seq for n in range(1, maxlen + 1) for seq in itertools.product(kinds, repeat=n)]
    col.rule = col.rule.replace('<= 4 top-level', '<= %d top-level' % maxlen).replace('780 files', '%d files' % len(sequences))
    end = time.time() + budget['ff_exh']
    done = 0
    fault_pool = []
    for seq in sequences:
        if time.time() > end:
            break
        prefix = ['variables'] if rng.random() < 0.3 else []
        items = F.gen_file(rng, prefix + list(seq), rich=False)
        run_ff_file(col, items, 'top-level order ' + ' '.join(seq))
        if len(fault_pool) < 400:
            fault_pool.append(items)
        done += 1
    if done == len(sequences):
        col.exhaustive = True
        col.bound = ('every sequence of <= %d top-level sections over {moleculetype, link, modification, macros, citations} '
                     '(%d files; section bodies random); _tokenize on all strings of length <= %d over 4 characters; '
                     '_treat_atom_prefix on 12 prefixes x 13 orders' % (maxlen, len(sequences), 7 if quick else 9))
    else:
        col.bound = 'top-level orders: %d of %d sequences within the time budget' % (done, len(sequences))

    # --- .ff: seeded random larger files
    end = time.time() + budget['ff_rand']
    n_rand = 0
    while time.time() < end and n_rand < (400 if quick else 20000):
        n = rng.randint(2, 7)
        seq = [rng.choice(['B', 'L', 'M', 'L', 'B', 'macros', 'citations']) for _ in range(n)]
        pre = [rng.choice(['variables', 'macros', 'variables', 'citations']) for _ in range(rng.randint(0, 3))]
        items = F.gen_file(rng, pre + seq, rich=True)
        run_ff_file(col, items, 'random file')
        if n_rand % 4 == 0:
            fault_pool.append(items)
        n_rand += 1

    # --- .ff: faults
    end = time.time() + budget['ff_fault']
    small = singles + sorted((it for it in fault_pool if len(it) <= 2), key=lambda it: len(F.file_lines(it)))[:40]
    large = [it for it in fault_pool if len(it) > 2]
    rng.shuffle(large)
    half = time.time() + 0.6 * budget['ff_fault']
    for n, items in enumerate(small):
        if time.time() > half:
            break
        run_ff_faults(col, rng, items, every_position=True, budget_end=half)
    for n, items in enumerate(large):
        if time.time() > end:
            break
        run_ff_faults(col, rng, items, every_position=(n % 6 == 0), budget_end=end)
    run_ff_directory(col, rng, 4 if quick else 40)

    # --- .itp
    I.run(col, rng, quick, time.time() + budget['itp'])
    # --- mappings
    M.run(col, rng, quick, time.time() + budget['map'])
    col.rule += ' [wall %.0f s]' % (time.time() - t0)
    return col.result()


def replay_model(function, model):
    """counter-models of the contract layer are about parser states, not files: nothing to replay natively."""
    return None

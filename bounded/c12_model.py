"""C12 helper: a naive abstract model of a molecule (plain lists / dicts), written from the property statement and
the documented behaviour of the editing operations. Nothing of /repo is imported here."""
import copy

KNOWN_EDGE_TYPES = ('bonds', 'angles', 'dihedrals', 'cmap', 'constraints')


class Model:
    """order: atom keys in order; attrs: key -> dict; edges: frozenset({u, v}) -> dict;
    inter: type -> list of (atoms tuple, parameters list, meta dict)."""

    def __init__(self, kind='Molecule'):
        self.kind = kind
        self.order = []
        self.attrs = {}
        self.edges = {}
        self.inter = {}

    def clone(self):
        return copy.deepcopy(self)

    def view(self):
        return dict(order=list(self.order), attrs={k: dict(v) for k, v in self.attrs.items()},
                    edges={e: dict(d) for e, d in self.edges.items()},
                    inter={t: [(tuple(a), list(p), dict(m)) for a, p, m in lst] for t, lst in self.inter.items() if lst})

    # ---- elementary edits
    def add_node(self, key, attrs):
        if key not in self.attrs:
            self.order.append(key)
            self.attrs[key] = {}
        self.attrs[key].update(attrs)

    def remove_atoms(self, keys):
        gone = set(k for k in keys if k in self.attrs)
        self.order = [k for k in self.order if k not in gone]
        for k in gone:
            del self.attrs[k]
        self.edges = {e: d for e, d in self.edges.items() if not (e & gone)}
        self.inter = {t: [x for x in lst if not (set(x[0]) & gone)] for t, lst in self.inter.items()}

    def add_edge(self, u, v, attrs):
        self.edges.setdefault(frozenset((u, v)), {}).update(attrs)

    def induced(self, keys):
        """sub-view induced by keys (order of first occurrence in keys)."""
        sub = Model(self.kind)
        for k in keys:
            if k not in sub.attrs:
                sub.order.append(k)
                sub.attrs[k] = dict(self.attrs[k])
        inside = set(sub.order)
        sub.edges = {e: dict(d) for e, d in self.edges.items() if e <= inside}
        sub.inter = {t: [(tuple(a), list(p), dict(m)) for a, p, m in lst if set(a) <= inside]
                     for t, lst in self.inter.items()}
        return sub

    def matches(self, type_, atoms, version):
        return [i for i, (a, _p, m) in enumerate(self.inter.get(type_, []))
                if tuple(a) == tuple(atoms) and m.get('version', 0) == version]

    def template_matches(self, type_, atoms, params):
        return [i for i, (a, p, _m) in enumerate(self.inter.get(type_, []))
                if tuple(a) == tuple(atoms) and (not params or list(p) == list(params))]


def well_formed(view):
    """None, or (clause, detail): every bond and interaction mentions present atoms only."""
    present = set(view['order'])
    if len(view['order']) != len(present) or present != set(view['attrs']):
        return 'wf-atoms', 'atom list and attribute table disagree'
    for t, lst in view['inter'].items():
        for a, _p, _m in lst:
            missing = [x for x in a if x not in present]
            if missing:
                return 'wf-interaction', '%s %r mentions absent atom(s) %r' % (t, tuple(a), missing)
    for e in view['edges']:
        missing = [x for x in e if x not in present]
        if missing:
            return 'wf-bond', 'bond %r mentions absent atom(s) %r' % (tuple(e), missing)
    return None


def diff(got, exp):
    """first difference between two views, as text; None if equal."""
    if got['order'] != exp['order']:
        return 'atoms (in order) %r, expected %r' % (got['order'], exp['order'])
    for k in exp['order']:
        if got['attrs'][k] != exp['attrs'][k]:
            return 'atom %r has %r, expected %r' % (k, got['attrs'][k], exp['attrs'][k])
    if set(got['edges']) != set(exp['edges']):
        return 'bonds %r, expected %r' % (sorted(map(lambda e: sorted(e, key=repr), got['edges'])),
                                         sorted(map(lambda e: sorted(e, key=repr), exp['edges'])))
    for e in exp['edges']:
        if got['edges'][e] != exp['edges'][e]:
            return 'bond %r has %r, expected %r' % (tuple(e), got['edges'][e], exp['edges'][e])
    if got['inter'] != exp['inter']:
        return 'interactions %r, expected %r' % (got['inter'], exp['inter'])
    return None


def expected_merge(recv, other, new_keys, got_attrs):
    """Outcome of merging `other` into `recv` according to the statement, given the keys the implementation chose
    for the newcomers (new_keys, positional) and the attributes it produced (got_attrs, to read the shifts).
    Returns (problems, model): problems is a list of (clause, text); model is the expected receiver afterwards
    (None if the keys are unusable)."""
    problems = []
    old = set(recv.order)
    if len(new_keys) != len(other.order) or len(set(new_keys)) != len(new_keys) or (set(new_keys) & old):
        problems.append(('fresh-keys', 'newcomers got keys %r while the receiver already had %r' % (
            list(new_keys), recv.order)))
        return problems, None
    corr = dict(zip(other.order, new_keys))
    # allowed shifts: "those of the receiving molecule's last atom". Last in order and highest key may differ for
    # unordered keys: both readings accepted. Empty receiver: nothing to shift by.
    allowed = {}
    for name in ('resid', 'charge_group'):
        if not recv.order:
            allowed[name] = {0}
            continue
        refs = {recv.order[-1]}
        try:
            refs.add(max(recv.order))
        except TypeError:
            pass
        if all(name in recv.attrs[r] for r in refs):
            allowed[name] = {recv.attrs[r][name] for r in refs}
        else:
            allowed[name] = None   # reference atom carries no such number: unspecified
    out = recv.clone()
    for n in other.order:
        k = corr[n]
        exp = dict(other.attrs[n])
        out.order.append(k)
        out.attrs[k] = exp
    for name in ('resid', 'charge_group'):
        deltas = {}
        for n in other.order:
            if name in other.attrs[n] and name in got_attrs.get(corr[n], {}):
                try:
                    deltas[n] = got_attrs[corr[n]][name] - other.attrs[n][name]
                except TypeError:
                    deltas[n] = 'not a number'
            elif name in other.attrs[n]:
                deltas[n] = 'lost'
        values = set(deltas.values())
        tag = name.replace('_', '-') + '-shift'
        if len(values) > 1:
            problems.append((tag + '-uniform', 'newcomers\' %s shifted non-uniformly: %r' % (name, deltas)))
        elif values and allowed[name] is not None and not (values <= allowed[name]):
            if not recv.order:
                problems.append((tag + '-empty-receiver', 'newcomers\' %s shifted by %r although the receiver has no atom' % (
                    name, sorted(values, key=repr))))
            else:
                problems.append((tag, 'newcomers\' %s shifted by %r, the receiver\'s last atom has %r' % (
                    name, sorted(values, key=repr), sorted(allowed[name]))))
        for n in other.order:
            k = corr[n]
            if k in got_attrs and name in got_attrs[k]:
                # whatever was checked above is adopted; atoms without the number are unspecified
                out.attrs[k][name] = got_attrs[k][name]
    for e, d in other.edges.items():
        u, v = tuple(e)
        out.edges.setdefault(frozenset((corr[u], corr[v])), {}).update(d)
    for t, lst in other.inter.items():
        for a, p, m in lst:
            out.inter.setdefault(t, []).append((tuple(corr[x] for x in a), list(p), dict(m)))
    return problems, out

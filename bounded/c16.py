"""C16 bounded stand-in: structure files round-trip (PDB, GRO).

The real writers and readers of the working tree run natively on many small systems and on a few systems that cross
the 10^4 / 10^5 field-width boundaries.  The oracle is written from the property statement and from the public
column tables of the two formats (PDB 3.3 ATOM/TER/CONECT, GROMACS manual `%5d%-5s%5s%5d%8.3f%8.3f%8.3f`); it never
calls vermouth.

judge        = the round trip (writer -> real reader) compared with the system that was written
attribution  = an independent mini-parser of the written text (official column tables): when the text itself is wrong
               the key names the writer, otherwise the reader
key          = '<responsible stage>/<clause>'; clause is the field (atomname, resname, resid, chain, position),
               '<field>-truncation' (an overflowing field is not a truncation of the original),
               '<field>-beside-overflow' (a field in a line in which ANOTHER field overflows), 'atom-count', 'molecules',
               'bonds' (all serials < 10^4), 'bonds-5-digit-serials' (some serial >= 10^4), 'raises-<Exception>'

Excluded because the statement does not fix them: atoms without any ASCII letter in the name and without an element
(the readers derive the element from the name), blanks / '.' / '#' inside names, atomid attributes that contradict the
node order, empty molecules, self-bonds, non-finite coordinates, the chain for GRO (no such column), bonds and the
molecule division of systems beyond the five-digit numbering (those are written without bonds), the side from which an
over-long field is cut (prefix or suffix are both accepted in the round trip; TruncFormatter.format_field is checked
separately against the alignment rule of its own documentation).
"""
import hashlib
import itertools
import logging
import multiprocessing as mp
import os
import random
import shutil
import string
import tempfile
import time

from .common import Collector, REPO, load_cli  # noqa: F401  (REPO/load_cli: sys.path handling lives in common)

# ----------------------------------------------------------------------------------------------------------------
# format tables (0-based, half open) -- PDB 3.3 and the GROMACS manual, NOT extracted from /repo
PDB_COLS = dict(serial=(6, 11), atomname=(12, 16), altloc=(16, 17), resname=(17, 20), chain=(21, 22), resid=(22, 26),
                icode=(26, 27), x=(30, 38), y=(38, 46), z=(46, 54))
PDB_BLANK = (11, 20, 27, 28, 29)
PDB_CONECT = ((6, 11), (11, 16), (16, 21), (21, 26), (26, 31))
PDB_W = dict(atomname=4, resname=3, chain=1, resid=4, serial=5, coord=8)
GRO_COLS = dict(resid=(0, 5), resname=(5, 10), atomname=(10, 15), serial=(15, 20), x=(20, 28), y=(28, 36), z=(36, 44))
GRO_W = dict(atomname=5, resname=5, resid=5, serial=5, coord=8)
LETTERS = set(string.ascii_letters)
FIELDS = ('atomname', 'resname', 'resid', 'chain')


# ----------------------------------------------------------------------------------------------------------------
# expectation helpers (statement: "same ... to the precision of the format"; overflow "truncates that field only")
def cand_str(value, width):
    """values a string field may read back as: itself when it fits, else a cut to the column width (either side)."""
    if len(value) <= width:
        return {value}
    return {value[:width], value[-width:]}


def cand_int(value, width):
    text = str(value)
    if len(text) <= width:
        return {value}
    out = set()
    for piece in (text[-width:], text[:width]):
        try:
            out.add(int(piece))
        except ValueError:
            pass
    return out


def coord_fits(value, width=8):
    return len('%.3f' % value) <= width


def has_letter(text):
    return any(c in LETTERS for c in text)


def flat_atoms(desc):
    return [a for mol in desc for a in mol['atoms']]


def pdb_serials(desc):
    """serial numbers the PDB numbering gives: consecutive over ATOM and TER records, starting at 1."""
    serials, n = [], 1
    for mol in desc:
        row = []
        for _ in mol['atoms']:
            row.append(n)
            n += 1
        n += 1  # TER
        serials.append(row)
    return serials, n - 1


def expected_bonds(desc):
    """bonds as pairs of (molecule index, position in the molecule)."""
    out = set()
    for m, mol in enumerate(desc):
        where = {k: i for i, k in enumerate(mol['keys'])}
        for a, b in mol['edges']:
            out.add(frozenset(((m, where[a]), (m, where[b]))))
    return out


def expectations(want, serials, widths, scale, has_chain):
    """per atom: (candidate values per field, set of overflowing fields, which coordinates fit their column)."""
    out = []
    wser = widths['serial']
    wcoord = widths['coord']
    for idx, w in enumerate(want):
        over = set()
        cands = {}
        for f in FIELDS:
            if f == 'chain' and not has_chain:
                continue
            if f == 'resid':
                cands[f] = cand_int(w[f], widths[f])
                if len(str(w[f])) > widths[f]:
                    over.add(f)
            else:
                cands[f] = cand_str(w[f], widths[f])
                if len(w[f]) > widths[f]:
                    over.add(f)
        cfit = [coord_fits(c * scale, wcoord) for c in w['pos']]
        if not all(cfit):
            over.add('position')
        if len(str(serials[idx])) > wser:
            over.add('serial')
        out.append((cands, over, cfit))
    return out


def compare_atoms(got, want, expect, scale):
    """got: list of dict(atomname, resname, resid, chain, pos) read back; want: atoms of the description, same order;
    expect: expectations(want, ...). scale: file unit per nm. returns {clause: detail of the first mismatch}."""
    mism = {}
    tol = 0.5e-3 / scale + 1e-9
    for idx, (g, w) in enumerate(zip(got, want)):
        cands, over, cfit = expect[idx]
        for f, cs in cands.items():
            if g.get(f) in cs:
                continue
            if f in over:
                clause = f + '-truncation'
            elif over:
                clause = f + '-beside-overflow'
            else:
                clause = f
            mism.setdefault(clause, dict(atom=idx, field=f, written=w[f], read=g.get(f), overflowing=sorted(over)))
        bad = None
        gp = g.get('pos')
        for ax in range(3):
            if not cfit[ax]:
                continue
            try:
                ok = gp is not None and abs(float(gp[ax]) - w['pos'][ax]) <= tol
            except (TypeError, ValueError):
                ok = False
            if not ok:
                bad = ax
                break
        if bad is not None:
            clause = 'position' if not over else 'position-beside-overflow'
            mism.setdefault(clause, dict(atom=idx, field='xyz'[bad], written=w['pos'][bad],
                                         read=None if gp is None else _num(gp[bad]), overflowing=sorted(over)))
    return mism


def _num(x):
    try:
        return float(x)
    except (TypeError, ValueError):
        return repr(x)


# ----------------------------------------------------------------------------------------------------------------
# independent mini-parsers of the written text
def _int(text):
    try:
        return int(text)
    except ValueError:
        return None


def _float(text):
    try:
        return float(text)
    except ValueError:
        return None


def parse_pdb_text(text):
    mols, cur, conects, layout_ok = [], [], [], True
    for line in text.split('\n'):
        rec = line[:6]
        if rec in ('ATOM  ', 'HETATM'):
            raw = {f: line[a:b] for f, (a, b) in PDB_COLS.items()}
            xyz = [_float(raw[c]) for c in 'xyz']
            atom = dict(serial=_int(raw['serial']), atomname=raw['atomname'].strip(), resname=raw['resname'].strip(),
                        chain=raw['chain'].strip(), resid=_int(raw['resid']),
                        pos=None if None in xyz else [v / 10 for v in xyz])
            if (any(line[c:c + 1].strip() for c in PDB_BLANK) or raw['altloc'].strip() or raw['icode'].strip()
                    or len(line) != 80):
                layout_ok = False
            cur.append(atom)
        elif rec.rstrip() in ('TER', 'END', 'ENDMDL'):
            if cur:
                mols.append(cur)
            cur = []
        elif rec == 'CONECT':
            ids = [line[a:b] for a, b in PDB_CONECT]
            ids = [_int(t) for t in ids if t.strip()]
            if line[31:].strip():
                layout_ok = False
            conects.append(ids)
    if cur:
        mols.append(cur)
    where = {}
    for m, mol in enumerate(mols):
        for i, atom in enumerate(mol):
            where.setdefault(atom['serial'], []).append((m, i))
    bonds, dangling = set(), 0
    for ids in conects:
        if not ids:
            continue
        first = where.get(ids[0], [])
        for other in ids[1:]:
            second = where.get(other, [])
            if len(first) != 1 or len(second) != 1:
                dangling += 1
                continue
            bonds.add(frozenset((first[0], second[0])))
    return mols, bonds, dangling, layout_ok


def parse_gro_text(text):
    lines = text.split('\n')
    if lines and lines[-1] == '':
        lines = lines[:-1]
    count = _int(lines[1].strip()) if len(lines) > 1 else None
    atoms = []
    layout_ok = True
    for line in lines[2:-1]:
        if len(line) != 44:
            layout_ok = False
        raw = {f: line[a:b] for f, (a, b) in GRO_COLS.items()}
        xyz = [_float(raw[c]) for c in 'xyz']
        atoms.append(dict(serial=_int(raw['serial']), atomname=raw['atomname'].strip(), resname=raw['resname'].strip(),
                          resid=_int(raw['resid']), pos=None if None in xyz else xyz))
    return count, atoms, layout_ok


# ----------------------------------------------------------------------------------------------------------------
# building the real objects / reading them back
def build_system(desc):
    import numpy as np
    from vermouth.molecule import Molecule
    from vermouth.system import System
    system = System()
    for mol in desc:
        molecule = Molecule()
        for key, atom in zip(mol['keys'], mol['atoms']):
            attrs = dict(atomname=atom['atomname'], resname=atom['resname'], resid=atom['resid'], chain=atom['chain'],
                         position=np.array(atom['pos'], dtype=float))
            if atom.get('atomid') is not None:
                attrs['atomid'] = atom['atomid']
            if atom.get('element') is not None:
                attrs['element'] = atom['element']
            molecule.add_node(key, **attrs)
        molecule.add_edges_from(mol['edges'])
        system.add_molecule(molecule)
    return system


def read_back_molecules(molecules):
    out_atoms, out_bonds = [], set()
    for m, mol in enumerate(molecules):
        where = {k: i for i, k in enumerate(mol.nodes)}
        row = []
        for k in mol.nodes:
            node = mol.nodes[k]
            row.append(dict(atomname=node.get('atomname'), resname=node.get('resname'), resid=node.get('resid'),
                            chain=node.get('chain'), pos=node.get('position')))
        out_atoms.append(row)
        for a, b in mol.edges:
            out_bonds.add(frozenset(((m, where[a]), (m, where[b]))))
    return out_atoms, out_bonds


def describe(desc, spec=None):
    """JSON-able reproduction recipe: the generator spec for big systems, the full description for small ones."""
    if spec is not None:
        return dict(generator='c16.big_system', spec=spec)
    return dict(molecules=[dict(keys=list(m['keys']), edges=[list(e) for e in m['edges']],
                                atoms=[[a['atomname'], a['resname'], a['resid'], a['chain'], list(a['pos']),
                                        a.get('atomid'), a.get('element')] for a in m['atoms']]) for m in desc],
                atom_columns=['atomname', 'resname', 'resid', 'chain', 'position_nm', 'atomid', 'element'])


def fingerprint(fmt, desc, spec):
    if spec is not None:
        return (fmt, 'big', repr(sorted(spec.items())))
    h = hashlib.sha1()
    for mol in desc:
        h.update(repr((mol['keys'], sorted(map(sorted, mol['edges'])))).encode())
        for a in mol['atoms']:
            h.update(repr((a['atomname'], a['resname'], a['resid'], a['chain'], a['pos'], a.get('atomid'),
                           a.get('element'))).encode())
    return (fmt, h.hexdigest())


# ----------------------------------------------------------------------------------------------------------------
# one PDB round trip
PDB_READER_FN = {'atom-count': 'PDBParser._atom', 'molecules': 'PDBParser._finish_molecule',
                 'bonds': 'PDBParser.do_conect', 'bonds-5-digit-serials': 'PDBParser.do_conect'}


def pdb_make_admissible(desc):
    """the PDB reader derives a missing element from the name: give an explicit element to atoms whose name may come
    back without any ASCII letter (those are outside the statement otherwise)."""
    for atom in flat_atoms(desc):
        if atom.get('element') is None and not all(has_letter(c) for c in cand_str(atom['atomname'], PDB_W['atomname'])):
            atom['element'] = 'X'


def check_pdb(col, desc, tmpdir, via_file=False, spec=None, tag=''):
    from vermouth.pdb.pdb import write_pdb_string, write_pdb, PDBParser
    pdb_make_admissible(desc)
    from vermouth.processors.pdb_reader import PDBInput
    from vermouth.system import System
    serials, last = pdb_serials(desc)
    fits = last <= 99999
    with_bonds = any(mol['edges'] for mol in desc)
    if not fits and with_bonds:
        raise AssertionError('generator: systems beyond the five-digit numbering are written without bonds')
    want = flat_atoms(desc)
    inp = describe(desc, spec)
    n_atoms = len(want)
    col.case(fingerprint('pdb', desc, spec), n_atoms >= 2,
             dict(format='pdb', molecules=[len(m['atoms']) for m in desc][:12], bonds=sum(len(m['edges']) for m in desc),
                  last_serial=last, tag=tag))
    system = build_system(desc)
    path = os.path.join(tmpdir, 'rt.pdb')
    try:
        if via_file:
            write_pdb(system, path, defer_writing=False)
            with open(path) as handle:
                text = handle.read()
        else:
            text = write_pdb_string(system)
    except Exception as ex:  # the statement promises a file for every system
        col.violation('write_pdb_string/raises-%s' % type(ex).__name__, 'write_pdb_string',
                      'writing the system as PDB raises', inp, '%s: %s' % (type(ex).__name__, ex), 'a PDB file')
        return
    # ---- attribution: is the text itself right by the official column table?
    w_mols, w_bonds, w_dangling, layout_ok = parse_pdb_text(text)
    flat_serials = [s for row in serials for s in row]
    expect = expectations(want, flat_serials, PDB_W, 10.0, True)
    cw = {}
    w_flat = [a for mol in w_mols for a in mol]
    if len(w_flat) != n_atoms:
        cw['atom-count'] = dict(read=len(w_flat), written=n_atoms)
    else:
        cw.update(compare_atoms(w_flat, want, expect, 10.0))
    bond_clause = 'bonds' if last <= 9999 else 'bonds-5-digit-serials'
    if fits:
        if [len(m) for m in w_mols] != [len(m['atoms']) for m in desc]:
            cw['molecules'] = dict(read=[len(m) for m in w_mols][:20], written=[len(m['atoms']) for m in desc][:20])
        exp_b = expected_bonds(desc)
        if w_bonds != exp_b or w_dangling:
            cw[bond_clause] = _bond_detail(w_bonds, exp_b, serials, text, w_dangling)
    # ---- judge: the real reader
    try:
        if via_file:
            got_system = System()
            PDBInput(path, exclude=(), ignh=False, modelidx=1).run_system(got_system)
            molecules = list(got_system.molecules)
        else:
            molecules = list(PDBParser(exclude=(), ignh=False, modelidx=1).parse(text.split('\n')))
    except Exception as ex:
        stage = 'write_pdb_string' if (cw or not layout_ok) else 'PDBParser'
        col.violation('%s/raises-%s' % (stage, type(ex).__name__), 'read_pdb' if stage == 'PDBParser' else stage,
                      'reading the written PDB file back raises' + (' (the text is already wrong by the PDB column table)'
                                                                    if stage != 'PDBParser' else ''),
                      inp, '%s: %s' % (type(ex).__name__, ex), 'the molecules that were written')
        return
    r_atoms, r_bonds = read_back_molecules(molecules)
    cr = {}
    r_flat = [a for mol in r_atoms for a in mol]
    if len(r_flat) != n_atoms:
        cr['atom-count'] = dict(read=len(r_flat), written=n_atoms)
    else:
        sizes_ok = [len(m) for m in r_atoms] == [len(m['atoms']) for m in desc]
        if fits and not sizes_ok:
            cr['molecules'] = dict(read=[len(m) for m in r_atoms][:20], written=[len(m['atoms']) for m in desc][:20])
        if sizes_ok or not fits:
            cr.update(compare_atoms(r_flat, want, expect, 10.0))
        if fits and sizes_ok:
            exp_b = expected_bonds(desc)
            if r_bonds != exp_b:
                cr[bond_clause] = _bond_detail(r_bonds, exp_b, serials, text, 0)
    if not cr:
        return
    report(col, cr, cw, layout_ok, 'write_pdb_string', 'PDBParser', PDB_READER_FN, 'PDBParser._atom', 'PDB', inp)


def _bond_detail(got, exp, serials, text, dangling):
    def ser(pair):
        return sorted(serials[m][i] for m, i in pair)
    missing = sorted(ser(p) for p in exp - got)
    extra = sorted(ser(p) for p in got - exp)
    first = (missing or extra or [[None]])[0][0]
    lines = [ln for ln in text.split('\n') if ln.startswith('CONECT')]
    shown = [ln for ln in lines if first is not None and str(first)[-4:] in ln][:3]
    return dict(bonds_written=len(exp), bonds_read=len(got), missing_serial_pairs=missing[:4],
                unexpected_serial_pairs=extra[:4], unresolvable_conect_entries=dangling, conect_lines=shown)


def report(col, cr, cw, layout_ok, writer, reader, reader_fn, reader_default, fmt, inp):
    """cr: clauses the round trip violates; cw: clauses the written text violates (official columns)."""
    if cw:
        clauses, stage = cw, writer
    elif not layout_ok:
        clauses, stage = cr, writer
    else:
        clauses, stage = cr, reader
    for clause, detail in sorted(clauses.items()):
        function = writer if stage == writer else reader_fn.get(clause, reader_default)
        what = '%s round trip: %s differs after write + read' % (fmt, clause)
        if stage == writer:
            what += ' (the written text is already wrong by the %s column table)' % fmt
        else:
            what += ' (the written text is right by the %s column table; the reader returns something else)' % fmt
        col.violation('%s/%s' % (stage, clause), function, what, dict(inp, mismatch=detail),
                      detail.get('read', detail.get('bonds_read')), detail.get('written', detail.get('bonds_written')))


# ----------------------------------------------------------------------------------------------------------------
# one GRO round trip
def gro_admissible(desc):
    """the GRO reader derives the element from the name: every way the name may come back needs an ASCII letter."""
    return all(all(has_letter(c) for c in cand_str(a['atomname'], GRO_W['atomname'])) for a in flat_atoms(desc))


def check_gro(col, desc, tmpdir, spec=None, tag=''):
    from vermouth.gmx.gro import write_gro
    from vermouth.processors.gro_reader import GROInput
    from vermouth.system import System
    want = flat_atoms(desc)
    n_atoms = len(want)
    inp = describe(desc, spec)
    col.case(fingerprint('gro', desc, spec), n_atoms >= 2,
             dict(format='gro', molecules=[len(m['atoms']) for m in desc][:12], tag=tag))
    system = build_system(desc)
    path = os.path.join(tmpdir, 'rt.gro')
    try:
        write_gro(system, path, defer_writing=False)
        with open(path) as handle:
            text = handle.read()
    except Exception as ex:
        col.violation('write_gro/raises-%s' % type(ex).__name__, 'write_gro', 'writing the system as GRO raises', inp,
                      '%s: %s' % (type(ex).__name__, ex), 'a GRO file')
        return
    serials = list(range(1, n_atoms + 1))
    count, w_atoms, layout_ok = parse_gro_text(text)
    expect = expectations(want, serials, GRO_W, 1.0, False)
    cw = {}
    if count != n_atoms or len(w_atoms) != n_atoms:
        cw['atom-count'] = dict(read=[count, len(w_atoms)], written=n_atoms)
    else:
        cw.update(compare_atoms(w_atoms, want, expect, 1.0))
    try:
        got_system = System()
        GROInput(path, exclude=(), ignh=False).run_system(got_system)
        molecules = list(got_system.molecules)
    except Exception as ex:
        stage = 'write_gro' if (cw or not layout_ok) else 'read_gro'
        col.violation('%s/raises-%s' % (stage, type(ex).__name__), stage, 'reading the written GRO file back raises', inp,
                      '%s: %s' % (type(ex).__name__, ex), 'the atoms that were written')
        return
    r_atoms, _ = read_back_molecules(molecules)
    r_flat = [a for mol in r_atoms for a in mol]
    cr = {}
    if len(r_flat) != n_atoms:
        cr['atom-count'] = dict(read=len(r_flat), written=n_atoms)
    else:
        cr.update(compare_atoms(r_flat, want, expect, 1.0))
    if cr:
        report(col, cr, cw, layout_ok, 'write_gro', 'read_gro', {}, 'read_gro', 'GRO', inp)


# ----------------------------------------------------------------------------------------------------------------
# generators
NAMES = ['CA', 'N', 'C', 'O', 'CB', '1HB2', "O5'", 'HD11', 'BB', 'SC1', 'H', 'OXT', 'NE2', 'CLA', "C1*", 'ABCDE']
RESNAMES = ['ALA', 'GLY', 'LYS', 'A', 'DA', 'POPC', 'HOH', 'SOL', 'W']
CHAINS = ['A', 'B', '', 'Z', 'a', '1']
NAME_SWEEP = ['C', 'CA', 'OXT', 'HD11', '1HB2', 'ABCDE', 'A1234', 'ABCDEF', 'N12345X', 'X1234567Y', 'aB3dE6gH9j',
              "O5'", 'C*', 'H+', 'CL-', 'ZZZZ', 'Q']
NAME_SWEEP_PDB_ONLY = ['', '1', '1234', '12345', '123456C', 'C123456']   # need an explicit element
RESNAME_SWEEP = ['', 'A', 'DA', 'ALA', 'POPC', 'DPPC5', 'CHOLES', 'LONGRESNAME', 'SOL', '1AB', 'A2345', 'B23456']
CHAIN_SWEEP = ['', 'A', 'z', '7', 'AB', 'XYZ']
RESID_SWEEP = [-123456, -100000, -99999, -12345, -10000, -9999, -1000, -999, -100, -99, -10, -9, -1, 0, 1, 9, 10, 99,
               100, 999, 1000, 9998, 9999, 10000, 10001, 12345, 20000, 99998, 99999, 100000, 100001, 123456, 1000000]
COORD_SWEEP = [0.0, -0.0, 0.0001, -0.0001, 0.00005, 0.00049999, 0.0005, 0.00051, 0.001, -0.001, 0.9999, 1.2345, -1.2345,
               9.9999, -9.9999, 10.0, 99.9994, 99.9999, 99.99996, -99.9994, -99.9999, -99.99996, 100.0, -100.0, 123.4567,
               999.9994, 999.9999, 999.99996, -999.999, -999.9996, 1000.0, -1000.0, 9999.999, 9999.9996, 12345.678,
               -1234.5678, 100000.5]


def plain_atom(g, m=0):
    """a recognisable in-range atom for global index g (all fields differ from the neighbours)."""
    return dict(atomname=NAMES[g % len(NAMES)], resname=RESNAMES[(g // 3) % 7], resid=(g // 3) * 7 + 1 - 3 * (g % 2),
                chain=CHAINS[m % 2], pos=(round(0.137 * g - 1.0, 4), round(-0.05 * g + 0.3333, 4), round(1.5 + 0.001 * g * g, 4)),
                atomid=None, element=None)


def make_keys(n, style, rng=None):
    if style == 'range':
        return list(range(n))
    if style == 'sparse-descending':      # inserted from high to low, with gaps
        return [3 * (n - i) + 7 for i in range(n)]
    if style == 'offset':                 # contiguous but not from zero
        return [i + 5 for i in range(n)]
    if style == 'shuffled':
        keys = rng.sample(range(-5, 4 * n + 5), n)
        return keys
    raise ValueError(style)


def compositions(total, max_parts):
    if total == 0:
        yield ()
        return
    for first in range(1, total + 1):
        for rest in compositions(total - first, max_parts - 1):
            if len(rest) + 1 <= max_parts:
                yield (first,) + rest


def topology_systems():
    """every system with <= 4 atoms in <= 3 molecules, every subset of the possible bonds, 3 key styles."""
    for total in range(1, 5):
        for comp in compositions(total, 3):
            pair_sets = [list(itertools.combinations(range(n), 2)) for n in comp]
            subsets = [[c for r in range(len(p) + 1) for c in itertools.combinations(p, r)] for p in pair_sets]
            for choice in itertools.product(*subsets):
                for style in ('range', 'sparse-descending', 'atomid'):
                    desc, g = [], 0
                    for m, n in enumerate(comp):
                        keys = make_keys(n, 'offset' if style == 'atomid' else style)
                        atoms = []
                        for i in range(n):
                            atom = plain_atom(g, m)
                            if style == 'atomid':
                                atom['atomid'] = 10 + 3 * (g // 2)   # non-decreasing, gaps, repeated values
                            atoms.append(atom)
                            g += 1
                        desc.append(dict(keys=keys, atoms=atoms, edges=[(keys[a], keys[b]) for a, b in choice[m]]))
                    yield desc


def sweep_systems():
    """one boundary value in one field of one atom of a [2 atoms + bond, 1 atom] system."""
    def base():
        desc = [dict(keys=[0, 1], atoms=[plain_atom(0, 0), plain_atom(1, 0)], edges=[(0, 1)]),
                dict(keys=[0], atoms=[plain_atom(2, 1)], edges=[])]
        return desc
    spots = [(0, 0), (0, 1), (1, 0)]
    for field, values, pdb_only in (('atomname', NAME_SWEEP, False), ('atomname', NAME_SWEEP_PDB_ONLY, True),
                                    ('resname', RESNAME_SWEEP, False), ('chain', CHAIN_SWEEP, False),
                                    ('resid', RESID_SWEEP, False)):
        for value in values:
            for m, i in spots:
                desc = base()
                desc[m]['atoms'][i][field] = value
                if pdb_only:
                    desc[m]['atoms'][i]['element'] = 'C'
                yield desc, pdb_only, '%s=%r' % (field, value)
    for value in COORD_SWEEP:
        for m, i in spots:
            for ax in range(3):
                desc = base()
                pos = list(desc[m]['atoms'][i]['pos'])
                pos[ax] = value
                desc[m]['atoms'][i]['pos'] = tuple(pos)
                yield desc, False, '%s=%r' % ('xyz'[ax], value)
    # all fields of one line overflow together / each pair of fields
    over = dict(atomname='ABCDEFG', resname='LONGRES', chain='QR', resid=123456)
    for r in (2, 3, 4):
        for combo in itertools.combinations(sorted(over), r):
            for m, i in spots:
                desc = base()
                for f in combo:
                    desc[m]['atoms'][i][f] = over[f]
                yield desc, False, 'overflow of ' + '+'.join(combo)


def degree_systems():
    """stars of degree 0..13 (CONECT records carry four partners) with the centre at the lowest / a middle / the highest
    key, complete graphs, and a second molecule in front so that serials are offset by a TER record."""
    for degree in range(0, 14):
        for centre_at in ('low', 'mid', 'high'):
            n = degree + 1
            keys = list(range(n))
            centre = {'low': 0, 'mid': n // 2, 'high': n - 1}[centre_at]
            edges = [(centre, k) for k in keys if k != centre]
            front = dict(keys=[0, 1], atoms=[plain_atom(0, 0), plain_atom(1, 0)], edges=[(0, 1)])
            star = dict(keys=keys, atoms=[plain_atom(2 + i, 1) for i in range(n)], edges=edges)
            yield [front, star], 'star degree %d centre %s' % (degree, centre_at)
    for n in range(2, 9):
        keys = make_keys(n, 'sparse-descending')
        yield [dict(keys=keys, atoms=[plain_atom(i, 0) for i in range(n)],
                    edges=list(itertools.combinations(keys, 2)))], 'complete graph K%d' % n


def random_name(rng):
    alphabet = string.ascii_uppercase * 3 + string.digits + "'*"
    while True:
        name = ''.join(rng.choice(alphabet) for _ in range(rng.choice([1, 2, 2, 3, 3, 4, 4, 4, 5, 6, 8])))
        if all(has_letter(c) for c in cand_str(name, 4) | cand_str(name, 5)):
            return name


def random_coord(rng):
    kind = rng.random()
    if kind < 0.25:
        return rng.choice(COORD_SWEEP[:30])
    if kind < 0.7:
        return round(rng.uniform(-20, 60), rng.choice([2, 3, 4, 6]))
    if kind < 0.95:
        return rng.uniform(-99.9, 999.9)
    return rng.uniform(-3000, 20000)


def random_system(rng, max_mols=4, max_atoms=30):
    desc = []
    atomid_style = rng.choice(['none', 'none', 'increasing', 'gaps', 'constant'])
    next_id = rng.choice([1, 1, 7, 9990, 99990])
    resid = rng.choice([1, 1, -5, 9990, 99995])
    for m in range(rng.randint(1, max_mols)):
        n = rng.choice([1, 2, 3, rng.randint(1, max_atoms)])
        keys = make_keys(n, rng.choice(['range', 'sparse-descending', 'offset', 'shuffled']), rng)
        chain = rng.choice(CHAINS)
        atoms = []
        for i in range(n):
            if rng.random() < 0.35:
                resid += rng.choice([1, 1, 1, 2, 10, -3])
            special = rng.random() < 0.08
            atom = dict(atomname=random_name(rng) if rng.random() < 0.4 else rng.choice(NAMES),
                        resname=rng.choice(RESNAME_SWEEP) if special else rng.choice(RESNAMES),
                        resid=rng.choice(RESID_SWEEP) if special else resid,
                        chain=rng.choice(CHAIN_SWEEP) if special else chain,
                        pos=(random_coord(rng), random_coord(rng), random_coord(rng)),
                        atomid=None, element=rng.choice([None, None, 'C', 'N', 'FE']))
            if atomid_style == 'increasing':
                atom['atomid'] = next_id
                next_id += 1
            elif atomid_style == 'gaps':
                atom['atomid'] = next_id
                next_id += rng.choice([0, 1, 1, 2, 5])
            elif atomid_style == 'constant':
                atom['atomid'] = 1
            atoms.append(atom)
        pairs = list(itertools.combinations(keys, 2))
        density = rng.choice([0.0, 0.1, 0.3, 0.6, 1.0])
        edges = [p for p in pairs if rng.random() < density]
        if n > 1 and rng.random() < 0.5:
            edges += [(keys[i], keys[i + 1]) for i in range(n - 1)]
        edges = sorted(set(tuple(sorted(e)) for e in edges))
        if rng.random() < 0.5:
            edges = [(b, a) for a, b in edges]
        desc.append(dict(keys=keys, atoms=atoms, edges=edges))
    return desc


# ---- big systems: a deterministic function of a small spec
def big_system(spec):
    """spec: sizes (atoms per molecule), bonds in {'none','chain','ends'}, resid in {'cyclic','running'}, keys in
    {'range','offset'}, names in {'plain','mixed'}"""
    desc, g = [], 0
    for m, n in enumerate(spec['sizes']):
        off = 0 if spec.get('keys', 'range') == 'range' else 3 + m
        keys = list(range(off, off + n))
        atoms = []
        for i in range(n):
            if spec.get('resid', 'cyclic') == 'cyclic':
                resid = (g // 4) % 9999 + 1
            else:
                resid = g // 3 - 50          # runs from negative through 9999/10000 (and 99999/100000 in GRO)
            name = NAMES[(g * 7 + m) % len(NAMES)]
            resname = RESNAMES[(g // 4) % len(RESNAMES)]
            if spec.get('names') == 'mixed' and g % 1013 == 5:
                name, resname = 'ABCDEFG', 'CHOLES'
            atoms.append(dict(atomname=name, resname=resname, resid=resid, chain=string.ascii_uppercase[m % 26],
                              pos=(((g * 7919) % 1099000) / 1000.0 - 99.9, ((g * 104729) % 20011) / 1000.0 - 9.9995,
                                   (g % 977) * 0.0101), atomid=None, element=None))
            g += 1
        edges = []
        if spec['bonds'] == 'chain':
            edges = [(keys[i], keys[i + 1]) for i in range(n - 1)]
        if spec['bonds'] in ('chain', 'ends') and n >= 2:
            span = min(n - 1, 12)
            edges += [(keys[i], keys[i + 1]) for i in range(span)] + [(keys[n - 2 - i], keys[n - 1 - i]) for i in range(span)]
            edges.append((keys[0], keys[n - 1]))
            hub = keys[max(0, n - 3)]
            for other in (keys[0], keys[n // 2], keys[n - 1], keys[max(0, n - 2)], keys[max(0, n - 5)], keys[n // 3],
                          keys[max(0, n - 9)]):
                if other != hub:
                    edges.append((hub, other))
        edges = sorted(set(tuple(sorted(e)) for e in edges))
        desc.append(dict(keys=keys, atoms=atoms, edges=edges))
    return desc


def big_tasks(tier):
    tasks = [
        # serials 9999 / 10000 / 10001: TER takes 9999, the second molecule starts at 10000
        dict(fmt='pdb', sizes=[9998, 6], bonds='ends', resid='cyclic', keys='range'),
        # full chains of bonds across the boundary, running residue numbers (cross 9999), over-long names
        dict(fmt='pdb', sizes=[5000, 5003], bonds='chain', resid='running', keys='offset', names='mixed'),
        # three molecules, boundary inside the middle one
        dict(fmt='pdb', sizes=[7, 9990, 9], bonds='ends', resid='cyclic', keys='offset'),
        dict(fmt='gro', sizes=[10003], bonds='none', resid='running', keys='offset', names='mixed'),
    ]
    if tier == 'thorough':
        tasks += [
            dict(fmt='pdb', sizes=[10003], bonds='chain', resid='running', keys='offset'),
            # beyond the five-digit limit (atom fields only; written without bonds)
            dict(fmt='pdb', sizes=[1000] * 100 + [7], bonds='none', resid='cyclic', keys='range'),
            # GRO: atom numbers and residue numbers cross 99999 / 100000
            dict(fmt='gro', sizes=[50000, 49999, 5], bonds='none', resid='running', keys='range'),
            # exactly the five-digit limit: 99 999 serials (49 molecules + 49 TER)
            dict(fmt='pdb', sizes=[2040] * 48 + [2030], bonds='ends', resid='cyclic', keys='range'),
            dict(fmt='pdb', sizes=[9999], bonds='chain', resid='cyclic', keys='range'),
            dict(fmt='pdb', sizes=[9997, 1], bonds='chain', resid='cyclic', keys='range'),
            dict(fmt='pdb', sizes=[10000], bonds='chain', resid='cyclic', keys='range'),
            dict(fmt='pdb', sizes=[1, 1, 9996, 4], bonds='chain', resid='running', keys='offset'),
            dict(fmt='pdb', sizes=[5000, 5000, 5000], bonds='chain', resid='running', keys='range', names='mixed'),
            dict(fmt='pdb', sizes=[33000, 33000, 33996], bonds='ends', resid='running', keys='range'),   # 99 999 serials
            dict(fmt='pdb', sizes=[9999] * 9 + [9998], bonds='chain', resid='cyclic', keys='offset'),    # 99 999 serials
            dict(fmt='pdb', sizes=[19999] * 5, bonds='none', resid='running', keys='range'),             # 100 000 serials
            dict(fmt='pdb', sizes=[12500] * 8, bonds='none', resid='running', keys='offset', names='mixed'),
            dict(fmt='gro', sizes=[99999], bonds='none', resid='cyclic', keys='range'),
            dict(fmt='gro', sizes=[100000], bonds='none', resid='cyclic', keys='range'),
            dict(fmt='gro', sizes=[100001], bonds='none', resid='running', keys='offset', names='mixed'),
            dict(fmt='gro', sizes=[70000, 70000, 70000, 100000], bonds='none', resid='running', keys='range'),
        ]
    return tasks


class _Events:
    """Collector look-alike for worker processes (picklable list of calls)."""

    def __init__(self):
        self.events = []

    def case(self, *args):
        self.events.append(('case',) + args)

    def violation(self, *args):
        self.events.append(('violation',) + args)


def _run_big(spec):
    logging.disable(logging.CRITICAL)
    ev = _Events()
    tmpdir = tempfile.mkdtemp(prefix='c16big')
    try:
        desc = big_system(spec)
        tag = 'big %s' % spec['fmt']
        if spec['fmt'] == 'pdb':
            check_pdb(ev, desc, tmpdir, via_file=len(spec['sizes']) % 2 == 0, spec=spec, tag=tag)
        else:
            check_gro(ev, desc, tmpdir, spec=spec, tag=tag)
    except Exception as ex:   # a crash of the harness itself must not vanish
        ev.violation('harness/raises-%s' % type(ex).__name__, '', 'the bounded harness crashed on a big system', spec,
                     '%s: %s' % (type(ex).__name__, ex), 'no exception')
    finally:
        shutil.rmtree(tmpdir, ignore_errors=True)
    return ev.events


def _replay_events(col, events):
    for ev in events:
        getattr(col, ev[0])(*ev[1:])


# ----------------------------------------------------------------------------------------------------------------
# TruncFormatter.format_field against its documentation
def trunc_oracle(value, spec, align, width):
    """the documented 't' rule: the plain result when it fits, else exactly `width` characters: the leftmost ones for
    left alignment, the rightmost ones for right alignment, the centre for '^'."""
    plain = format(value, spec)
    if width == 0 or len(plain) <= width:
        return plain
    over = len(plain) - width
    if not align:
        align = '<' if isinstance(value, str) else '>'
    if align == '<':
        return plain[:width]
    if align == '>':
        return plain[over:]
    return plain[over // 2: len(plain) - (over + 1) // 2]


def check_formatter(col, quick):
    from vermouth.truncating_formatter import TruncFormatter
    formatter = TruncFormatter()
    strs = ['', 'a', 'ab', 'abc', 'abcd', 'abcde', 'abcdef', 'abcdefghij']
    ints = [0, 7, -7, 99, 100, 999, 1000, -999, -1000, 9999, 10000, 99999, 100000, 100001, -12345, 123456789]
    floats = [0.0, -0.0, 1.5, -1.5, 99.9996, 999.9996, -99.9996, 9999.999, 12345.678, -1234.5678, 1e-5, 123456.789]
    aligns = ['', '<', '>', '^', '*>'] if quick else ['', '<', '>', '^', ' <', ' >', '*^', '*>']
    widths = ['', '1', '3', '4', '5', '8'] if quick else ['', '1', '2', '3', '4', '5', '8', '12']
    groups = [(strs, ['', 's'], [''], ['', '.2']),
              (ints, ['', 'd', 'x'], ['', '+', ' ', '-'], ['']),
              (floats, ['', 'f', 'e', 'g'], ['', '+', ' '], ['', '.0', '.2', '.3'])]
    n = 0
    for values, types, signs, precs in groups:
        for value, typ, sign, prec, align, width in itertools.product(values, types, signs, precs, aligns, widths):
            spec = align + sign + width + prec + typ
            try:
                plain = format(value, spec)
            except ValueError:
                continue
            w = int(width) if width else 0
            n += 1
            col.case(('format_field', repr(value), spec), w > 0 and len(plain) > w, dict(value=value, spec=spec + 't'))
            inp = dict(value=value, format_spec=spec + 't')
            try:
                got_plain = formatter.format_field(value, spec)
                got = formatter.format_field(value, spec + 't')
            except Exception as ex:
                col.violation('TruncFormatter.format_field/raises-%s' % type(ex).__name__, 'TruncFormatter.format_field',
                              'a valid format specification raises', inp, '%s: %s' % (type(ex).__name__, ex), plain)
                continue
            if got_plain != plain:
                col.violation('TruncFormatter.format_field/without-t', 'TruncFormatter.format_field',
                              "without the 't' flag the result differs from str.format", dict(value=value, format_spec=spec),
                              got_plain, plain)
            exp = trunc_oracle(value, spec, align[-1:] if align else '', w)
            if got == exp:
                continue
            if w == 0 or len(plain) <= w:
                clause = 'fits-unchanged'
            elif len(got) != w:
                clause = 'width'
            else:
                clause = 'side'
            col.violation('TruncFormatter.format_field/' + clause, 'TruncFormatter.format_field',
                          {'fits-unchanged': "a value that fits its width is altered by the 't' flag",
                           'width': "an overflowing value is not cut to exactly the field width (neighbouring columns shift)",
                           'side': 'an overflowing value is cut at the wrong side for its alignment'}[clause],
                          inp, got, exp)
    return n


# ----------------------------------------------------------------------------------------------------------------
def bounded(tier, seed):
    quick = tier != 'thorough'
    rng = random.Random(seed)
    col = Collector('round trip through the real writers and readers (write_pdb_string/write_pdb -> PDBParser/PDBInput, '
                    'write_gro -> GROInput) against the system that was written, with an independent column-table parser '
                    'of the text for attribution. exhaustive part: every system of <= 4 atoms in <= 3 molecules x every '
                    'subset of the possible bonds x 3 node-key styles; single-field sweeps over boundary pools (names of '
                    'length 0-11, residue numbers -123456..10^6, chains, coordinates at the rounding and width limits) at '
                    '3 positions; stars of degree 0-13 and K2-K8; TruncFormatter.format_field over a product of values x '
                    'format specifications; then seeded random systems and systems crossing 10^4 and 10^5 atoms. '
                    'non-trivial = at least two atoms (formatter: the value overflows its width)', max_violations=50)
    previous_disable = logging.root.manager.disable
    logging.disable(logging.CRITICAL)
    # import before forking so that the workers share the loaded library
    import vermouth.pdb.pdb  # noqa: F401
    import vermouth.gmx.gro  # noqa: F401
    import vermouth.processors.pdb_reader  # noqa: F401
    import vermouth.processors.gro_reader  # noqa: F401
    import vermouth.truncating_formatter  # noqa: F401
    tmpdir = tempfile.mkdtemp(prefix='c16')
    pool = async_big = None
    tasks = big_tasks(tier)
    t0 = time.time()
    try:
        try:
            pool = mp.get_context('fork').Pool(min(8 if not quick else 4, len(tasks)))
            # longest first
            order = sorted(range(len(tasks)), key=lambda i: -sum(tasks[i]['sizes']) * (2 if tasks[i]['fmt'] == 'pdb' else 1))
            async_big = [(i, pool.apply_async(_run_big, (tasks[i],))) for i in order]
        except Exception:
            pool = async_big = None
        # ---- formatter
        check_formatter(col, quick)
        # ---- exhaustive small scope
        n_topo = 0
        for k, desc in enumerate(topology_systems()):
            check_pdb(col, desc, tmpdir, via_file=(k % 5 == 0), tag='topology')
            check_gro(col, desc, tmpdir, tag='topology')
            n_topo += 1
        n_sweep = 0
        for k, (desc, pdb_only, tag) in enumerate(sweep_systems()):
            check_pdb(col, desc, tmpdir, via_file=(k % 7 == 0), tag=tag)
            if not pdb_only and gro_admissible(desc):
                check_gro(col, desc, tmpdir, tag=tag)
            n_sweep += 1
        for k, (desc, tag) in enumerate(degree_systems()):
            check_pdb(col, desc, tmpdir, via_file=(k % 3 == 0), tag=tag)
        col.exhaustive = True
        col.bound = ('%d systems (<= 4 atoms, <= 3 molecules, every bond subset, 3 key styles) in both formats; %d '
                     'single-field boundary sweeps; stars of degree 0..13 x 3 centre positions, K2..K8'
                     % (n_topo, n_sweep))
        # ---- seeded random
        n_rand = 300 if quick else 10000
        for k in range(n_rand):
            desc = random_system(rng, max_atoms=30 if k % 10 else 120)
            check_pdb(col, desc, tmpdir, via_file=(k % 4 == 0), tag='random')
            if gro_admissible(desc):
                check_gro(col, desc, tmpdir, tag='random')
            if quick and time.time() - t0 > 40:   # safety valve on an overloaded machine only
                break
        # ---- big systems
        if async_big is not None:
            results = {}
            for i, res in async_big:
                results[i] = res.get(timeout=840 if not quick else 120)
            for i in sorted(results):
                _replay_events(col, results[i])
        else:
            for spec in tasks:
                if quick and time.time() - t0 > 45:
                    break
                _replay_events(col, _run_big(spec))
    finally:
        if pool is not None:
            pool.terminate()
            pool.join()
        shutil.rmtree(tmpdir, ignore_errors=True)
        logging.disable(previous_disable)
    return col.result()


def replay_model(function, model):
    """counter-models of the deductive layer for C16 are column tables, not systems: nothing to replay natively."""
    return None

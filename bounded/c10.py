"""C10 bounded stand-in: the real MakeBonds processor runs natively on many small systems and is compared
with a pair-by-pair oracle written from the property statement (no code of /repo is used by the oracle)."""
import itertools
import logging
import math
import random
from .common import Collector, REPO, load_cli  # noqa: F401  (REPO/load_cli: sys.path handling lives in common)

# ----------------------------------------------------------------------------------------------------------------
# oracle data, transcribed independently
# ----------------------------------------------------------------------------------------------------------------
# A. Bondi, J. Phys. Chem. 68 (1964) 441, table of van der Waals radii, converted to nm; D taken equal to H.
BONDI_NM = {
    'H': 0.120, 'D': 0.120, 'He': 0.140, 'C': 0.170, 'N': 0.155, 'O': 0.152, 'F': 0.147, 'Ne': 0.154, 'Si': 0.210,
    'P': 0.180, 'S': 0.180, 'Cl': 0.175, 'Ar': 0.188, 'As': 0.185, 'Se': 0.190, 'Br': 0.185, 'Kr': 0.202,
    'Te': 0.206, 'I': 0.198, 'Xe': 0.216,
}
# elements used as "no radius": neither in the table above nor in Bondi's separate table of metals
NO_RADIUS = ('Fe', 'Ca', 'X')
# the reference blocks of the toy force field: atom names and bonds. The oracle reads THIS table only.
TOY_BLOCKS = {
    'AAA': (('A', 'B', 'C', 'D'), (('A', 'B'), ('B', 'C'))),
    'BBB': (('N', 'CA', 'C', 'O', 'H1', 'H2'), (('N', 'CA'), ('CA', 'C'), ('C', 'O'), ('N', 'H1'), ('CA', 'H2'))),
}
EPS = 1e-9     # |distance - threshold| <= EPS is left unspecified (floating point), unless provably exact
FAILED_RADIUS = set()   # elements whose radius probe disagreed in this run (used to attribute later disagreements)


def block_has(resname, name):
    return resname in TOY_BLOCKS and name in TOY_BLOCKS[resname][0]


def block_edge(resname, n1, n2):
    return any({n1, n2} == set(e) for e in TOY_BLOCKS[resname][1])


def distance(p, q):
    return math.sqrt(sum((float(a) - float(b)) ** 2 for a, b in zip(p, q)))


def threshold(fudge, r1, r2):
    return fudge * (0.5 * (r1 + r2))


def exactly_at_threshold(fudge, r1, r2, p, q):
    """True when the distance equals the threshold whatever the order of evaluation: the two points differ in one
    coordinate only (sqrt(x*x) == |x| in IEEE arithmetic) and all ways of computing the threshold agree."""
    diff = [float(a) - float(b) for a, b in zip(p, q)]
    if sum(1 for d in diff if d != 0.0) != 1:
        return False
    dist = abs([d for d in diff if d != 0.0][0])
    ways = {fudge * (0.5 * (r1 + r2)), (fudge * 0.5) * (r1 + r2), 0.5 * (fudge * r1 + fudge * r2),
            (0.5 * (r1 + r2)) * fudge, fudge * (r1 + r2) / 2, (fudge * (r1 + r2)) * 0.5}
    return len(ways) == 1 and dist in ways and distance(p, q) == dist


def residue_of(atom):
    """a residue = chain, number, name (and insertion code) WITHIN one input molecule."""
    return (atom['mol'], atom.get('chain'), atom.get('resid'), atom.get('resname'), atom.get('icode'))


def oracle(case):
    """pair -> (status, reason, kind); status in 'yes' / 'no' / 'any' (unspecified)."""
    atoms = {a['uid']: a for a in case['atoms']}
    fudge, use_name, use_dist = case['fudge'], case['allow_name'], case['allow_dist']
    existing = {frozenset(b) for b in case['bonds']}
    residues = {}
    for a in case['atoms']:
        residues.setdefault(residue_of(a), []).append(a)
    dup_res = set()       # residues with a repeated atom name
    for key, members in residues.items():
        names = [m['atomname'] for m in members if 'atomname' in m]
        if len(names) != len(set(names)):
            dup_res.add(key)

    def name_status(a, b, reading):
        """None: the names say nothing about this pair; True: bond of the block; False: non-bond of the block.
        reading 'fallback': a residue with repeated names is treated like an unknown residue (documented behaviour);
        reading 'unique': the uniquely named atoms of such a residue are still matched."""
        ra = residue_of(a)
        if ra != residue_of(b) or a.get('resname') not in TOY_BLOCKS:
            return None
        if ra in dup_res and reading == 'fallback':
            return None
        names = [m.get('atomname') for m in residues[ra]]
        for x in (a, b):
            if 'atomname' not in x or names.count(x['atomname']) != 1 or not block_has(x['resname'], x['atomname']):
                return None
        return block_edge(a['resname'], a['atomname'], b['atomname'])

    def status(a, b, reading):
        pair = frozenset((a['uid'], b['uid']))
        if pair in existing:
            return 'yes', 'existing', 'existing'
        ns = name_status(a, b, reading)
        if use_name and ns is True:
            return 'yes', 'bond-of-block', 'name'
        if not use_dist:
            return 'no', 'distance-mode-off', 'dist'
        if use_name and ns is False:
            return 'no', 'non-bond-of-block', 'dist'
        ea, eb = a.get('element'), b.get('element')
        if ea not in BONDI_NM or eb not in BONDI_NM:
            return 'no', 'no-radius', 'dist'
        same_res = residue_of(a) == residue_of(b)
        if 'D' in (ea, eb) and (not same_res or ea in 'HD' and eb in 'HD'):
            return 'any', 'deuterium', 'dist'       # is D "a hydrogen"? the statement does not say
        if ea == 'H' and eb == 'H':
            return 'no', 'H-H', 'dist'
        if not same_res and 'H' in (ea, eb):
            return 'no', 'H-other-residue', 'dist'
        d = distance(a['position'], b['position'])
        thr = threshold(fudge, BONDI_NM[ea], BONDI_NM[eb])
        exact = exactly_at_threshold(fudge, BONDI_NM[ea], BONDI_NM[eb], a['position'], b['position'])
        if abs(d - thr) <= EPS and not exact:
            return 'any', 'near-threshold', 'dist'
        within = exact or d <= thr
        if not use_name and name_status(a, b, 'unique') is False and within:
            # names are switched off: whether the block's non-bonds still count is not stated
            return 'any', 'non-bond-with-names-off', 'dist'
        if within:
            return 'yes', 'at-threshold' if exact else 'within-distance', 'dist'
        return 'no', 'too-far', 'dist'

    out = {}
    for a, b in itertools.combinations(case['atoms'], 2):
        sa = status(a, b, 'fallback')
        if residue_of(a) in dup_res or residue_of(b) in dup_res:
            sb = status(a, b, 'unique')
            if sa[0] != sb[0]:
                sa = ('any', 'repeated-names', sa[2])
        out[frozenset((a['uid'], b['uid']))] = sa
    return out, residues


# ----------------------------------------------------------------------------------------------------------------
# running the real code
# ----------------------------------------------------------------------------------------------------------------
_FF = {}


def toy_force_field():
    if 'ff' not in _FF:
        from vermouth.forcefield import ForceField
        from vermouth.molecule import Block
        ff = ForceField(name='c10toy')
        for resname, (names, edges) in TOY_BLOCKS.items():
            block = Block(force_field=ff)
            block.name = resname
            for idx, name in enumerate(names):
                block.add_node(idx, atomname=name, resname=resname, resid=1)
            for n1, n2 in edges:
                block.add_edge(names.index(n1), names.index(n2))
            ff.blocks[resname] = block
        _FF['ff'] = ff
    return _FF['ff']


ATTRS = ('atomname', 'resname', 'resid', 'chain', 'element', 'position')


def build_system(case):
    import numpy as np
    from vermouth.system import System
    from vermouth.molecule import Molecule
    system = System(force_field=toy_force_field())
    mols = {}
    for a in case['atoms']:
        mol = mols.get(a['mol'])
        if mol is None:
            mol = mols[a['mol']] = Molecule()
        attrs = {k: a[k] for k in ATTRS if k in a}
        if case.get('np_positions'):
            attrs['position'] = np.array(attrs['position'], dtype=float)
        else:
            attrs['position'] = tuple(attrs['position'])
        if 'icode' in a:
            attrs['insertion_code'] = a['icode']
        mol.add_node(a['key'], uid=a['uid'], **attrs)
    by_uid = {a['uid']: a for a in case['atoms']}
    for u, v in case['bonds']:
        mols[by_uid[u]['mol']].add_edge(by_uid[u]['key'], by_uid[v]['key'], tag='given')
    for idx in sorted(mols):
        system.add_molecule(mols[idx])
    return system


def run_real(case):
    """-> list of (dict uid -> node attributes, set of frozenset uid pairs) per returned molecule"""
    from vermouth.processors.make_bonds import MakeBonds
    system = build_system(case)
    MakeBonds(allow_name=case['allow_name'], allow_dist=case['allow_dist'], fudge=case['fudge']).run_system(system)
    out = []
    for mol in system.molecules:
        nodes = [dict(mol.nodes[n]) for n in mol.nodes]
        uid_of = {n: mol.nodes[n].get('uid') for n in mol.nodes}
        edges = [frozenset((uid_of[i], uid_of[j])) for i, j in mol.edges]
        out.append((nodes, edges))
    return out


# ----------------------------------------------------------------------------------------------------------------
# comparison
# ----------------------------------------------------------------------------------------------------------------
def same_value(x, y):
    try:
        if hasattr(x, '__len__') and not isinstance(x, str) or hasattr(y, '__len__') and not isinstance(y, str):
            return len(x) == len(y) and all(float(p) == float(q) for p, q in zip(x, y))
    except (TypeError, ValueError):
        return False
    return x == y


def pair_desc(case, pair):
    atoms = {a['uid']: a for a in case['atoms']}
    u, v = sorted(pair)
    a, b = atoms[u], atoms[v]
    d = dict(pair=[u, v], elements=[a.get('element'), b.get('element')],
             distance=distance(a['position'], b['position']))
    if a.get('element') in BONDI_NM and b.get('element') in BONDI_NM:
        d['threshold'] = threshold(case['fudge'], BONDI_NM[a['element']], BONDI_NM[b['element']])
    return d


def violations_of(case):
    """list of dict(key, function, what, observed, expected, nontrivial=...) for one case; [] when it agrees."""
    expected, residues = oracle(case)
    atoms = {a['uid']: a for a in case['atoms']}
    try:
        mols = run_real(case)
    except Exception as err:  # pylint: disable=broad-except
        return [dict(key='make_bonds/exception/%s' % type(err).__name__, function='make_bonds',
                     what='the processor raised on a well-formed system', observed=repr(err)[:300],
                     expected='molecules')]
    out = []
    # --- atoms kept, molecules partition the atoms
    seen = [n.get('uid') for nodes, _ in mols for n in nodes]
    if set(seen) != set(atoms) or any(u is None for u in seen):
        out.append(dict(key='make_bonds/atoms-kept', function='make_bonds', what='atoms lost or invented',
                        observed=sorted(str(u) for u in seen), expected=sorted(str(u) for u in atoms)))
        return out
    if len(seen) != len(set(seen)):
        out.append(dict(key='make_bonds/molecules-partition', function='make_bonds',
                        what='an atom is in more than one returned molecule',
                        observed=sorted(seen), expected=sorted(atoms)))
        return out
    for nodes, _ in mols:
        for n in nodes:
            a = atoms[n['uid']]
            for k in ATTRS:
                if (k in a) != (k in n) or (k in a and not same_value(a[k], n[k])):
                    out.append(dict(key='make_bonds/atoms-kept', function='make_bonds',
                                    what='attribute %s of an atom changed' % k,
                                    observed=repr(n.get(k)), expected=repr(a.get(k))))
    mol_of = {n['uid']: idx for idx, (nodes, _) in enumerate(mols) for n in nodes}
    # --- residues whole
    split = False
    for key, members in residues.items():
        where = {mol_of[m['uid']] for m in members}
        if len(where) > 1:
            split = True
            out.append(dict(key='make_bonds/residue-split', function='make_bonds',
                            what='the atoms of one residue are spread over several molecules',
                            observed={str(m['uid']): mol_of[m['uid']] for m in members}, expected='one molecule'))
            break
    # --- residues of one molecule connected to each other
    if not split:
        for idx, (nodes, edges) in enumerate(mols):
            parent = {}
            for n in nodes:
                parent[residue_of(atoms[n['uid']])] = residue_of(atoms[n['uid']])

            def find(x):
                while parent[x] != x:
                    x = parent[x]
                return x
            for e in edges:
                u, v = tuple(e)
                ru, rv = find(residue_of(atoms[u])), find(residue_of(atoms[v]))
                if ru != rv:
                    parent[ru] = rv
            comps = {find(x) for x in parent}
            if len(comps) > 1:
                out.append(dict(key='make_bonds/molecule-connected', function='make_bonds',
                                what='a returned molecule holds residues that are not linked by any bond',
                                observed=dict(molecule=idx, atoms=sorted(n['uid'] for n in nodes),
                                              bonds=sorted(sorted(e) for e in edges)),
                                expected='residues of a molecule connected to each other'))
                break
    # --- bonds, pair by pair
    got = set()
    for _, edges in mols:
        got.update(edges)
    for pair, (status, reason, kind) in sorted(expected.items(), key=lambda kv: sorted(kv[0])):
        present = pair in got
        if status == 'any' or present == (status == 'yes'):
            continue
        u, v = sorted(pair)
        els = [atoms[u].get('element'), atoms[v].get('element')]
        bad_el = sorted(e for e in els if e in FAILED_RADIUS)
        if status == 'yes':
            if kind == 'existing':
                key, fn, what = 'make_bonds/existing-bond-lost', 'make_bonds', 'a bond of the input is gone'
            elif kind == 'name':
                key, fn, what = ('_bonds_from_names/bond-missing', '_bonds_from_names',
                                 'a bond of the reference block between two atoms present was not made')
            else:
                fn, what = '_bonds_from_distance', 'a pair meeting every criterion was not bonded'
                if bad_el:
                    key = '_bonds_from_distance/radius/%s' % bad_el[0]
                elif case['fudge'] < 1:
                    key = '_bonds_from_distance/bond-missing/fudge<1'
                elif reason == 'at-threshold':
                    key = '_bonds_from_distance/bond-missing/at-threshold'
                else:
                    key = '_bonds_from_distance/bond-missing'
        else:
            fn, what = '_bonds_from_distance', 'a bond was made although the criteria forbid it (%s)' % reason
            if reason == 'too-far' and bad_el:
                key = '_bonds_from_distance/radius/%s' % bad_el[0]
            elif reason == 'distance-mode-off':
                key, fn = 'make_bonds/bond-extra/distance-mode-off', 'make_bonds'
            else:
                key = '_bonds_from_distance/bond-extra/%s' % reason
        desc = pair_desc(case, pair)
        desc['reason'] = reason
        out.append(dict(key=key, function=fn, what=what, observed=dict(bonded=present, **desc),
                        expected=dict(bonded=status == 'yes')))
    return out


def strip(case, drop_uid):
    new = dict(case)
    new['atoms'] = [a for a in case['atoms'] if a['uid'] != drop_uid]
    new['bonds'] = [b for b in case['bonds'] if drop_uid not in b]
    return new


def shrink(case, key):
    """greedy: drop atoms (then given bonds) while a violation with the same key remains."""
    progress = True
    while progress and len(case['atoms']) > 2:
        progress = False
        for a in list(case['atoms']):
            cand = strip(case, a['uid'])
            if any(v['key'] == key for v in violations_of(cand)):
                case, progress = cand, True
                break
    for b in list(case['bonds']):
        cand = dict(case, bonds=[x for x in case['bonds'] if x != b])
        if any(v['key'] == key for v in violations_of(cand)):
            case = cand
    return case


def jsonable(case):
    out = dict(case)
    out['atoms'] = [dict(a, position=[float(x) for x in a['position']]) for a in case['atoms']]
    return out


def is_nontrivial(case, expected):
    """some pair is decided by more than 'far apart': a bond is due, or a close pair is refused by a conjunct."""
    atoms = {a['uid']: a for a in case['atoms']}
    for pair, (status, reason, kind) in expected.items():
        if status == 'yes' and kind != 'existing':
            return True
        if status == 'no' and reason in ('non-bond-of-block', 'H-H', 'H-other-residue', 'no-radius'):
            u, v = tuple(pair)
            if distance(atoms[u]['position'], atoms[v]['position']) <= case['fudge'] * 0.2:
                return True
    return False


def radiusless(atom):
    return atom.get('element') not in BONDI_NM


def refine(case, viol):
    """the key of a distance-clause disagreement names what the MINIMAL reproducing system still needs: atoms besides
    the pair (with or without a radius) and the name mode. `case` must already be shrunk for viol['key']."""
    key = viol['key']
    if not isinstance(viol.get('observed'), dict) or 'pair' not in viol['observed']:
        return key
    atoms = {a['uid']: a for a in case['atoms']}
    a, b = (atoms[u] for u in viol['observed']['pair'])
    if a['mol'] != b['mol'] and residue_of(a)[1:] == residue_of(b)[1:]:
        # the two atoms carry the same chain/name/number in different input molecules. Does the disagreement go away
        # when the second molecule is given a chain of its own? then the coincidence was what mattered.
        variant = dict(case, atoms=[dict(x, chain=str(x.get('chain')) + 'z') if x['mol'] == b['mol'] else x
                                    for x in case['atoms']])
        if not any(v.get('observed', {}).get('pair') == viol['observed']['pair']
                   for v in violations_of(variant) if isinstance(v.get('observed'), dict)):
            return 'make_bonds/input-molecules-fused-into-one-residue'
    if not key.startswith('_bonds_from_distance/bond-'):
        return key
    if '/fudge<1' in key:
        return key          # already a regime of its own
    pair = set(viol['observed']['pair'])
    others = [a for a in case['atoms'] if a['uid'] not in pair]
    if others and key.endswith('/at-threshold'):
        key = key[:-len('/at-threshold')]       # a pure boundary defect shows with the pair alone
    if any(radiusless(a) for a in others):
        key += '+atom-without-radius'
    elif others:
        key += '+other-atoms'
    if case['allow_name'] and viol['observed'].get('reason') in ('too-far', 'within-distance', 'at-threshold'):
        if not any(v['key'] == viol['key'] for v in violations_of(dict(case, allow_name=False))):
            key += '+names-on'
    return key


def check_case(col, case, fingerprint, do_shrink=True):
    expected, _ = oracle(case)
    viols = violations_of(case)
    nontriv = is_nontrivial(case, expected)
    col.case(fingerprint, nontriv, jsonable(case) if nontriv and len(col.samples) < 4 else None)
    col.unspecified_pairs = getattr(col, 'unspecified_pairs', 0) + sum(1 for s in expected.values() if s[0] == 'any')
    if not viols:
        return viols
    attempts = col.__dict__.setdefault('attempts', {})
    for v in viols:
        sig = (v['key'], any(radiusless(a) for a in case['atoms']), case['allow_name'], len(case['atoms']) > 2)
        if attempts.get(sig, 0) >= 4:
            continue
        attempts[sig] = attempts.get(sig, 0) + 1
        small = case
        if do_shrink and len(case['atoms']) > 2:
            small = shrink(case, v['key'])
            v = next(x for x in violations_of(small) if x['key'] == v['key'])
        col.violation(refine(small, v), v['function'], v['what'], jsonable(small), v['observed'], v['expected'])
    return viols


# ----------------------------------------------------------------------------------------------------------------
# generation
# ----------------------------------------------------------------------------------------------------------------
OBLIQUE = (0.6, 0.48, 0.64)    # a unit vector
MODES = ((True, True), (True, False), (False, True), (False, False))


def radius_or_default(el):
    return BONDI_NM.get(el, 0.170)


def pair_case(e1, e2, placement, names, factor, fudge, mode, given):
    """two atoms. placement 0: one residue; 1: two residues of one molecule; 2: two molecules, identical
    chain/name/number; 3: two molecules, different number."""
    resname, n1, n2 = names
    thr = threshold(fudge, radius_or_default(e1), radius_or_default(e2))
    if factor == 'exact':
        pos2 = (thr, 0.0, 0.0)
    else:
        pos2 = tuple(thr * factor * c for c in OBLIQUE)
    a1 = dict(uid=0, mol=0, key=7, chain='A', resid=1, resname=resname, atomname=n1, position=(0.0, 0.0, 0.0))
    a2 = dict(uid=1, mol=0 if placement < 2 else 1, key=3 if placement < 2 else 7, chain='A',
              resid=1 if placement in (0, 2) else 2, resname=resname, atomname=n2, position=pos2)
    if e1 is not None:
        a1['element'] = e1
    if e2 is not None:
        a2['element'] = e2
    return dict(fudge=fudge, allow_name=mode[0], allow_dist=mode[1], atoms=[a1, a2],
                bonds=[[0, 1]] if given else [])


def triple_cases():
    """a pair plus one bystander atom, every position of the bystander in the atom order. The bystander has no radius
    / sits in another (known) residue while the pair's residue is unknown or has repeated names / sits in another
    input molecule."""
    for (e1, e2), kind, where, factor, near, fudge, mode, pair_res in itertools.product(
            (('C', 'C'), ('C', 'O')), ('no-radius', 'other-residue', 'other-molecule'), (0, 1, 2), (0.5, 1.7),
            (True, False), (1.0, 1.2), MODES, (('UNK', 'A', 'B'), ('AAA', 'A', 'A'), ('AAA', 'A', 'D'))):
        thr = threshold(fudge, BONDI_NM[e1], BONDI_NM[e2])
        resname, n1, n2 = pair_res
        p1 = dict(uid=0, mol=0, chain='A', resid=1, resname=resname, atomname=n1, element=e1,
                  position=(0.0, 0.0, 0.0))
        p2 = dict(uid=1, mol=0, chain='A', resid=1, resname=resname, atomname=n2, element=e2,
                  position=tuple(thr * factor * c for c in OBLIQUE))
        # the bystander: close to the first atom of the pair, or far from both
        bpos = (0.0, -0.4 * thr, 0.0) if near else (0.0, -5.0, 0.0)
        by = dict(uid=2, mol=0, chain='A', resid=1, resname=resname, atomname='X9', element='C', position=bpos)
        if kind == 'no-radius':
            by['element'] = 'Fe'
        elif kind == 'other-residue':
            by.update(resid=2, resname='AAA', atomname='A')
        else:
            by.update(mol=1, resid=2, resname='AAA', atomname='A')
        order = [p1, p2]
        order.insert(where, by)
        if kind == 'other-molecule' and where == 1:
            continue        # the order inside one molecule is then the same as for where == 0
        for key, atom in zip((11, 4, 8), order):
            atom['key'] = key
        yield ((e1, e2, kind, where, factor, near, fudge, mode, pair_res),
               dict(fudge=fudge, allow_name=mode[0], allow_dist=mode[1], atoms=order, bonds=[]))


def random_case(rng):
    n_mol = rng.choice((1, 1, 2, 2, 3))
    n_atoms = rng.randint(2, 12)
    fudge = rng.choice((0.5, 0.8, 1.0, 1.0, 1.2, 1.2, 1.5, 2.0, round(rng.uniform(0.3, 2.5), 3)))
    mode = rng.choice(((True, True), (True, True), (True, True), (False, True), (False, True), (True, False),
                       (False, False)))
    chains = rng.choice((('A',), ('A', 'B')))
    resids = rng.choice(((1,), (1, 2), (1, 2, 5)))
    resnames = rng.choice((('AAA',), ('BBB',), ('AAA', 'UNK'), ('BBB', 'UNK'), ('AAA', 'BBB', 'UNK'), ('UNK',)))
    unique_names = rng.random() < 0.7
    n_res = rng.randint(1, 4)
    res_pool = []
    for _ in range(n_res):
        res_pool.append((rng.randrange(n_mol), rng.choice(chains), rng.choice(resids), rng.choice(resnames)))
    # collisions of chain/name/number between molecules are wanted: copy an identity into another molecule
    if n_mol > 1 and rng.random() < 0.6:
        m, c, r, nm = rng.choice(res_pool)
        res_pool.append(((m + 1) % n_mol, c, r, nm))
    el_pool = rng.choice((('H', 'C', 'C', 'N', 'O'), ('H', 'H', 'C', 'O', 'S', 'Fe'), ('C', 'N', 'O', 'P', 'S'),
                          ('H', 'C', 'N', 'O', 'S', 'Se', 'Cl', 'Fe', None), ('H', 'C', 'D', 'Br', 'F', 'X')))
    factors = (0.3, 0.6, 0.9, 0.999, 1 - 1e-6, 'exact', 1 + 1e-6, 1.001, 1.1, 1.5, 2.5)
    atoms, used_names, keys = [], {}, {}
    for uid in range(n_atoms):
        mol, chain, resid, resname = rng.choice(res_pool)
        atom = dict(uid=uid, mol=mol, chain=chain, resid=resid, resname=resname)
        key_pool = keys.setdefault(mol, rng.sample(range(40), 14))
        atom['key'] = key_pool.pop()
        names = list(TOY_BLOCKS[resname][0]) if resname in TOY_BLOCKS else ['A', 'B', 'CA', 'O']
        roll = rng.random()
        if roll < 0.75:
            name = rng.choice(names)
        elif roll < 0.93:
            name = rng.choice(('X1', 'X2', 'OXT'))
        else:
            name = None
        taken = used_names.setdefault((mol, chain, resid, resname), set())
        if name is not None and unique_names and name in taken:
            free = [n for n in names + ['X1', 'X2', 'OXT', 'X3', 'X4', 'X5', 'X6', 'X7', 'X8'] if n not in taken]
            name = rng.choice(free) if free else None
        if name is not None:
            atom['atomname'] = name
            taken.add(name)
        el = rng.choice(el_pool)
        if name is not None and name.startswith('H') and rng.random() < 0.8:
            el = 'H'
        if el is not None:
            atom['element'] = el
        if not atoms:
            atom['position'] = tuple(round(rng.uniform(-1, 1), 3) for _ in range(3))
        else:
            other = rng.choice(atoms)
            thr = threshold(fudge, radius_or_default(el), radius_or_default(other.get('element')))
            factor = rng.choice(factors)
            if factor == 'exact':
                axis = rng.randrange(3)
                pos = list(other['position'])
                pos[axis] = pos[axis] + thr if rng.random() < 0.5 else pos[axis] - thr
                # keep only if the difference reproduces thr exactly; otherwise it is simply a near-threshold pair
                atom['position'] = tuple(pos)
            else:
                while True:
                    vec = [rng.gauss(0, 1) for _ in range(3)]
                    norm = math.sqrt(sum(x * x for x in vec))
                    if norm > 1e-3:
                        break
                atom['position'] = tuple(p + thr * factor * x / norm for p, x in zip(other['position'], vec))
        atoms.append(atom)
    if rng.random() < 0.5:
        rng.shuffle(atoms)      # atoms of one residue need not be contiguous nor in key order
    bonds = []
    if rng.random() < 0.4:
        for _ in range(rng.randint(1, 3)):
            a, b = rng.sample(atoms, 2)
            if a['mol'] == b['mol'] and sorted((a['uid'], b['uid'])) not in bonds:
                bonds.append(sorted((a['uid'], b['uid'])))
    case = dict(fudge=fudge, allow_name=mode[0], allow_dist=mode[1], atoms=atoms, bonds=bonds)
    if rng.random() < 0.5:
        case['np_positions'] = True
    return case


def radius_probe(col):
    """every element of the table: E-C pair in one (unknown) residue just inside / just outside the threshold."""
    for el in sorted(BONDI_NM):
        for fudge in (1.0, 1.2):
            for factor in (0.999, 1.001):
                case = pair_case(el, 'C', 0, ('UNK', 'A', 'B'), factor, fudge, (False, True), False)
                viols = violations_of(case)
                col.case(('radius', el, fudge, factor), True, jsonable(case))
                for v in viols:
                    if v['key'].startswith('_bonds_from_distance/bond-'):
                        FAILED_RADIUS.add(el)
                        col.violation('_bonds_from_distance/radius/%s' % el, '_bonds_from_distance',
                                      'the radius used for element %s is not the Bondi radius %.3f nm: %s'
                                      % (el, BONDI_NM[el], v['what']),
                                      jsonable(case), v['observed'], v['expected'])
                    else:
                        col.violation(v['key'], v['function'], v['what'], jsonable(case), v['observed'],
                                      v['expected'])
    # an element may also be given a radius that is far too large: look well beyond the threshold too
    for el in sorted(BONDI_NM):
        if el in FAILED_RADIUS:
            continue
        for factor in (2.0, 4.0):
            case = pair_case(el, 'C', 0, ('UNK', 'A', 'B'), factor, 1.0, (False, True), False)
            col.case(('radius', el, 1.0, factor), False)
            for v in violations_of(case):
                if v['key'].startswith('_bonds_from_distance/bond-'):
                    FAILED_RADIUS.add(el)
                    col.violation('_bonds_from_distance/radius/%s' % el, '_bonds_from_distance',
                                  'the radius used for element %s is not the Bondi radius' % el, jsonable(case),
                                  v['observed'], v['expected'])
                else:
                    col.violation(v['key'], v['function'], v['what'], jsonable(case), v['observed'], v['expected'])


def bounded(tier, seed):
    rng = random.Random(seed)
    quick = tier != 'thorough'
    col = Collector('MakeBonds.run_system on a toy force field (blocks AAA, BBB) against a pair-by-pair oracle: '
                    '(1) radius probe of all 20 elements; (2) exhaustive grid of two-atom systems: element pair x '
                    'placement (one residue / two residues / two input molecules with identical chain,name,number / '
                    'two molecules) x names (block bond, block non-bond, name outside block, repeated name, unknown '
                    'residue) x distance (0.5, 1-1e-6, exactly 1, 1+1e-6, 1.7 times the threshold) x fudge x the 4 '
                    'name/distance modes x pre-existing bond; (2b) grid of pair + one bystander atom; (3) seeded random systems of 2..12 atoms in 1..3 input '
                    'molecules with colliding residue identities, repeated/missing names, elements without radius, '
                    'near-threshold geometry, sparse unordered node keys, shuffled atom order, given bonds. '
                    'Checked: atoms and given bonds kept, molecules partition the atoms, residues whole, residues '
                    'of a molecule connected, every pair bonded iff the statement says so. Pairs within 1e-9 of the '
                    'threshold (unless provably exact), D-as-hydrogen, non-bonds with names off and repeated-name '
                    'ambiguities are left unspecified. non-trivial = a bond is due or a close pair is refused by a '
                    'non-distance conjunct', max_violations=50)
    FAILED_RADIUS.clear()
    previous = logging.root.manager.disable
    logging.disable(logging.CRITICAL)
    try:
        radius_probe(col)
        if quick:
            el_pairs = [('C', 'C'), ('H', 'C'), ('C', 'H'), ('H', 'H'), ('C', 'Fe'), ('O', 'N')]
            fudges = (0.5, 1.0, 1.2)
        else:
            els = ('H', 'C', 'N', 'O', 'S', 'Fe', None)
            el_pairs = list(itertools.product(els, repeat=2))
            fudges = (0.5, 1.0, 1.2, 2.0)
        names = (('AAA', 'A', 'B'), ('AAA', 'A', 'C'), ('AAA', 'A', 'X'), ('AAA', 'A', 'A'), ('UNK', 'A', 'B'))
        factors = (0.5, 1 - 1e-6, 'exact', 1 + 1e-6, 1.7)
        n_grid = 0
        for (e1, e2), placement, nm, factor, fudge, mode in itertools.product(el_pairs, range(4), names, factors,
                                                                             fudges, MODES):
            for given in ((False, True) if placement < 2 else (False,)):
                if given and quick and factor in (1 - 1e-6, 1 + 1e-6):
                    continue
                case = pair_case(e1, e2, placement, nm, factor, fudge, mode, given)
                check_case(col, case, ('grid', e1, e2, placement, nm, factor, fudge, mode, given), do_shrink=False)
                n_grid += 1
        n_triple = 0
        for fp, case in triple_cases():
            check_case(col, case, ('triple',) + fp)
            n_triple += 1
        col.exhaustive = True
        col.bound = ('two-atom systems: %d element pairs x 4 placements x 5 name settings x 5 distance classes x '
                     '%d fudge factors x 4 modes (x given bond where both atoms share a molecule) = %d systems; '
                     'pair + bystander systems (no radius / other residue / other molecule, each place in the atom '
                     'order, near or far, pair residue unknown / repeated names / known) = %d systems; '
                     'plus 20-element radius probe' % (len(el_pairs), len(fudges), n_grid, n_triple))
        n_rand = 2500 if quick else 60000
        for idx in range(n_rand):
            case = random_case(rng)
            check_case(col, case, ('rand', seed, idx))
    finally:
        logging.disable(previous)
    res = col.result()
    res['unspecified_pairs_skipped'] = getattr(col, 'unspecified_pairs', 0)
    return res


def replay_model(function, model):
    """a counter-model may carry a system in this module's own case format under 'case'."""
    case = model.get('case') if isinstance(model, dict) else None
    if not case:
        return None
    previous = logging.root.manager.disable
    logging.disable(logging.CRITICAL)
    try:
        viols = violations_of(case)
    finally:
        logging.disable(previous)
    if viols:
        v = viols[0]
        return dict(key=v['key'], function=v['function'], what='replayed counter-model', input=jsonable(case),
                    observed=v['observed'], expected=v['expected'])
    return None

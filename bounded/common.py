"""helpers shared by the bounded stand-ins (native execution of the real code against spec oracles)."""
import importlib.machinery
import importlib.util
import os
import sys

REPO = os.environ.get('VERIF_REPO', '/repo')
if os.environ.get('VERIF_REPO'):
    sys.path.insert(0, REPO)


def load_cli():
    """the real bin/martinize2 of the working tree, as a module (not the stale copy in /venv/bin)."""
    path = os.path.join(REPO, 'bin', 'martinize2')
    loader = importlib.machinery.SourceFileLoader('martinize2_cli', path)
    spec = importlib.util.spec_from_loader('martinize2_cli', loader)
    mod = importlib.util.module_from_spec(spec)
    loader.exec_module(mod)
    return mod


class Collector:
    """collects evaluations / distinct non-trivial cases / samples / violations of a bounded run."""

    def __init__(self, rule, max_violations=5):
        self.rule = rule
        self.evaluations = 0
        self.nontrivial = set()
        self.samples = []
        self.violations = []
        self.max_violations = max_violations
        self.exhaustive = False
        self.bound = ''

    def case(self, fingerprint, nontrivial, sample=None):
        self.evaluations += 1
        if nontrivial:
            self.nontrivial.add(fingerprint)
        if sample is not None and len(self.samples) < 4 and nontrivial:
            self.samples.append(sample)

    def violation(self, key, function, what, inp, observed, expected):
        if len([v for v in self.violations if v['key'] == key]) >= 1:
            return
        self.violations.append(dict(key=key, function=function, what=what, input=inp, observed=observed,
                                    expected=expected))

    def result(self):
        return dict(evaluations=self.evaluations, distinct_nontrivial=len(self.nontrivial), rule=self.rule,
                    samples=self.samples, violations=self.violations, exhaustive=self.exhaustive, bound=self.bound)
